"""Translator from a restricted subset of Python to Lean 4 definitions (ast only; never imports pypyr).

Second static tie between /repo and the hand-written Lean models: for the pure leaf functions the
theorems are about, the Python source itself is translated - on every check - into Lean
definitions (`lean/Generated/Translated*.lean`, namespace `Pypyr.Translated.<Module>`), on top of
the runtime library `lean/PypyrModel/PyRt.lean`, and `lean/Props/Translated_*.lean` proves the
translated definitions EQUAL to the hand-written model definitions for all inputs. An edit of such a
function regenerates different Lean code; either the equality proof still goes through (harmless
rewrite) or a `translated_*_eq_model` obligation breaks.

Wherever the source leaves the subset below the translator raises `TranslateError(node, reason)`;
it never guesses (`common.run_check` turns the exception into a proof problem).

THE SUBSET
  Typing. Python is untyped, Lean is not: every translated function gets the types of its
    parameters (and every class the types of its attributes) from the TARGETS table at the bottom of
    this file; these declarations are the *domain* on which the translation is claimed faithful and
    are printed into the generated file. Types: Num (exact int/float), Nat (non-negative int), Int,
    Bool, Str, Val (dynamic), None, List t, Opt t, Tuple, Dict k v, a class, the union NumOrSeq,
    PyObj/PyType. Local variables are inferred. `x: Opt t` is narrowed to `t` by `if x` /
    `if not x` / `x is None` / `x is not None` / `a if x else b`; unions and `Val` are narrowed by
    `isinstance(x, C)` / `isinstance(x, (C, D))` (the class set must select constructors exactly).
  Definitions. Module-level `def`s; methods of classes with single inheritance inside the module.
    A class becomes a Lean structure with the declared attributes; `__init__` becomes `C.init`
    returning the structure (`super().__init__(…)` is inlined; methods called on the half-built
    object may only read attributes already assigned); every method reachable from the requested
    ones is emitted once per *concrete* class (`C.m`; a method reached through `super()` as
    `C.<Base>_m`). A method that assigns `self.a = …` or calls `self.a.popleft()` returns the
    updated object as a second component. Module-level `NAME = <constant>` is inlined; a
    module-level `{'name': Class, …}` table becomes a `List (String × String)`.
  Parameters: positional-or-keyword, constant defaults. No *args/**kwargs/decorators (except that
    an `@abc.abstractmethod` method is simply never emitted)/nested defs/lambdas/global/nonlocal.
  Statements: docstring, `pass`, `logger.<level>(constant …)` (skipped: logging is not observable
    in the models), `x = e`, `a, b, c = e`, `x: T = e`, `x += e` (and - *), `self.a = e`,
    `d[k] = v` and `xs.append(e)` on a local bound to a fresh literal in the same function,
    `if/elif/else`, `return [e]`, `raise E[(msg)]` (→ `Except Exc`, name as `get_error_name` gives it),
    `for x in xs:` over a list without break/continue/return/raise (→ `List.foldl` over the tuple
    of variables the body rebinds).
  Expressions: names, `self.a`, str/int/bool/None constants, f-strings of str pieces,
    `+ - *` and `**`/`pow(b, n)` with n: Nat, unary `-`/`not`, one comparison
    (`< <= > >= == !=`, `in`/`not in` a literal list/tuple/set or a list, `is [not] None`),
    `and`/`or` (Python truthiness made explicit; value position needs one common type),
    conditional expressions, tuple/list/dict displays, list/generator/dict comprehensions with one
    `for` (+ `if`s), `dict(<generator of pairs>)`, and calls of:
      builtins  min(a, b) max(a, b) len(x) bool(x) pow(b, n) isinstance(x, C) type(x) str(s)
      str       s.lower() s.partition(c) s.rpartition(c) (one-character constant c) sep.join(xs)
      dict      d.get(k, default)
      deque     deque(xs[, maxlen]) (from collections), q.popleft(), q[-1], xs[0]
      module-level functions, `self.m(…)`, `super().m(…)`
      declared externals (`random.uniform(a, b)` → `PyRt.randomUniform a b rnd` with the extra
      parameter `rnd` = what `random.random()` returns; at most one draw per function).
    `q.popleft()`, `q[-1]`, `xs[0]` can raise IndexError: the function then returns `Except Exc _`
    and sub-expressions are sequenced left to right; such a call may not sit under `and`/`or`/a
    conditional expression/a comprehension.
  Everything else: TranslateError.

Output is deterministic, total (no `partial`, loops are folds), Mathlib-free and rewritten only when
its content changes.
"""
from __future__ import annotations

import ast
import os
import re
from pathlib import Path

VERIF = Path(__file__).resolve().parent.parent
GEN = VERIF / 'lean' / 'Generated'


def repo():
    return Path(os.environ.get('PYPYR_REPO', '/repo'))


class TranslateError(Exception):
    def __init__(self, node, reason):
        self.node, self.reason = node, reason
        where = ''
        if isinstance(node, ast.AST):
            try:
                src = ast.unparse(node).splitlines()[0][:90]
            except Exception:
                src = type(node).__name__
            where = f' [line {getattr(node, "lineno", "?")}: {src}]'
        elif node is not None:
            where = f' [{node}]'
        super().__init__(f'outside the translatable subset: {reason}{where}')


# ---------------------------------------------------------------------------------------------
# types
# ---------------------------------------------------------------------------------------------

NUM, NAT, INT, BOOL, STR, VAL, NONE = ('num',), ('nat',), ('int',), ('bool',), ('str',), ('val',), ('none',)
PYOBJ, PYTYPE = ('pyobj',), ('pytype',)


def LIST(t): return ('list', t)
def OPT(t): return ('opt', t)
def TUP(*ts): return ('tuple', tuple(ts))
def DICT(k, v): return ('dict', k, v)
def STRUCT(n): return ('struct', n)
def UNION(n): return ('union', n)
def INTLIT(k): return ('intlit', k)


class TVar:
    """element type of an empty list literal, fixed by its first use."""
    count = 0
    registry = {}

    def __init__(self):
        TVar.count += 1
        self.id = TVar.count
        self.ref = None
        TVar.registry[self.id] = self

    def __repr__(self):
        return f'?{self.id}'


def resolve(t):
    if isinstance(t, TVar):
        return resolve(t.ref) if t.ref is not None else t
    k = t[0]
    if k in ('list', 'opt'):
        return (k, resolve(t[1]))
    if k == 'tuple':
        return ('tuple', tuple(resolve(x) for x in t[1]))
    if k == 'dict':
        return ('dict', resolve(t[1]), resolve(t[2]))
    return t


# union types: name -> [(constructor, payload type, python classes it stands for)]
UNIONS = {
    'NumOrSeq': [('num', NUM, {'int', 'float'}), ('seq', LIST(NUM), {'list', 'set'})],
}
# Val constructors selected by isinstance(x, <class>)
VAL_CLASSES = {
    'str': [('str', STR)], 'bool': [('bool', BOOL)], 'int': [('bool', BOOL), ('int', INT)],
    'float': [('flt', None)], 'list': [('list', LIST(VAL))], 'tuple': [('tuple', LIST(VAL))],
    'dict': [('dict', DICT(VAL, VAL))], 'set': [('set', LIST(VAL))], 'bytes': [('bytes', None)],
}
VAL_ARITY = {'flt': 2}
# imported abstract classes: the Val constructors that are instances (a dict is the only Mapping among them)
VAL_IMPORTED_CLASSES = {'collections.abc.Mapping': 'dict', 'typing.Mapping': 'dict'}

SIMPLE = {'num': 'Num', 'nat': 'Nat', 'int': 'Int', 'bool': 'Bool', 'str': 'String', 'val': 'Val',
          'none': 'Unit', 'pyobj': 'PyRt.PyObj', 'pytype': 'PyRt.PyType', 'intlit': 'Int'}


def lty(t, top=True):
    """Lean text of a type (type variables are rendered as markers, filled in at the end)."""
    t = resolve(t)
    if isinstance(t, TVar):
        return f'\x00{t.id}\x00'
    k = t[0]
    if k in SIMPLE:
        return SIMPLE[k]
    if k == 'struct':
        return t[1]
    if k == 'union':
        return 'PyRt.' + t[1]
    if k == 'list':
        s = 'List ' + lty(t[1], False)
    elif k == 'opt':
        s = 'Option ' + lty(t[1], False)
    elif k == 'tuple':
        s = ' × '.join(lty(x, False) for x in t[1])
    elif k == 'dict':
        s = f'List ({lty(t[1])} × {lty(t[2])})'
    else:
        raise TranslateError(None, f'unknown type {t}')
    return s if top else f'({s})'


def show(t):
    t = resolve(t)
    if isinstance(t, TVar):
        return '?'
    k = t[0]
    if k in ('list', 'opt'):
        return f'{k.capitalize()} {show(t[1])}'
    if k == 'tuple':
        return 'Tuple(' + ', '.join(show(x) for x in t[1]) + ')'
    if k == 'dict':
        return f'Dict {show(t[1])} {show(t[2])}'
    if k in ('struct', 'union'):
        return t[1]
    if k == 'intlit':
        return 'int literal'
    return k.capitalize()


NUMERIC = ('num', 'nat', 'int', 'intlit')

LEAN_RESERVED = {'at', 'from', 'end', 'do', 'fun', 'open', 'in', 'then', 'else', 'if', 'match', 'with', 'let',
                 'have', 'show', 'by', 'def', 'theorem', 'instance', 'structure', 'where', 'namespace', 'section',
                 'variable', 'universe', 'import', 'return', 'for', 'unless', 'mut', 'try', 'catch', 'finally',
                 'Type', 'Prop', 'Sort', 'deriving', 'class', 'abbrev', 'example', 'macro', 'syntax', 'notation',
                 'infix', 'prefix', 'postfix', 'private', 'protected', 'partial', 'unsafe', 'mutual', 'using',
                 'calc', 'nomatch', 'nofun', 'this', 'self_', 'rnd', 'pure', 'throw', 'some', 'none', 'true', 'false'}
DUNDER = {'__call__': 'call', '__init__': 'init'}


def safe(name):
    """Python identifier -> Lean identifier (deterministic)."""
    name = DUNDER.get(name, name)
    if name in LEAN_RESERVED or name.startswith('__'):
        return name.strip('_') + '_'
    if name == '_':
        return '_'
    return name


def lean_str(s):
    out = '"'
    for ch in s:
        if ch == '"':
            out += '\\"'
        elif ch == '\\':
            out += '\\\\'
        elif ch == '\n':
            out += '\\n'
        elif ch == '\t':
            out += '\\t'
        elif ord(ch) < 32 or ord(ch) == 127:
            out += '\\x%02x' % ord(ch)
        else:
            out += ch               # Lean sources are UTF-8: non-ASCII characters stand for themselves
    return out + '"'


def lean_char(c):
    if c == "'":
        return "'\\''"
    if c == '\\':
        return "'\\\\'"
    if ord(c) < 32 or ord(c) == 127:
        return "'\\x%02x'" % ord(c)
    return f"'{c}'"


def indent(lines, n=2):
    pad = ' ' * n
    return [pad + ln for ln in lines]


BUILTIN_EXCEPTIONS = {'Exception', 'ValueError', 'TypeError', 'KeyError', 'IndexError', 'AttributeError',
                      'RuntimeError', 'NotImplementedError', 'LookupError', 'ArithmeticError',
                      'ZeroDivisionError', 'AssertionError', 'OSError', 'StopIteration'}
LOG_LEVELS = {'debug', 'info', 'warning', 'error', 'critical', 'exception', 'notify', 'log'}


# ---------------------------------------------------------------------------------------------
# environments and function descriptions
# ---------------------------------------------------------------------------------------------

class Env:
    """name -> type of the locals in scope; narrowings of `self.<attr>`; which locals hold a fresh
    (unaliased) list/dict; in `__init__`: attributes assigned so far."""

    def __init__(self):
        self.vars = {}
        self.narrow = {}      # attr -> (lean local name, type)
        self.fresh = set()
        self.assigned = []    # init mode: attrs assigned, in order

    def copy(self):
        e = Env()
        e.vars = dict(self.vars)
        e.narrow = dict(self.narrow)
        e.fresh = set(self.fresh)
        e.assigned = list(self.assigned)
        return e


class FnInfo:
    def __init__(self, key, lean, params, self_struct, kind):
        self.key = key                # ('fn', name) | ('m', C, D, name) | ('init', C)
        self.lean = lean              # Lean name relative to the module namespace
        self.params = params          # [(python name, type, default code or None)]
        self.self_struct = self_struct
        self.kind = kind              # 'function' | 'method' | 'init'
        self.exc = False              # returns Except Exc _
        self.mut = False              # returns (_, self)
        self.draw = False             # takes the extra parameter rnd
        self.oracles = []             # extra function parameters standing for opaque library calls (json.loads)
        self.ret = None               # result type (before Except / × self)
        self.lines = []
        self.src = ''                 # "file:line name" for the doc comment

    def flags(self):
        return (self.exc, self.mut, self.draw, tuple(self.oracles),
                repr(resolve(self.ret)) if self.ret is not None else None)

    def result_lty(self):
        r = lty(self.ret)
        if self.mut:
            r = f'{lty(self.ret, False)} × {self.self_struct}'
        if self.exc:
            r = f'Except Exc ({r})'
        return r


def unify(a, b):
    """make two types equal by fixing type variables; False if impossible."""
    a, b = resolve(a), resolve(b)
    if isinstance(a, TVar):
        if a is not b:
            a.ref = b
        return True
    if isinstance(b, TVar):
        b.ref = a
        return True
    if a[0] != b[0]:
        return False
    k = a[0]
    if k in ('list', 'opt'):
        return unify(a[1], b[1])
    if k == 'tuple':
        return len(a[1]) == len(b[1]) and all(unify(x, y) for x, y in zip(a[1], b[1]))
    if k == 'dict':
        return unify(a[1], b[1]) and unify(a[2], b[2])
    return a == b


def join(a, b, node=None):
    """least common type of two branches / returns."""
    a, b = resolve(a), resolve(b)
    if isinstance(a, TVar) or isinstance(b, TVar):
        unify(a, b)
        return resolve(a)
    if a == b:
        return a
    ka, kb = a[0], b[0]
    if ka == 'intlit' and kb == 'intlit':
        return INT
    if ka == 'intlit':
        a, b, ka, kb = b, a, kb, ka
    if kb == 'intlit':
        if ka == 'num':
            return NUM
        if ka == 'nat':
            return NAT if b[1] >= 0 else INT
        if ka == 'int':
            return INT
    if {ka, kb} <= {'num', 'nat', 'int'}:
        return NUM if 'num' in (ka, kb) else INT
    if ka == 'val' or kb == 'val':
        return VAL
    if ka == 'none':
        return b if kb == 'opt' else OPT(b)
    if kb == 'none':
        return a if ka == 'opt' else OPT(a)
    if ka == 'opt' and kb == 'opt':
        return OPT(join(a[1], b[1], node))
    if ka == 'opt':
        return OPT(join(a[1], b, node))
    if kb == 'opt':
        return OPT(join(a, b[1], node))
    if ka == 'list' and kb == 'list':
        return LIST(join(a[1], b[1], node))
    raise TranslateError(node, f'branches have incompatible types {show(a)} and {show(b)}')


def _balanced(code):
    if code[0] not in '([':
        return True
    depth = 0
    for i, ch in enumerate(code):
        if ch in '([':
            depth += 1
        elif ch in ')]':
            depth -= 1
            if depth == 0 and i != len(code) - 1:
                return False
    return depth == 0


def par(code):
    return code if atom(code) else f'({code})'


# is this Lean text safe to use as an application argument without parentheses?
_ATOM = re.compile(r"""[A-Za-z_][A-Za-z0-9_.'!?]*|[0-9]+|"(?:[^"\\]|\\.)*"|'(?:[^'\\]|\\.)+'|\(.*\)|\[.*\]""", re.S)


def atom(code):
    return bool(_ATOM.fullmatch(code)) and _balanced(code)


# ---------------------------------------------------------------------------------------------
# one function
# ---------------------------------------------------------------------------------------------

class FnCtx:
    """Translation of one function body. `info` carries the flags found by the previous pass
    (the module translator iterates to a fixpoint)."""

    def __init__(self, mod, info, node, cls=None, defcls=None):
        self.mod, self.info, self.node = mod, info, node
        self.cls, self.defcls = cls, defcls          # instance class / class whose code is being compiled
        self.mode = info.kind
        self.exc = self.mut = self.draw = False
        self.oracles = []
        self.draws = 0
        self.ret_types = []
        self.pre = []
        self.noeff = 0
        self.self_read = False
        self.ntemp = 0

    # ---- small helpers -----------------------------------------------------------------------
    def fresh(self):
        self.ntemp += 1
        return f't{self.ntemp}'

    def fields(self):
        return self.mod.spec['classes'][self.cls]['fields']

    def take_pre(self):
        p, self.pre = self.pre, []
        self.self_read = False
        return p

    def effect(self, node, what):
        if self.noeff:
            raise TranslateError(node, f'{what} may raise or mutates state and sits where evaluation is conditional '
                                       '(and/or, conditional expression, comprehension, loop body)')

    # ---- coercions ---------------------------------------------------------------------------
    def to_val(self, code, t, node):
        t = resolve(t)
        if isinstance(t, TVar):
            raise TranslateError(node, 'element type of an empty list is never determined')
        k = t[0]
        if k == 'val':
            return code
        if k == 'str':
            return f'Val.str {par(code)}'
        if k == 'bool':
            return f'Val.bool {par(code)}'
        if k == 'nat':
            return f'Val.int (Int.ofNat {par(code)})'
        if k == 'int':
            return f'Val.int {par(code)}'
        if k == 'intlit':
            return f'Val.int ({t[1]})'
        if k == 'num':
            return f'Num.toVal {par(code)}'
        if k == 'none':
            return 'Val.none'
        if k == 'list':
            if isinstance(resolve(t[1]), TVar):
                unify(t[1], VAL)        # an empty list literal stored dynamically
            if resolve(t[1]) == VAL:
                return f'Val.list {par(code)}'
            return f'Val.list ({par(code)}.map (fun x => {self.to_val("x", t[1], node)}))'
        if k == 'dict':
            if resolve(t[1]) == VAL and resolve(t[2]) == VAL:
                return f'Val.dict {par(code)}'
            return (f'Val.dict ({par(code)}.map (fun kv => ({self.to_val("kv.1", t[1], node)}, '
                    f'{self.to_val("kv.2", t[2], node)})))')
        if k == 'opt':
            return f'match {code} with | none => Val.none | some x => {self.to_val("x", t[1], node)}'
        raise TranslateError(node, f'a value of type {show(t)} cannot be stored in a dynamically typed position')

    def coerce(self, code, s, d, node):
        s, d = resolve(s), resolve(d)
        if isinstance(s, TVar) or isinstance(d, TVar):
            unify(s, d)
            return code
        if s == d:
            return code
        ks, kd = s[0], d[0]
        if ks == 'intlit':
            k = s[1]
            if kd == 'num':
                return f'PyRt.numOfInt {k}' if k >= 0 else f'PyRt.numOfInt ({k})'
            if kd == 'nat' and k >= 0:
                return str(k)
            if kd == 'int':
                return f'({k} : Int)'
            if kd == 'val':
                return f'Val.int ({k})'
            if kd == 'opt':
                return f'some {par(self.coerce(code, s, d[1], node))}'
        if ks == 'nat' and kd == 'num':
            return f'PyRt.natToNum {par(code)}'
        if ks == 'nat' and kd == 'int':
            return f'Int.ofNat {par(code)}'
        if ks == 'int' and kd == 'num':
            return f'PyRt.numOfInt {par(code)}'
        if ks == 'none' and kd == 'opt':
            return 'none'
        if kd == 'val':
            return self.to_val(code, s, node)
        if ks == 'list' and kd == 'list':
            if unify(s[1], d[1]):
                return code
            inner = self.coerce('x', s[1], d[1], node)
            return f'{par(code)}.map (fun x => {inner})'
        if ks == 'opt' and kd == 'opt':
            inner = self.coerce('x', s[1], d[1], node)
            return f'{par(code)}.map (fun x => {inner})'
        if kd == 'opt':
            return f'some {par(self.coerce(code, s, d[1], node))}'
        raise TranslateError(node, f'a value of type {show(s)} is used where {show(d)} is expected')

    def truthy(self, code, t, node):
        t = resolve(t)
        k = t[0] if not isinstance(t, TVar) else 'tvar'
        if k == 'bool':
            return code
        if k == 'num':
            return f'PyRt.truthyNum {par(code)}'
        if k in ('nat', 'int'):
            return f'{par(code)} != 0'
        if k == 'intlit':
            return 'true' if t[1] != 0 else 'false'
        if k == 'str':
            return f'PyRt.truthyStr {par(code)}'
        if k in ('list', 'dict'):
            return f'PyRt.truthyList {par(code)}'
        if k == 'val':
            return f'Val.truthy {par(code)}'
        if k == 'none':
            return 'false'
        if k == 'opt':
            return f'PyRt.truthyOpt (fun x => {self.truthy("x", t[1], node)}) {par(code)}'
        raise TranslateError(node, f'truthiness of a value of type {show(t)} is not defined in the subset')

    def as_num(self, code, t, node):
        return self.coerce(code, t, NUM, node)

    # ---- narrowing -----------------------------------------------------------------------------
    def path_of(self, n, env):
        """('v', name, code, type, binder) / ('s', attr, code, type, binder) for a narrowable place."""
        if isinstance(n, ast.Name) and n.id in env.vars:
            return ('v', n.id, safe(n.id), env.vars[n.id], safe(n.id))
        if (isinstance(n, ast.Attribute) and isinstance(n.value, ast.Name) and n.value.id == 'self'
                and self.cls and 'self' not in env.vars and n.attr in self.fields()):
            if n.attr in env.narrow:
                code, t = env.narrow[n.attr]
                return ('s', n.attr, code, t, code)
            if self.mode == 'init':
                return None
            return ('s', n.attr, f'self.{safe(n.attr)}', self.fields()[n.attr], f'self_{safe(n.attr)}')
        return None

    def narrow_desc(self, test, env):
        neg = False
        while isinstance(test, ast.UnaryOp) and isinstance(test.op, ast.Not):
            neg, test = not neg, test.operand
        p = self.path_of(test, env)
        if p and resolve(p[3])[0] == 'opt':
            return ('truthy', p, neg)
        if (isinstance(test, ast.Compare) and len(test.ops) == 1 and isinstance(test.ops[0], (ast.Is, ast.IsNot))
                and isinstance(test.comparators[0], ast.Constant) and test.comparators[0].value is None):
            p = self.path_of(test.left, env)
            if p and resolve(p[3])[0] == 'opt':
                return ('isnone', p, neg != isinstance(test.ops[0], ast.IsNot))
        if (isinstance(test, ast.Call) and isinstance(test.func, ast.Name) and test.func.id == 'isinstance'
                and self.is_builtin('isinstance', env) and len(test.args) == 2 and not test.keywords):
            p = self.path_of(test.args[0], env)
            if p is None:
                raise TranslateError(test, 'isinstance is only translated on a variable or a self attribute')
            c = test.args[1]
            names = [c] if not isinstance(c, ast.Tuple) else list(c.elts)
            if not all(isinstance(x, ast.Name) for x in names):
                raise TranslateError(test, 'isinstance against something other than plain class names')
            return ('isinstance', p, neg, {x.id for x in names}, test)
        return None

    def with_narrow(self, env, p, code, t):
        e = env.copy()
        if p[0] == 'v':
            e.vars[p[1]] = t
            e.fresh.discard(p[1])
        else:
            e.narrow[p[1]] = (code, t)
        return e

    def branch(self, test, env, T, F):
        """Lines of `if test: T else: F`; T and F map an environment to lines."""
        d = self.narrow_desc(test, env)
        if d is None:
            c = self.test(test, env)
            return [f'if {c} then'] + indent(T(env.copy())) + ['else'] + indent(F(env.copy()))
        kind, p, neg = d[0], d[1], d[2]
        if neg:
            T, F = F, T
        code, t, b = p[2], resolve(p[3]), p[4]
        if kind == 'truthy':
            e1 = self.with_narrow(env, p, b, t[1])
            tr = self.truthy(b, t[1], test)
            return ([f'match {code} with', f'| some {b} =>'] +
                    indent([f'if {tr} then'] + indent(T(e1.copy())) + ['else'] + indent(F(e1.copy()))) +
                    ['| none =>'] + indent(F(env.copy())))
        if kind == 'isnone':
            e1 = self.with_narrow(env, p, b, t[1])
            return ([f'match {code} with', '| none =>'] + indent(T(env.copy())) + [f'| some {b} =>'] +
                    indent(F(e1)))
        classes, node = d[3], d[4]
        if t[0] == 'union':
            ctors = UNIONS[t[1]]
            sel = [c for c in ctors if c[2] <= classes]
            covered = set().union(*[c[2] for c in sel]) if sel else set()
            if covered != classes or not sel:
                raise TranslateError(node, f'isinstance{sorted(classes)} does not select constructors of '
                                           f'{t[1]} exactly (constructors stand for '
                                           f'{[sorted(c[2]) for c in ctors]})')
            rest = [c for c in ctors if c not in sel]
            out = [f'match {code} with']
            for group, body in ((sel, T), (rest, F)):
                if not group:
                    continue
                if len(group) == 1:
                    out += [f'| .{group[0][0]} {b} =>'] + indent(body(self.with_narrow(env, p, b, group[0][1])))
                else:
                    out += ['| ' + ' | '.join(f'.{c[0]} _' for c in group) + ' =>'] + indent(body(env.copy()))
            return out
        if t[0] == 'val':
            sel = []
            for c in sorted(classes):
                if self.mod.imports.get(c) in VAL_IMPORTED_CLASSES and c not in env.vars:
                    c = VAL_IMPORTED_CLASSES[self.mod.imports[c]]
                if c not in VAL_CLASSES:
                    raise TranslateError(node, f'isinstance against {c} is not translated for a dynamic value')
                for ctor in VAL_CLASSES[c]:
                    if ctor not in sel:
                        sel.append(ctor)
            out = [f'match {code} with']
            if len(sel) == 1 and sel[0][1] is not None:
                out += [f'| .{sel[0][0]} {b} =>'] + indent(T(self.with_narrow(env, p, b, sel[0][1])))
            else:
                pats = ' | '.join('.' + c[0] + ' _' * VAL_ARITY.get(c[0], 1) for c in sel)
                out += [f'| {pats} =>'] + indent(T(env.copy()))
            return out + ['| _ =>'] + indent(F(env.copy()))
        raise TranslateError(node, f'isinstance on a value of type {show(t)}')

    def inline(self, lines):
        return '(' + ' '.join(ln.strip() for ln in lines) + ')'

    def is_builtin(self, name, env):
        return name not in env.vars and name not in self.mod.funcs and name not in self.mod.imports \
            and name not in self.mod.consts and name not in self.mod.classes

    # ---- expressions -----------------------------------------------------------------------------
    def test(self, n, env):
        """Bool-valued Lean text of a Python expression in test position."""
        if isinstance(n, ast.BoolOp):
            parts = []
            for i, v in enumerate(n.values):
                if i:
                    self.noeff += 1
                parts.append(par(self.test(v, env)))
                if i:
                    self.noeff -= 1
            return (' && ' if isinstance(n.op, ast.And) else ' || ').join(parts)
        if isinstance(n, ast.UnaryOp) and isinstance(n.op, ast.Not):
            return f'!{par(self.test(n.operand, env))}'
        if self.narrow_desc(n, env) is not None:
            return self.inline(self.branch(n, env, lambda e: ['true'], lambda e: ['false']))
        code, t = self.expr(n, env)
        return self.truthy(code, t, n)

    def exprs_joined(self, nodes, env):
        items = [self.expr(x, env) for x in nodes]
        t = TVar()
        for _, ti in items:
            t = join(t, ti, nodes[0] if nodes else None)
        return [self.coerce(c, ti, t, nodes[0]) for c, ti in items], t

    def expr(self, n, env):
        """(Lean text, type). Effects (may-raise / state change) are pushed to self.pre in order."""
        m = getattr(self, 'e_' + type(n).__name__, None)
        if m is None:
            raise TranslateError(n, f'{type(n).__name__} expressions are not in the subset')
        return m(n, env)

    def e_Constant(self, n, env):
        v = n.value
        if v is None:
            return '()', NONE
        if isinstance(v, bool):
            return ('true' if v else 'false'), BOOL
        if isinstance(v, int):
            return (str(v) if v >= 0 else f'({v})'), INTLIT(v)
        if isinstance(v, str):
            return lean_str(v), STR
        raise TranslateError(n, f'{type(v).__name__} constants are not in the subset')

    def e_Name(self, n, env):
        if n.id in env.vars:
            return safe(n.id), env.vars[n.id]
        if n.id in self.mod.consts:
            return self.expr(self.mod.consts[n.id], Env())
        raise TranslateError(n, f'name {n.id} is not a parameter, local or module-level constant')

    def e_Attribute(self, n, env):
        if isinstance(n.value, ast.Name) and n.value.id == 'self' and self.cls and 'self' not in env.vars:
            if n.attr not in self.fields():
                raise TranslateError(n, f'self.{n.attr} is not a declared attribute of {self.cls}')
            if n.attr in env.narrow:
                return env.narrow[n.attr]
            if self.mode == 'init':
                raise TranslateError(n, f'self.{n.attr} is read in __init__ before it is assigned')
            self.self_read = True
            return f'self.{safe(n.attr)}', self.fields()[n.attr]
        if n.attr in ('__module__', '__name__', '__class__'):
            code, t = self.expr(n.value, env)
            if resolve(t) == PYTYPE and n.attr != '__class__':
                return f'{par(code)}.{"module" if n.attr == "__module__" else "name"}', STR
            if resolve(t) == PYOBJ and n.attr == '__class__':
                return f'{par(code)}.type', PYTYPE
        raise TranslateError(n, 'attribute access other than self.<declared attribute>')

    def e_JoinedStr(self, n, env):
        parts = []
        for v in n.values:
            if isinstance(v, ast.Constant) and isinstance(v.value, str):
                parts.append(lean_str(v.value))
            elif isinstance(v, ast.FormattedValue) and v.conversion == -1 and v.format_spec is None:
                code, t = self.expr(v.value, env)
                if resolve(t) != STR:
                    raise TranslateError(v.value, f'f-string field of type {show(t)} (only str fields are translated)')
                parts.append(par(code))
            else:
                raise TranslateError(n, 'f-string field with a conversion or a format spec')
        return (' ++ '.join(parts) if parts else '""'), STR

    def e_UnaryOp(self, n, env):
        if isinstance(n.op, ast.Not):
            return self.test(n, env), BOOL
        if isinstance(n.op, ast.USub):
            if isinstance(n.operand, ast.Constant) and type(n.operand.value) is int:
                k = -n.operand.value
                return (str(k) if k >= 0 else f'({k})'), INTLIT(k)
            code, t = self.expr(n.operand, env)
            if resolve(t)[0] in NUMERIC:
                return f'PyRt.sub (PyRt.numOfInt 0) {par(self.as_num(code, t, n))}', NUM
        raise TranslateError(n, 'unary operator outside the subset')

    def e_BinOp(self, n, env):
        a, ta = self.expr(n.left, env)
        b, tb = self.expr(n.right, env)
        ta, tb = resolve(ta), resolve(tb)
        ka = ta[0] if not isinstance(ta, TVar) else '?'
        kb = tb[0] if not isinstance(tb, TVar) else '?'
        op = type(n.op).__name__
        if op == 'Pow':
            return self.power(a, ta, b, tb, n)
        if ka in NUMERIC and kb in NUMERIC:
            if op not in ('Add', 'Sub', 'Mult'):
                raise TranslateError(n, f'arithmetic operator {op} is not in the subset (numbers are exact dyadics)')
            if ka == 'intlit' and kb == 'intlit':
                k = {'Add': ta[1] + tb[1], 'Sub': ta[1] - tb[1], 'Mult': ta[1] * tb[1]}[op]
                return (str(k) if k >= 0 else f'({k})'), INTLIT(k)
            natish = all(k == 'nat' or (k == 'intlit' and t[1] >= 0) for k, t in ((ka, ta), (kb, tb)))
            if natish and op in ('Add', 'Mult'):
                return f'{par(self.coerce(a, ta, NAT, n))} {"+" if op == "Add" else "*"} {par(self.coerce(b, tb, NAT, n))}', NAT
            f = {'Add': 'PyRt.add', 'Sub': 'PyRt.sub', 'Mult': 'PyRt.mul'}[op]
            return f'{f} {par(self.as_num(a, ta, n))} {par(self.as_num(b, tb, n))}', NUM
        if op == 'Add' and ka == 'str' and kb == 'str':
            return f'{par(a)} ++ {par(b)}', STR
        if op == 'Add' and ka == 'list' and kb == 'list':
            t = join(ta, tb, n)
            return f'{par(self.coerce(a, ta, t, n))} ++ {par(self.coerce(b, tb, t, n))}', t
        raise TranslateError(n, f'operator {op} on {show(ta)} and {show(tb)} is not in the subset')

    def power(self, a, ta, b, tb, n):
        ta, tb = resolve(ta), resolve(tb)
        if ta[0] not in NUMERIC:
            raise TranslateError(n, f'power of a {show(ta)}')
        if not (tb[0] == 'nat' or (tb[0] == 'intlit' and tb[1] >= 0)):
            raise TranslateError(n, f'exponent of type {show(tb)}: only a non-negative int exponent is translated')
        return f'PyRt.numPow {par(self.as_num(a, ta, n))} {par(self.coerce(b, tb, NAT, n))}', NUM

    def e_BoolOp(self, n, env):
        # value position: `a and b` is `b if a else a`; all operands need one common type
        items = []
        for i, v in enumerate(n.values):
            if i:
                self.noeff += 1
            items.append(self.expr(v, env))
            if i:
                self.noeff -= 1
        t = TVar()
        for _, ti in items:
            t = join(t, ti, n)
        codes = [self.coerce(c, ti, t, n) for c, ti in items]
        acc = codes[-1]
        for c in reversed(codes[:-1]):
            tr = self.truthy(c, t, n)
            acc = f'if {tr} then {acc} else {c}' if isinstance(n.op, ast.And) else f'if {tr} then {c} else {acc}'
            acc = f'({acc})'
        return acc, t

    def e_Compare(self, n, env):
        if len(n.ops) != 1:
            raise TranslateError(n, 'chained comparison')
        op, right = n.ops[0], n.comparators[0]
        if isinstance(op, (ast.Is, ast.IsNot)):
            if not (isinstance(right, ast.Constant) and right.value is None):
                raise TranslateError(n, '`is` against something other than None')
            a, ta = self.expr(n.left, env)
            ta = resolve(ta)
            if ta[0] == 'opt':
                return f'{par(a)}.{"isNone" if isinstance(op, ast.Is) else "isSome"}', BOOL
            if ta[0] == 'val':
                return f'{par(a)} {"==" if isinstance(op, ast.Is) else "!="} Val.none', BOOL
            if ta[0] == 'none':
                return ('true' if isinstance(op, ast.Is) else 'false'), BOOL
            return ('false' if isinstance(op, ast.Is) else 'true'), BOOL
        a, ta = self.expr(n.left, env)
        if isinstance(op, (ast.In, ast.NotIn)):
            if isinstance(right, (ast.List, ast.Tuple, ast.Set)):
                items = [self.expr(x, env) for x in right.elts]
                codes = [self.coerce(c, t, ta, x) for (c, t), x in zip(items, right.elts)]
                b = '[' + ', '.join(codes) + ']'
            else:
                b, tb = self.expr(right, env)
                tb = resolve(tb)
                if tb[0] != 'list' or not unify(tb[1], ta):
                    raise TranslateError(n, f'`in` with a right-hand side of type {show(tb)}')
            if resolve(ta)[0] not in ('str', 'bool', 'nat', 'int'):
                raise TranslateError(n, f'`in` on items of type {show(ta)} (== is only translated for str/bool/int)')
            c = f'PyRt.inList {par(a)} {par(b)}'
            return (c if isinstance(op, ast.In) else f'!({c})'), BOOL
        b, tb = self.expr(right, env)
        ta, tb = resolve(ta), resolve(tb)
        name = type(op).__name__
        if ta[0] in NUMERIC and tb[0] in NUMERIC:
            f = {'Lt': 'PyRt.lt', 'LtE': 'PyRt.le', 'Gt': 'PyRt.gt', 'GtE': 'PyRt.ge', 'Eq': 'PyRt.numEq',
                 'NotEq': '!PyRt.numEq'}.get(name)
            if f is None:
                raise TranslateError(n, f'comparison {name}')
            c = f'{f.lstrip("!")} {par(self.as_num(a, ta, n))} {par(self.as_num(b, tb, n))}'
            return (f'!({c})' if f.startswith('!') else c), BOOL
        if name in ('Eq', 'NotEq') and ta == tb and ta[0] in ('str', 'bool'):
            return f'{par(a)} {"==" if name == "Eq" else "!="} {par(b)}', BOOL
        raise TranslateError(n, f'comparison {name} between {show(ta)} and {show(tb)} is not in the subset')

    def e_IfExp(self, n, env):
        self.noeff += 1
        try:
            # types first (on scratch copies), then the real thing with both sides coerced to the join
            types = []

            def probe(node):
                def f(e):
                    c, t = self.expr(node, e)
                    types.append(t)
                    return [c]
                return f
            self.branch(n.test, env, probe(n.body), probe(n.orelse))
            t = TVar()
            for ti in types:
                t = join(t, ti, n)

            def real(node):
                def f(e):
                    c, ti = self.expr(node, e)
                    return [self.coerce(c, ti, t, node)]
                return f
            return self.inline(self.branch(n.test, env, real(n.body), real(n.orelse))), t
        finally:
            self.noeff -= 1

    def e_Tuple(self, n, env):
        items = [self.expr(x, env) for x in n.elts]
        return '(' + ', '.join(c for c, _ in items) + ')', TUP(*[t for _, t in items])

    def e_List(self, n, env):
        if not n.elts:
            return '[]', LIST(TVar())
        codes, t = self.exprs_joined(n.elts, env)
        return '[' + ', '.join(codes) + ']', LIST(t)

    def e_Dict(self, n, env):
        pairs = []
        for k, v in zip(n.keys, n.values):
            if k is None:
                raise TranslateError(n, 'dict display with ** unpacking')
            kc, kt = self.expr(k, env)
            vc, vt = self.expr(v, env)
            pairs.append(f'({self.to_val(kc, kt, k)}, {self.to_val(vc, vt, v)})')
        lit = '[' + ', '.join(pairs) + ']'
        keys = [k.value for k in n.keys if isinstance(k, ast.Constant) and isinstance(k.value, str)]
        if len(keys) == len(n.keys) and len(set(keys)) == len(keys):
            return lit, DICT(VAL, VAL)          # distinct constant keys: the display is the dict
        return f'PyRt.dictOfPairs {lit}', DICT(VAL, VAL)

    # comprehensions: one `for`, optional `if`s
    def comp_source(self, gens, env, node):
        if len(gens) != 1 or gens[0].is_async:
            raise TranslateError(node, 'comprehension with more than one `for`')
        g = gens[0]
        src, ts = self.expr(g.iter, env)
        ts = resolve(ts)
        if ts[0] != 'list':
            raise TranslateError(g.iter, f'iteration over a value of type {show(ts)}')
        e = env.copy()
        pat = self.bind_target(g.target, ts[1], e)
        for cond in g.ifs:
            src = f'{par(src)}.filter (fun {pat} => {self.test(cond, e)})'
        return src, pat, e

    def bind_target(self, target, t, env):
        """Bind a loop / comprehension / assignment target to a value of type t; returns the Lean pattern."""
        t = resolve(t)
        if isinstance(target, ast.Name):
            env.vars[target.id] = t
            env.fresh.discard(target.id)
            return safe(target.id)
        if isinstance(target, ast.Tuple) and not isinstance(t, TVar) and t[0] == 'tuple' \
                and len(target.elts) == len(t[1]):
            return '(' + ', '.join(self.bind_target(x, ti, env) for x, ti in zip(target.elts, t[1])) + ')'
        raise TranslateError(target, f'cannot unpack a value of type {show(t)} into this target')

    def e_ListComp(self, n, env):
        self.noeff += 1
        try:
            src, pat, e = self.comp_source(n.generators, env, n)
            c, t = self.expr(n.elt, e)
            if c == pat:
                return src, LIST(t)
            return f'{par(src)}.map (fun {pat} => {c})', LIST(t)
        finally:
            self.noeff -= 1

    e_GeneratorExp = e_ListComp

    def e_DictComp(self, n, env):
        self.noeff += 1
        try:
            src, pat, e = self.comp_source(n.generators, env, n)
            kc, kt = self.expr(n.key, e)
            vc, vt = self.expr(n.value, e)
            pair = f'({self.to_val(kc, kt, n.key)}, {self.to_val(vc, vt, n.value)})'
            return f'PyRt.dictOfPairs ({par(src)}.map (fun {pat} => {pair}))', DICT(VAL, VAL)
        finally:
            self.noeff -= 1

    def e_Subscript(self, n, env):
        idx = n.slice
        k = None
        if isinstance(idx, ast.Constant) and type(idx.value) is int:
            k = idx.value
        elif isinstance(idx, ast.UnaryOp) and isinstance(idx.op, ast.USub) and isinstance(idx.operand, ast.Constant):
            k = -idx.operand.value
        code, t = self.expr(n.value, env)
        t = resolve(t)
        if t[0] == 'list' and k in (0, -1):
            self.effect(n, 'indexing')
            self.exc = True
            tmp = self.fresh()
            self.pre.append(f'let {tmp} ← PyRt.{"seqFirst" if k == 0 else "seqLast"} {par(code)}')
            return tmp, t[1]
        raise TranslateError(n, 'subscript other than <list>[0] / <list>[-1]')

    # ---- calls ---------------------------------------------------------------------------------
    def dotted(self, n):
        if isinstance(n, ast.Name):
            return n.id
        if isinstance(n, ast.Attribute):
            d = self.dotted(n.value)
            return None if d is None else d + '.' + n.attr
        return None

    def plain_args(self, n, lo, hi=None):
        hi = lo if hi is None else hi
        if n.keywords or not (lo <= len(n.args) <= hi) or any(isinstance(a, ast.Starred) for a in n.args):
            raise TranslateError(n, f'call shape (expected {lo}..{hi} positional arguments, no keywords)')
        return n.args

    def e_Call(self, n, env):
        f = n.func
        # builtins
        if isinstance(f, ast.Name) and self.is_builtin(f.id, env):
            return self.builtin_call(f.id, n, env)
        # imported constructors: deque
        if isinstance(f, ast.Name) and self.mod.imports.get(f.id) == 'collections.deque':
            args = self.plain_args(n, 1, 2)
            xs, t = self.expr(args[0], env)
            if resolve(t)[0] != 'list':
                raise TranslateError(n, f'deque of a {show(t)}')
            if len(args) == 1:
                return xs, t
            m, tm = self.expr(args[1], env)
            return f'PyRt.deque {par(xs)} {par(self.coerce(m, tm, NAT, n))}', t
        # module-level function of the same module
        if isinstance(f, ast.Name) and f.id in self.mod.funcs and f.id not in env.vars:
            info = self.mod.request_function(f.id, n)
            return self.user_call(info, None, n, env)
        # declared externals (random.uniform)
        d = self.dotted(f)
        if d is not None:
            head = d.split('.')[0]
            full = self.mod.imports.get(head)
            if full is not None and head not in env.vars:
                ext = self.mod.spec.get('externals', {}).get('.'.join([full] + d.split('.')[1:]))
                if ext is not None:
                    lean, ptypes, rt = ext
                    args = self.plain_args(n, len(ptypes))
                    codes = [par(self.coerce(*self.expr(a, env), pt, a)) for a, pt in zip(args, ptypes)]
                    self.use_draw(n)
                    return f'{lean} {" ".join(codes)} rnd', rt
                # opaque library functions (json.loads): the function becomes an extra PARAMETER of the translated
                # definition, applied to exactly the declared positional arguments. Any other call shape - a
                # further positional argument, ANY keyword (strict=False, cls=..., object_hook=...), */** - is
                # a different function of the text and is refused (TranslateError = broken obligation): the
                # translator never drops an argument.
                orc = self.mod.spec.get('oracles', {}).get('.'.join([full] + d.split('.')[1:]))
                if orc is not None:
                    pname, ptypes, rt = orc
                    if n.keywords:
                        raise TranslateError(n, f'{d} called with keyword argument(s) '
                                                f'{[k.arg or "**" for k in n.keywords]}: only the plain call '
                                                f'{d}({", ".join("<" + show(t) + ">" for t in ptypes)}) is translated')
                    args = self.plain_args(n, len(ptypes))
                    codes = [par(self.coerce(*self.expr(a, env), pt, a)) for a, pt in zip(args, ptypes)]
                    self.effect(n, f'call of {d}')
                    self.exc = True
                    if pname not in self.oracles:
                        self.oracles.append(pname)
                    tmp = self.fresh()
                    self.pre.append(f'let {tmp} ← {pname} {" ".join(codes)}')
                    return tmp, rt
        if isinstance(f, ast.Attribute):
            # self.m(...)
            if isinstance(f.value, ast.Name) and f.value.id == 'self' and self.cls and 'self' not in env.vars:
                if f.attr in self.fields():
                    raise TranslateError(n, 'calling an attribute of self')
                d_cls = self.mod.resolve_method(self.cls, f.attr, n)
                info = self.mod.request_method(self.cls, d_cls, f.attr, n)
                return self.user_call(info, 'self', n, env)
            # super().m(...)
            if (isinstance(f.value, ast.Call) and isinstance(f.value.func, ast.Name) and f.value.func.id == 'super'
                    and not f.value.args and self.cls):
                d_cls = self.mod.resolve_method(self.cls, f.attr, n, after=self.defcls)
                info = self.mod.request_method(self.cls, d_cls, f.attr, n)
                return self.user_call(info, 'self', n, env)
            return self.method_call(f, n, env)
        raise TranslateError(n, 'call of something that is not whitelisted')

    def use_draw(self, node):
        if self.noeff:
            raise TranslateError(node, 'external draw under conditional evaluation')
        self.draws += 1
        if self.draws > 1:
            raise TranslateError(node, 'more than one external random draw in one function')
        self.draw = True

    def user_call(self, info, self_code, n, env):
        params = info.params
        given = {}
        if any(isinstance(a, ast.Starred) for a in n.args) or any(k.arg is None for k in n.keywords):
            raise TranslateError(n, '*/** in a call')
        if len(n.args) > len(params):
            raise TranslateError(n, 'too many arguments')
        for (pname, _, _), a in zip(params, n.args):
            given[pname] = a
        for k in n.keywords:
            if k.arg in given or k.arg not in [p[0] for p in params]:
                raise TranslateError(n, f'keyword argument {k.arg}')
            given[k.arg] = k.value
        codes = []
        # Python evaluates positional arguments then keywords, left to right: translate in that order
        order = list(n.args) + [k.value for k in n.keywords]
        done = {id(a): self.expr(a, env) for a in order}
        for pname, pt, default in params:
            if pname in given:
                c, t = done[id(given[pname])]
                codes.append(par(self.coerce(c, t, pt, given[pname])))
            elif default is not None:
                codes.append(par(default))
            else:
                raise TranslateError(n, f'missing argument {pname}')
        if self_code is not None:
            if self.mode == 'init':
                self_code = self.partial_self(info, env, n)
            codes.insert(0, self_code)
        if info.draw:
            self.use_draw(n)
            codes.append('rnd')
        for o in info.oracles:
            if o not in self.oracles:
                self.oracles.append(o)
            codes.append(o)
        code = ' '.join([info.lean] + codes)
        if info.exc or info.mut:
            self.effect(n, f'call of {info.lean}')
            tmp = self.fresh()
            pat = tmp
            if info.mut:
                if self.mode != 'method' or self_code != 'self':
                    raise TranslateError(n, 'a state-changing method called outside a method of the same object')
                if self.self_read:
                    raise TranslateError(n, 'an attribute of self is read in the same statement before a '
                                            'state-changing call: evaluation order would not be preserved')
                pat = f'({tmp}, self)'
                self.mut = True
                env.narrow.clear()
            if info.exc:
                self.exc = True
            self.pre.append(f'let {pat} {"←" if info.exc else ":="} {code}')
            return tmp, info.ret
        return code, info.ret

    def partial_self(self, info, env, n):
        """In __init__: the object as built so far, for a method that only reads assigned attributes."""
        if info.mut:
            raise TranslateError(n, 'state-changing method called from __init__')
        reads = self.mod.reads_of(info.key)
        missing = sorted(a for a in reads if a not in env.narrow)
        if missing:
            raise TranslateError(n, f'{info.lean} reads self.{missing[0]} which __init__ has not assigned yet')
        tmp = 'self_' + self.fresh()
        self.pre.append(f'let {tmp} : {self.cls} := {self.struct_literal(env, n, partial=True)}')
        return tmp

    def struct_literal(self, env, node, partial=False):
        parts = []
        for a, ft in self.fields().items():
            if a in env.narrow:
                c, t = env.narrow[a]
                parts.append(f'{safe(a)} := {self.coerce(c, t, ft, node)}')
            elif partial:
                parts.append(f'{safe(a)} := default')
            else:
                raise TranslateError(node, f'__init__ can end without assigning self.{a}')
        return '{ ' + ', '.join(parts) + ' }'

    def builtin_call(self, name, n, env):
        if name in ('min', 'max'):
            a, b = self.plain_args(n, 2)
            (ca, ta), (cb, tb) = self.expr(a, env), self.expr(b, env)
            if resolve(ta)[0] not in NUMERIC or resolve(tb)[0] not in NUMERIC:
                raise TranslateError(n, f'{name} of {show(ta)} and {show(tb)} (only two numbers are translated)')
            return f'PyRt.py{name.capitalize()} {par(self.as_num(ca, ta, a))} {par(self.as_num(cb, tb, b))}', NUM
        if name == 'pow':
            a, b = self.plain_args(n, 2)
            (ca, ta), (cb, tb) = self.expr(a, env), self.expr(b, env)
            return self.power(ca, ta, cb, tb, n)
        if name == 'len':
            (a,) = self.plain_args(n, 1)
            c, t = self.expr(a, env)
            if resolve(t)[0] not in ('list', 'dict', 'str'):
                raise TranslateError(n, f'len of a {show(t)}')
            return f'{par(c)}.length', NAT
        if name == 'bool':
            (a,) = self.plain_args(n, 1)
            c, t = self.expr(a, env)
            return self.truthy(c, t, n), BOOL
        if name == 'isinstance':
            return self.test(n, env), BOOL
        if name == 'type':
            (a,) = self.plain_args(n, 1)
            c, t = self.expr(a, env)
            if resolve(t) != PYOBJ:
                raise TranslateError(n, f'type() of a {show(t)}')
            return f'{par(c)}.type', PYTYPE
        if name == 'str':
            (a,) = self.plain_args(n, 1)
            c, t = self.expr(a, env)
            if resolve(t) != STR:
                raise TranslateError(n, f'str() of a {show(t)}')
            return c, STR
        if name == 'dict':
            if len(n.args) == 1 and not n.keywords and isinstance(n.args[0], (ast.GeneratorExp, ast.ListComp)) \
                    and isinstance(n.args[0].elt, ast.Tuple) and len(n.args[0].elt.elts) == 2:
                g = n.args[0]
                fake = ast.DictComp(key=g.elt.elts[0], value=g.elt.elts[1], generators=g.generators)
                ast.copy_location(fake, n)
                return self.e_DictComp(fake, env)
            if not n.args and not n.keywords:
                return '[]', DICT(VAL, VAL)
            raise TranslateError(n, 'dict(...) other than dict() / dict((k, v) for … in …)')
        if name == 'list' and not n.args and not n.keywords:
            return '[]', LIST(TVar())
        raise TranslateError(n, f'call of {name} is not whitelisted')

    def method_call(self, f, n, env):
        """methods of str / dict / deque values."""
        m = f.attr
        # popleft on a narrowable place
        if m == 'popleft':
            self.plain_args(n, 0)
            p = self.path_of(f.value, env)
            if p is None or resolve(p[3])[0] != 'list':
                raise TranslateError(n, 'popleft on something that is not a list-valued variable or self attribute')
            self.effect(n, 'popleft')
            if p[0] == 's':
                if self.mode != 'method':
                    raise TranslateError(n, 'popleft on a self attribute outside a method')
                if not self.mod.fresh_field(self.cls, p[1]):
                    raise TranslateError(n, f'self.{p[1]} is mutated but __init__ does not build it fresh')
                if self.self_read:
                    raise TranslateError(n, 'self is read in the same statement before popleft')
            elif p[1] not in env.fresh:
                raise TranslateError(n, f'{p[1]} is mutated but may be aliased (not bound to a fresh value here)')
            self.exc = True
            tmp = self.fresh()
            b = p[4]
            self.pre.append(f'let ({tmp}, {b}) ← PyRt.popleft {par(p[2])}')
            if p[0] == 's':
                ft = self.fields()[p[1]]
                self.pre.append(f'let self := {{ self with {safe(p[1])} := {self.coerce(b, p[3], ft, n)} }}')
                self.mut = True
                env.narrow[p[1]] = (b, p[3])
            return tmp, resolve(p[3])[1]
        recv, t = self.expr(f.value, env)
        t = resolve(t)
        if t[0] == 'str':
            if m == 'lower':
                self.plain_args(n, 0)
                return f'PyRt.strLower {par(recv)}', STR
            if m in ('partition', 'rpartition'):
                (a,) = self.plain_args(n, 1)
                if not (isinstance(a, ast.Constant) and isinstance(a.value, str) and len(a.value) == 1):
                    raise TranslateError(n, f'{m} with a separator that is not a one-character constant')
                fn = 'partitionChar' if m == 'partition' else 'rpartitionChar'
                return f'PyRt.{fn} {par(recv)} {lean_char(a.value)}', TUP(STR, STR, STR)
            if m == 'join':
                (a,) = self.plain_args(n, 1)
                c, ta = self.expr(a, env)
                if not unify(resolve(ta), LIST(STR)):
                    raise TranslateError(n, f'join of a {show(ta)}')
                return f'PyRt.strJoin {par(recv)} {par(c)}', STR
            raise TranslateError(n, f'str.{m} has no PyRt primitive')
        if t[0] == 'dict' and m == 'get':
            k, dflt = self.plain_args(n, 2)
            kc, kt = self.expr(k, env)
            dc, dt = self.expr(dflt, env)
            return (f'PyRt.dictGetD {par(recv)} {par(self.coerce(kc, kt, t[1], k))} '
                    f'{par(self.coerce(dc, dt, t[2], dflt))}'), t[2]
        raise TranslateError(n, f'method {m} on a value of type {show(t)} is not whitelisted')

    # ---- statements ------------------------------------------------------------------------------
    def wrap_ret(self, code, node):
        """the text of `return code` given the function's result shape."""
        if self.info.mut:
            code = f'({code}, self)'
        if self.info.exc:
            return f'pure {par(code)}'
        return code

    def do_return(self, code, t, node):
        self.ret_types.append(t)
        want = self.info.ret
        if want is not None:
            code = self.coerce(code, t, want, node)
        return self.wrap_ret(code, node)

    def assigned_names(self, stmts):
        out = []

        def add(x):
            if x not in out:
                out.append(x)

        def targets(t):
            if isinstance(t, ast.Name):
                add(t.id)
            elif isinstance(t, ast.Tuple):
                for e in t.elts:
                    targets(e)
            elif isinstance(t, ast.Subscript) and isinstance(t.value, ast.Name):
                add(t.value.id)
        for s in stmts:
            for n in ast.walk(s):
                if isinstance(n, ast.Assign):
                    for t in n.targets:
                        targets(t)
                elif isinstance(n, (ast.AugAssign, ast.AnnAssign)):
                    targets(n.target)
                elif isinstance(n, ast.For):
                    targets(n.target)
                elif (isinstance(n, ast.Call) and isinstance(n.func, ast.Attribute)
                      and n.func.attr in ('append', 'popleft') and isinstance(n.func.value, ast.Name)):
                    add(n.func.value.id)
        return out

    def block(self, stmts, env, k):
        """Lines for the statements followed by continuation k(env)."""
        if not stmts:
            return k(env)
        s, rest = stmts[0], stmts[1:]
        m = getattr(self, 's_' + type(s).__name__, None)
        if m is None:
            raise TranslateError(s, f'{type(s).__name__} statements are not in the subset')
        return m(s, rest, env, k)

    def s_Pass(self, s, rest, env, k):
        return self.block(rest, env, k)

    def s_Expr(self, s, rest, env, k):
        v = s.value
        if self.is_super_init(v):
            return self.inline_super_init(v, rest, env, k)
        if isinstance(v, ast.Constant) and isinstance(v.value, str):
            return self.block(rest, env, k)           # docstring
        if isinstance(v, ast.Call) and isinstance(v.func, ast.Attribute):
            f = v.func
            # logger.debug("...")
            if isinstance(f.value, ast.Name) and f.value.id in self.mod.loggers and f.attr in LOG_LEVELS \
                    and f.value.id not in env.vars:
                for a in list(v.args) + [kw.value for kw in v.keywords]:
                    ok = isinstance(a, ast.Constant) or isinstance(a, ast.Name) or (
                        isinstance(a, ast.JoinedStr) and all(
                            isinstance(p, ast.Constant) or (isinstance(p, ast.FormattedValue) and
                                                            isinstance(p.value, ast.Name)) for p in a.values))
                    if not ok:
                        raise TranslateError(s, 'logging call whose arguments are not constants / plain names')
                return self.block(rest, env, k)
            # xs.append(e) on a fresh local
            if f.attr == 'append' and isinstance(f.value, ast.Name) and f.value.id in env.vars:
                name = f.value.id
                (a,) = self.plain_args(v, 1)
                t = resolve(env.vars[name])
                if t[0] != 'list':
                    raise TranslateError(s, f'append on a {show(t)}')
                if name not in env.fresh:
                    raise TranslateError(s, f'{name} is mutated but may be aliased (not bound to a fresh literal here)')
                c, ta = self.expr(a, env)
                if isinstance(resolve(t[1]), TVar):
                    unify(t[1], ta if resolve(ta)[0] != 'intlit' else INT)
                line = f'let {safe(name)} := {safe(name)} ++ [{self.coerce(c, ta, t[1], a)}]'
                return self.take_pre() + [line] + self.block(rest, env, k)
            if f.attr == 'popleft':
                self.expr(v, env)
                return self.take_pre() + self.block(rest, env, k)
        raise TranslateError(s, 'expression statement other than a docstring, a logging call, append or popleft')

    def s_AnnAssign(self, s, rest, env, k):
        if s.value is None:
            return self.block(rest, env, k)
        fake = ast.Assign(targets=[s.target], value=s.value)
        ast.copy_location(fake, s)
        return self.s_Assign(fake, rest, env, k)

    def s_AugAssign(self, s, rest, env, k):
        if not isinstance(s.target, ast.Name):
            raise TranslateError(s, 'augmented assignment to something other than a local')
        load = ast.Name(id=s.target.id, ctx=ast.Load())
        ast.copy_location(load, s)
        val = ast.BinOp(left=load, op=s.op, right=s.value)
        ast.copy_location(val, s)
        fake = ast.Assign(targets=[s.target], value=val)
        ast.copy_location(fake, s)
        return self.s_Assign(fake, rest, env, k)

    def is_fresh_value(self, v):
        return isinstance(v, (ast.List, ast.Dict, ast.ListComp, ast.DictComp)) or (
            isinstance(v, ast.Call) and isinstance(v.func, ast.Name) and v.func.id in ('dict', 'list', 'deque'))

    def s_Assign(self, s, rest, env, k):
        if len(s.targets) != 1:
            raise TranslateError(s, 'chained assignment')
        tgt = s.targets[0]
        # d[k] = v on a fresh local dict
        if isinstance(tgt, ast.Subscript):
            if not (isinstance(tgt.value, ast.Name) and tgt.value.id in env.vars):
                raise TranslateError(s, 'item assignment on something other than a local')
            name = tgt.value.id
            t = resolve(env.vars[name])
            if t[0] != 'dict':
                raise TranslateError(s, f'item assignment on a {show(t)}')
            if name not in env.fresh:
                raise TranslateError(s, f'{name} is mutated but may be aliased (not bound to a fresh literal here)')
            kc, kt = self.expr(tgt.slice, env)
            vc, vt = self.expr(s.value, env)
            line = (f'let {safe(name)} := PyRt.dictSet {safe(name)} {par(self.coerce(kc, kt, t[1], tgt))} '
                    f'{par(self.coerce(vc, vt, t[2], s.value))}')
            return self.take_pre() + [line] + self.block(rest, env, k)
        code, t = self.expr(s.value, env)
        pre = self.take_pre()
        # self.a = e
        if isinstance(tgt, ast.Attribute) and isinstance(tgt.value, ast.Name) and tgt.value.id == 'self' and self.cls:
            a = tgt.attr
            if a not in self.fields():
                raise TranslateError(s, f'self.{a} is not a declared attribute of {self.cls}')
            ft = self.fields()[a]
            self.coerce(code, t, ft, s)         # must fit the declared attribute type
            if isinstance(s.value, ast.Name) and resolve(t)[0] in ('list', 'dict') and s.value.id in env.fresh:
                env.fresh.discard(s.value.id)
            t = resolve(t)
            if t[0] == 'intlit':
                code, t = self.coerce(code, t, ft, s), resolve(ft)
            if t[0] == 'none':
                code, t = 'none', resolve(ft)
            local = f'self_{safe(a)}'
            lines = pre + [f'let {local}{self.ascribe(t)} := {code}']
            env.narrow[a] = (local, t)
            if self.mode == 'init':
                if a not in env.assigned:
                    env.assigned.append(a)
            elif self.mode == 'method':
                lines.append(f'let self := {{ self with {safe(a)} := {self.coerce(local, t, ft, s)} }}')
                self.mut = True
            else:
                raise TranslateError(s, 'assignment to self outside a method')
            return lines + self.block(rest, env, k)
        t = resolve(t)
        if isinstance(tgt, ast.Name):
            if isinstance(s.value, ast.Name) and not isinstance(t, TVar) and t[0] in ('list', 'dict'):
                raise TranslateError(s, f'{tgt.id} = {s.value.id} aliases a mutable value')
            if not isinstance(t, TVar) and t[0] == 'intlit':
                code, t = f'({t[1]} : Int)', INT
            if not isinstance(t, TVar) and t[0] == 'none':
                raise TranslateError(s, 'a local bound to None (give it a value of a definite type)')
            env.vars[tgt.id] = t
            if self.is_fresh_value(s.value):
                env.fresh.add(tgt.id)
            else:
                env.fresh.discard(tgt.id)
            return pre + [f'let {safe(tgt.id)}{self.ascribe(t)} := {code}'] + self.block(rest, env, k)
        if isinstance(tgt, ast.Tuple):
            pat = self.bind_target(tgt, t, env)
            return pre + [f'let {pat} := {code}'] + self.block(rest, env, k)
        raise TranslateError(s, 'assignment target outside the subset')

    def ascribe(self, t):
        t = resolve(t)
        if isinstance(t, TVar) or t[0] in ('list', 'dict', 'opt'):
            return f' : {lty(t)}'
        return ''

    def s_Return(self, s, rest, env, k):
        if self.mode == 'init':
            raise TranslateError(s, 'return inside __init__')
        if self.in_loop:
            raise TranslateError(s, 'return inside a for loop')
        if s.value is None:
            code, t = '()', NONE
        else:
            code, t = self.expr(s.value, env)
        return self.take_pre() + [self.do_return(code, t, s)]

    def s_Raise(self, s, rest, env, k):
        if self.in_loop:
            raise TranslateError(s, 'raise inside a for loop')
        e = s.exc
        if e is None or s.cause is not None:
            raise TranslateError(s, 'bare raise / raise … from …')
        args = []
        if isinstance(e, ast.Call):
            if e.keywords or len(e.args) > 1:
                raise TranslateError(s, 'exception constructed with more than a message')
            args, e = e.args, e.func
        name = self.dotted(e)
        if name is None:
            raise TranslateError(s, 'raise of something that is not a class name')
        head = name.split('.')[0]
        if name in BUILTIN_EXCEPTIONS and self.is_builtin(name, env):
            canon = name
        elif head in self.mod.imports:
            canon = '.'.join([self.mod.imports[head]] + name.split('.')[1:])
        elif name in self.mod.classes:
            canon = self.mod.dotted_module + '.' + name
        else:
            raise TranslateError(s, f'cannot tell the canonical name of exception {name}')
        msg = '""'
        if args:
            c, t = self.expr(args[0], env)
            if resolve(t) != STR:
                raise TranslateError(s, 'exception message that is not a str')
            msg = c
        self.exc = True
        if not self.info.exc:
            return self.take_pre() + ['default']      # first pass: shape not known yet
        return self.take_pre() + [f'throw ⟨{lean_str(canon)}, {msg}⟩']

    def s_If(self, s, rest, env, k):
        def T(e):
            return self.block(s.body + rest, e, k)

        def F(e):
            return self.block(s.orelse + rest, e, k)
        if self.narrow_desc(s.test, env) is None:
            c = self.test(s.test, env)
            pre = self.take_pre()      # effects of the test itself come first
            return pre + [f'if {c} then'] + indent(T(env.copy())) + ['else'] + indent(F(env.copy()))
        return self.branch(s.test, env, T, F)

    in_loop = 0

    def s_For(self, s, rest, env, k):
        if s.orelse:
            raise TranslateError(s, 'for … else')
        for n in ast.walk(s):
            if isinstance(n, (ast.Break, ast.Continue, ast.Return, ast.Raise, ast.While)):
                raise TranslateError(n, f'{type(n).__name__} inside a for loop')
        src, ts = self.expr(s.iter, env)
        pre = self.take_pre()
        ts = resolve(ts)
        if ts[0] != 'list':
            raise TranslateError(s.iter, f'for loop over a value of type {show(ts)}')
        state = [x for x in self.assigned_names(s.body) if x in env.vars]
        for n in ast.walk(s):
            if isinstance(n, ast.Attribute) and isinstance(n.ctx, ast.Store) and isinstance(n.value, ast.Name) \
                    and n.value.id == 'self':
                raise TranslateError(n, 'assignment to self inside a for loop')
        if not state:
            raise TranslateError(s, 'for loop that rebinds no variable defined before it')
        before = {x: env.vars[x] for x in state}
        body_env = env.copy()
        pat = self.bind_target(s.target, ts[1], body_env)
        tup = '(' + ', '.join(safe(x) for x in state) + ')' if len(state) > 1 else safe(state[0])

        def kk(e):
            for x in state:
                if not unify(e.vars[x], before[x]):
                    raise TranslateError(s, f'{x} changes type inside the loop')
            return [tup]
        self.noeff += 1
        self.in_loop += 1
        try:
            body = self.block(s.body, body_env, kk)
        finally:
            self.noeff -= 1
            self.in_loop -= 1
        lines = pre + [f'let {tup} := List.foldl (fun {tup} {pat} =>'] + indent(body, 4) + [f'  ) {tup} {par(src)}']
        return lines + self.block(rest, env, k)

    # ---- super().__init__ inlining, function bodies ---------------------------------------------
    def is_super_init(self, v):
        return (isinstance(v, ast.Call) and isinstance(v.func, ast.Attribute) and v.func.attr == '__init__'
                and isinstance(v.func.value, ast.Call) and isinstance(v.func.value.func, ast.Name)
                and v.func.value.func.id == 'super' and not v.func.value.args)

    def inline_super_init(self, call, rest, env, k):
        if self.mode != 'init':
            raise TranslateError(call, 'super().__init__ outside __init__')
        parent = self.mod.resolve_method(self.cls, '__init__', call, after=self.defcls)
        pnode = self.mod.classes[parent]['methods']['__init__']
        pparams = self.mod.param_list(pnode)[1:]
        given = {}
        if len(call.args) > len(pparams) or any(isinstance(a, ast.Starred) for a in call.args):
            raise TranslateError(call, 'arguments of super().__init__')
        for (pname, _), a in zip(pparams, call.args):
            given[pname] = a
        for kw in call.keywords:
            if kw.arg is None or kw.arg in given or kw.arg not in [p for p, _ in pparams]:
                raise TranslateError(call, 'keyword arguments of super().__init__')
            given[kw.arg] = kw.value
        lines = []
        pnames = [p for p, _ in pparams]
        for x in self.assigned_names(pnode.body):
            if x in env.vars and x not in pnames:
                raise TranslateError(call, f'local {x} of the inlined {parent}.__init__ clashes with a local here')
        for pname, default in pparams:
            a = given.get(pname, default)
            if a is None:
                raise TranslateError(call, f'super().__init__ misses argument {pname}')
            if isinstance(a, ast.Name) and a.id == pname and pname in env.vars:
                continue
            if pname in env.vars:
                raise TranslateError(call, f'parameter {pname} of the inlined {parent}.__init__ clashes with a local here')
            fake = ast.Assign(targets=[ast.Name(id=pname, ctx=ast.Store())], value=a)
            ast.copy_location(fake, call)
            ast.fix_missing_locations(fake)
            code, t = self.expr(a, env)
            t = resolve(t)
            if t[0] == 'intlit':
                code, t = f'({t[1]} : Int)', INT
            if t[0] == 'none':
                raise TranslateError(call, f'None passed for {pname} of the inlined {parent}.__init__ '
                                           '(no definite type)')
            lines += self.take_pre() + [f'let {safe(pname)}{self.ascribe(t)} := {code}']
            env.vars[pname] = t
        old = self.defcls

        def kk(e):
            saved, self.defcls = self.defcls, old
            try:
                return self.block(rest, e, k)
            finally:
                self.defcls = saved
        self.defcls = parent
        try:
            return lines + [f'-- {parent}.__init__ (inlined)'] + self.block(pnode.body, env, kk)
        finally:
            self.defcls = old

    def compile(self):
        env = Env()
        for pname, pt, _ in self.info.params:
            env.vars[pname] = pt
        if self.mode == 'init':
            def k_end(e):
                code = self.struct_literal(e, self.node)
                return [f'pure {code}' if self.info.exc else code]
        else:
            def k_end(e):
                return [self.do_return('()', NONE, self.node)]
        return self.block(list(self.node.body), env, k_end)



# ---------------------------------------------------------------------------------------------
# one module
# ---------------------------------------------------------------------------------------------

class ModuleTranslator:
    def __init__(self, spec, root=None):
        self.spec = spec
        self.path = (Path(root) if root else repo()) / spec['file']
        self.tree = ast.parse(self.path.read_text())
        self.dotted_module = spec['file'][:-3].replace('/', '.')
        self.imports, self.consts, self.funcs, self.classes, self.tables = {}, {}, {}, {}, {}
        self.loggers = set()
        for n in self.tree.body:
            if isinstance(n, ast.Import):
                for a in n.names:
                    self.imports[(a.asname or a.name).split('.')[0]] = a.name if a.asname else a.name.split('.')[0]
            elif isinstance(n, ast.ImportFrom):
                for a in n.names:
                    self.imports[a.asname or a.name] = f'{n.module}.{a.name}'
            elif isinstance(n, ast.FunctionDef):
                self.funcs[n.name] = n
            elif isinstance(n, ast.ClassDef):
                methods = {m.name: m for m in n.body if isinstance(m, ast.FunctionDef)}
                bases = [b.id for b in n.bases if isinstance(b, ast.Name)]
                self.classes[n.name] = {'node': n, 'methods': methods, 'bases': bases,
                                        'nbases': len(n.bases)}
            elif isinstance(n, (ast.Assign, ast.AnnAssign)):
                tgts = n.targets if isinstance(n, ast.Assign) else [n.target]
                if len(tgts) == 1 and isinstance(tgts[0], ast.Name) and n.value is not None:
                    name, v = tgts[0].id, n.value
                    if isinstance(v, ast.Constant):
                        self.consts[name] = v
                    elif isinstance(v, ast.Call) and ast.unparse(v.func) == 'logging.getLogger':
                        self.loggers.add(name)
                    elif isinstance(v, ast.Dict) and v.keys and all(
                            isinstance(k, ast.Constant) and isinstance(k.value, str) for k in v.keys) and all(
                            isinstance(x, ast.Name) for x in v.values):
                        self.tables[name] = [(k.value, x.id) for k, x in zip(v.keys, v.values)]
        self.infos = {}
        self.order = []
        self.active = []
        self.structs = []

    # ---- class helpers -------------------------------------------------------------------------
    def mro(self, c, node=None):
        chain = []
        while c in self.classes:
            if c in chain:
                raise TranslateError(node, 'cyclic inheritance')
            chain.append(c)
            info = self.classes[c]
            inmod = [b for b in info['bases'] if b in self.classes]
            if len(inmod) > 1:
                raise TranslateError(info['node'], 'multiple inheritance inside the module')
            if not inmod:
                break
            c = inmod[0]
        return chain

    def is_abstract(self, m):
        return any(ast.unparse(d) in ('abc.abstractmethod', 'abstractmethod') for d in m.decorator_list)

    def resolve_method(self, c, m, node, after=None):
        chain = self.mro(c, node)
        if after is not None:
            chain = chain[chain.index(after) + 1:]
        for d in chain:
            mm = self.classes[d]['methods'].get(m)
            if mm is not None:
                if self.is_abstract(mm):
                    raise TranslateError(node, f'{c}.{m} resolves to the abstract method of {d}')
                if mm.decorator_list:
                    raise TranslateError(mm, 'decorated method')
                return d
        raise TranslateError(node, f'method {m} not found for {c}' + (f' above {after}' if after else ''))

    def param_list(self, fn):
        a = fn.args
        if a.vararg or a.kwarg or a.kwonlyargs or a.posonlyargs:
            raise TranslateError(fn, 'parameters other than plain positional-or-keyword ones')
        names = [x.arg for x in a.args]
        defaults = [None] * (len(names) - len(a.defaults)) + list(a.defaults)
        return list(zip(names, defaults))

    def reads_of(self, key, seen=None):
        """attributes of self a method reads, transitively through self.m()/super().m()."""
        seen = seen if seen is not None else set()
        if key in seen:
            return set()
        seen.add(key)
        _, c, d, m = key
        node = self.classes[d]['methods'][m]
        out = set()
        fields = self.spec['classes'][c]['fields']
        for n in ast.walk(node):
            if isinstance(n, ast.Attribute) and isinstance(n.value, ast.Name) and n.value.id == 'self':
                if n.attr in fields:
                    out.add(n.attr)
                else:
                    try:
                        d2 = self.resolve_method(c, n.attr, n)
                    except TranslateError:
                        continue
                    out |= self.reads_of(('m', c, d2, n.attr), seen)
            if (isinstance(n, ast.Attribute) and isinstance(n.value, ast.Call) and isinstance(n.value.func, ast.Name)
                    and n.value.func.id == 'super'):
                d2 = self.resolve_method(c, n.attr, n, after=d)
                out |= self.reads_of(('m', c, d2, n.attr), seen)
        return out

    def fresh_field(self, c, attr):
        """every `self.attr = v` in the __init__ chain of c builds a fresh object (or None)."""
        found = False
        for d in self.mro(c):
            init = self.classes[d]['methods'].get('__init__')
            if init is None:
                continue
            for n in ast.walk(init):
                if isinstance(n, ast.Assign):
                    for t in n.targets:
                        if isinstance(t, ast.Attribute) and isinstance(t.value, ast.Name) and t.value.id == 'self' \
                                and t.attr == attr:
                            v = n.value
                            ok = (isinstance(v, ast.Constant) and v.value is None) or \
                                isinstance(v, (ast.List, ast.ListComp)) or (
                                    isinstance(v, ast.Call) and isinstance(v.func, ast.Name) and
                                    v.func.id in ('deque', 'list'))
                            if not ok:
                                return False
                            found = True
        return found

    # ---- requests -------------------------------------------------------------------------------
    def typed_params(self, fn, declared, skip_self, node, what):
        out = []
        plist = self.param_list(fn)
        if skip_self:
            if not plist or plist[0][0] != 'self':
                raise TranslateError(fn, 'method whose first parameter is not self')
            plist = plist[1:]
        for name, default in plist:
            if name not in declared:
                raise TranslateError(fn, f'no declared type for parameter {name} of {what} (TARGETS table)')
            t = declared[name]
            dcode = None
            if default is not None:
                if not isinstance(default, ast.Constant):
                    raise TranslateError(default, 'default value that is not a constant')
                scratch = FnCtx(self, FnInfo(None, '', [], None, 'function'), fn)
                c, td = scratch.expr(default, Env())
                dcode = scratch.coerce(c, td, t, default)
            out.append((name, t, dcode))
        return out

    def run(self, info, node, cls, defcls):
        if info.key in self.active:
            raise TranslateError(node, f'recursion through {info.lean}')
        self.active.append(info.key)
        try:
            declared_ret = self.spec.get('returns', {}).get(info.key[-1] if info.kind != 'init' else None)
            for _ in range(6):
                before = info.flags()
                info.ret = declared_ret if declared_ret is not None else info.ret
                ctx = FnCtx(self, info, node, cls, defcls)
                lines = ctx.compile()
                info.exc, info.mut, info.draw = ctx.exc or info.exc, ctx.mut or info.mut, ctx.draw or info.draw
                info.oracles = info.oracles + [o for o in ctx.oracles if o not in info.oracles]
                if info.kind == 'init':
                    info.ret = STRUCT(cls)
                elif declared_ret is None:
                    t = TVar()
                    for ti in ctx.ret_types:
                        t = join(t, ti, node)
                    t = resolve(t)
                    if isinstance(t, TVar):
                        raise TranslateError(node, 'function without a return')
                    info.ret = INT if t[0] == 'intlit' else t
                info.lines = lines
                if info.flags() == before:
                    break
            else:
                raise TranslateError(node, 'no stable result shape')
        finally:
            self.active.pop()
        self.infos[info.key] = info
        self.order.append(info.key)
        return info

    def request_function(self, name, node=None):
        key = ('fn', name)
        if key in self.infos:
            return self.infos[key]
        if name not in self.funcs:
            raise TranslateError(node, f'function {name} not found in {self.spec["file"]}')
        fn = self.funcs[name]
        if fn.decorator_list:
            raise TranslateError(fn, 'decorated function')
        declared = self.spec.get('functions', {}).get(name)
        if declared is None:
            raise TranslateError(fn, f'{name} is called but has no declared parameter types (TARGETS table)')
        info = FnInfo(key, safe(name), self.typed_params(fn, declared, False, node, name), None, 'function')
        info.src = f'{self.spec["file"]}:{fn.lineno} {name}'
        return self.run(info, fn, None, None)

    def request_method(self, c, d, m, node=None):
        key = ('m', c, d, m)
        if key in self.infos:
            return self.infos[key]
        fn = self.classes[d]['methods'][m]
        declared = self.spec.get('methods', {}).get(m)
        if declared is None:
            raise TranslateError(fn, f'method {m} has no declared parameter types (TARGETS table)')
        resolved = self.resolve_method(c, m, node)
        lean = f'{c}.{safe(m)}' if resolved == d else f'{c}.{d}_{safe(m)}'
        info = FnInfo(key, lean, self.typed_params(fn, declared, True, node, f'{d}.{m}'), c, 'method')
        info.src = f'{self.spec["file"]}:{fn.lineno} {d}.{m}' + ('' if d == c else f' (on a {c})')
        return self.run(info, fn, c, d)

    def request_init(self, c):
        key = ('init', c)
        if key in self.infos:
            return self.infos[key]
        d = self.resolve_method(c, '__init__', self.classes[c]['node'])
        fn = self.classes[d]['methods']['__init__']
        declared = self.spec['classes'][c]['init']
        info = FnInfo(key, f'{c}.init', self.typed_params(fn, declared, True, fn, f'{d}.__init__'), c, 'init')
        info.src = f'{self.spec["file"]}:{fn.lineno} {d}.__init__' + ('' if d == c else f' (on a {c})')
        return self.run(info, fn, c, d)

    # ---- output -----------------------------------------------------------------------------------
    def render_fn(self, info):
        ps = []
        if info.self_struct and info.kind == 'method':
            ps.append(f'(self : {info.self_struct})')
        for name, t, default in info.params:
            ps.append(f'({safe(name)} : {lty(t)}' + (f' := {default}' if default is not None else '') + ')')
        if info.draw:
            ps.append('(rnd : Num)')
        otypes = {v[0]: v for v in self.spec.get('oracles', {}).values()}
        for o in info.oracles:
            _, pts, rt = otypes[o]
            ps.append(f'({o} : {" → ".join(lty(t) for t in pts)} → Except Exc {lty(rt)})')
        head = f'def {info.lean} ' + ' '.join(ps) + f' : {info.result_lty()} :=' + (' do' if info.exc else '')
        flags = [x for x, on in (('may raise', info.exc), ('returns the updated object', info.mut),
                                 ('rnd = the random.random() value of its one draw', info.draw)) if on]
        doc = f'/-- `{info.src}`' + (' — ' + '; '.join(flags) if flags else '') + ' -/'
        return [doc, head] + indent(info.lines) + ['']

    def render(self):
        spec = self.spec
        out = [f'/- GENERATED by harness/translate.py from {spec["file"]} of the tree under test — do not edit.',
               '   Parameter and attribute types are the declared domain (TARGETS table of the translator);',
               '   the primitives are those of PypyrModel/PyRt.lean. -/',
               'import PypyrModel.PyRt', '',
               'set_option linter.unusedVariables false', '',
               f'namespace Pypyr.Translated.{spec["namespace"]}', 'open Pypyr', '']
        for c in spec.get('classes', {}):
            if c not in self.classes:
                raise TranslateError(None, f'class {c} not found in {spec["file"]}')
            chain = self.mro(c)
            out.append(f'/-- `class {c}` (bases in this module: {", ".join(chain[1:]) or "none"}): its attributes. -/')
            out.append(f'structure {c} where')
            for a, t in spec['classes'][c]['fields'].items():
                out.append(f'  {safe(a)} : {lty(t)}')
            out += ['']
        for c in spec.get('classes', {}):
            self.request_init(c)
            for m in spec['classes'][c].get('entry', []):
                self.request_method(c, self.resolve_method(c, m, self.classes[c]['node']), m)
        for f in spec.get('entry_functions', []):
            self.request_function(f)
        for key in self.order:
            out += self.render_fn(self.infos[key])
        for tname in spec.get('tables', []):
            if tname not in self.tables:
                raise TranslateError(None, f'module-level table {tname} (a dict display str -> class name) not found')
            rows = ', '.join(f'({lean_str(k)}, {lean_str(v)})' for k, v in self.tables[tname])
            out += [f'/-- module-level `{tname}`: name ↦ class. -/',
                    f'def {safe(tname)} : List (String × String) := [{rows}]', '']
        out += [f'end Pypyr.Translated.{spec["namespace"]}', '']
        text = '\n'.join(out)

        def fill(m):
            t = resolve(TVar.registry[int(m.group(1))])
            if isinstance(t, TVar):
                raise TranslateError(None, 'element type of an empty list is never determined')
            return lty(t)
        prev = None
        while prev != text:
            prev, text = text, re.sub('\x00(\\d+)\x00', fill, text)
        return text



# ---------------------------------------------------------------------------------------------
# targets: what is translated, and on which declared domain
# ---------------------------------------------------------------------------------------------

_BACKOFF_FIELDS = {'sleep': NUM, 'max_sleep': OPT(NUM), 'jrc': NUM, 'kwargs': OPT(DICT(STR, NUM))}
_BACKOFF_INIT = dict(_BACKOFF_FIELDS)
_FIXED_FIELDS = {'sleep': UNION('NumOrSeq'), 'max_sleep': OPT(NUM), 'jrc': NUM, 'kwargs': OPT(DICT(STR, NUM)),
                 'queue': OPT(LIST(NUM)), 'fixed_sleep': NUM}
_FIXED_INIT = {k: v for k, v in _FIXED_FIELDS.items() if k not in ('queue', 'fixed_sleep')}
_EXP_FIELDS = dict(_BACKOFF_FIELDS, base=NUM)

TARGETS = {
    # A. pypyr/retries.py: sleeps/jrc/max_sleep/base are numbers (exact), the retry counter n is a
    #    non-negative int, kwargs is None or a dict str -> number; `fixed`/`jitter` also take a list/set.
    'retries': {
        'file': 'pypyr/retries.py', 'namespace': 'Retries', 'out': 'TranslatedRetries.lean',
        'externals': {'random.uniform': ('PyRt.randomUniform', [NUM, NUM], NUM)},
        'methods': {'min': {'sleep': NUM}, 'randomize': {'sleep': NUM}, '__call__': {'n': NAT}},
        'classes': {
            'fixed': {'fields': _FIXED_FIELDS, 'init': _FIXED_INIT, 'entry': ['min', '__call__']},
            'jitter': {'fields': _FIXED_FIELDS, 'init': _FIXED_INIT, 'entry': ['min', 'randomize', '__call__']},
            'linear': {'fields': _BACKOFF_FIELDS, 'init': _BACKOFF_INIT, 'entry': ['min', '__call__']},
            'linearjitter': {'fields': _BACKOFF_FIELDS, 'init': _BACKOFF_INIT,
                             'entry': ['min', 'randomize', '__call__']},
            'exponential': {'fields': _EXP_FIELDS, 'init': _BACKOFF_INIT, 'entry': ['min', '__call__']},
            'exponentialjitter': {'fields': _EXP_FIELDS, 'init': _BACKOFF_INIT,
                                  'entry': ['min', 'randomize', '__call__']},
        },
        'tables': ['builtin_backoffs'],
    },
    # B. pypyr/utils/types.py: any value / any str.
    'types': {
        'file': 'pypyr/utils/types.py', 'namespace': 'Types', 'out': 'TranslatedTypes.lean',
        'functions': {'cast_to_bool': {'obj': VAL}, 'cast_str_to_bool': {'input_string': STR}},
        'entry_functions': ['cast_str_to_bool', 'cast_to_bool'],
    },
    # D. pypyr/errors.py: an object of which only type(error).__module__/__name__ are looked at.
    'errors': {
        'file': 'pypyr/errors.py', 'namespace': 'Errors', 'out': 'TranslatedErrors.lean',
        'functions': {'get_error_name': {'error': PYOBJ}},
        'entry_functions': ['get_error_name'],
    },
}
# C. the built-in context parsers: args is None or a list of str; the result is a dynamic value.
for _p in ('keyvaluepairs', 'list', 'string', 'keys', 'dict', 'argskwargs'):
    TARGETS['parser_' + _p] = {
        'file': f'pypyr/parser/{_p}.py', 'namespace': 'Parser' + _p.capitalize(),
        'out': f'TranslatedParser{_p.capitalize()}.lean',
        'functions': {'get_parsed_context': {'args': OPT(LIST(STR))}},
        'returns': {'get_parsed_context': VAL},
        'entry_functions': ['get_parsed_context'],
    }

# the json parser: `json.loads` is an opaque function of the text (parameter `loads`, may raise); called with
# anything but the one positional argument the translation fails.
TARGETS['parser_json'] = {
    'file': 'pypyr/parser/json.py', 'namespace': 'ParserJson', 'out': 'TranslatedParserJson.lean',
    'functions': {'get_parsed_context': {'args': OPT(LIST(STR))}},
    'returns': {'get_parsed_context': VAL},
    'oracles': {'json.loads': ('loads', [STR], VAL)},
    'entry_functions': ['get_parsed_context'],
}

FAMILIES = {
    'C06': ['retries'],
    'C04': ['types'],
    'C07': ['errors'],
    'C18': ['parser_keyvaluepairs', 'parser_list', 'parser_string', 'parser_keys', 'parser_dict',
            'parser_argskwargs', 'parser_json'],
}


def write_if_changed(path, text):
    path.parent.mkdir(exist_ok=True)
    if not path.exists() or path.read_text() != text:
        path.write_text(text)


def translate(target, root=None):
    """Lean text of one target (raises TranslateError outside the subset)."""
    spec = TARGETS[target]
    mt = ModuleTranslator(spec, root)
    return mt.render(), mt


def generate(targets, root=None, out_dir=None):
    """Translate the named targets (or families 'C06' …) and write lean/Generated/Translated*.lean."""
    names = []
    for t in targets:
        names += FAMILIES.get(t, [t])
    errors = []
    for name in names:
        try:
            text, _ = translate(name, root)
        except TranslateError as e:
            errors.append(f'{TARGETS[name]["file"]}: {e}')
            continue
        write_if_changed(Path(out_dir or GEN) / TARGETS[name]['out'], text)
    if errors:
        raise TranslateError(None, ' | '.join(errors))


if __name__ == '__main__':
    import sys
    for nm in (sys.argv[1:] or list(TARGETS)):
        for one in FAMILIES.get(nm, [nm]):
            try:
                print(translate(one)[0])
            except TranslateError as e:
                print(f'-- {one}: {e}')
