"""C14 helpers: the PyNs program language on the Python side.

* AST constructors + renderer (wire JSON of lean/Driver/OpPyNs.lean  ->  Python source)
* generator of sessions (context, pyimport, `!py` expressions, `pypyr.steps.py` blocks, context updates /
  deletions / contextclearall, rehydration of the Context object by pickle / deepcopy / copy)
* the implementation runner: builds a real `Context` whose values are marker objects, runs every op
  through the real `PyString.get_value` / `pypyr.steps.py.run_step` / `pypyr.steps.pyimport.run_step`
  and dumps results / context / import namespace by *identity* (provenance of every read)
* monitors judged on the implementation alone (written from the property text)

Nothing here imports pypyr at module import time.
"""
from __future__ import annotations

import builtins
import copy
import importlib
import pickle
import signal
import sys
import types

# --------------------------------------------------------------------------
# AST constructors (wire form)
# --------------------------------------------------------------------------


def N(x): return {'n': x}
def C(n): return {'c': n}
def W(x, e): return {'w': [x, e]}
def T(*es): return {'t': list(es)}
def Lam(ps, body): return {'lam': [list(ps), body]}
def Call(f, *args): return {'call': [f, list(args)]}
def App(t, e): return {'app': [t, e]}
def Comp(elt, clauses, gen=False): return {'comp': {'gen': gen, 'elt': elt, 'cl': [[t, it, list(cs)] for t, it, cs in clauses]}}
def GenE(elt, clauses): return {'gen': {'elt': elt, 'cl': [[t, it, list(cs)] for t, it, cs in clauses]}}
def Drain(e): return {'drain': e}
def SetI(t, i, e): return {'si': [t, i, e]}          # t.__setitem__(i, e)   (expression)
def SetS(t, i, e): return {'sis': [t, i, e]}         # t[i] = e              (statement)


NS_METHODS = ['pop1', 'pop2', 'popitem', 'clear', 'setdefault', 'update', 'setitem', 'delitem', 'ior']
NS_WITH_ARG = {'pop2', 'setdefault', 'update', 'setitem', 'ior'}


NS_PYNAME = {'pop1': 'pop', 'pop2': 'pop', 'popitem': 'popitem', 'clear': 'clear', 'setdefault': 'setdefault',
             'update': 'update', 'setitem': '__setitem__', 'delitem': '__delitem__', 'ior': '__ior__'}


def Ns(meth, key='a', e=None, via='g'):
    """`globals().meth('key', e)`; via='l': rendered on `locals()` (only where that is the same object: the
    top level of the code, outside comprehensions / lambdas / class bodies — the caller's business)."""
    assert meth in NS_METHODS
    return {'ns': [meth, key, e if (e is not None and meth in NS_WITH_ARG) else C(0)], 'via': via}


def As(x, e): return {'as': [x, e]}
def Aug(x, e): return {'aug': [x, e]}
def Del(x): return {'del': x}
def Ex(e): return {'ex': e}
def Def(f, ps, body, ret, gl=()): return {'def': {'f': f, 'ps': list(ps), 'gl': list(gl), 'body': [[x, e] for x, e in body], 'ret': ret}}
def Cls(c, body): return {'cls': [c, [[x, e] for x, e in body]]}
def Save(names, kws=()): return {'save': [list(names), [[k, e] for k, e in kws]]}


def Imp(spec):
    """spec = ('import', mod, alias|None) | ('from', mod, attr, alias|None)."""
    if spec[0] == 'import':
        _, mod, alias = spec
        return {'imp': [alias or mod, tok('mod', mod)], 'spec': list(spec)}
    _, mod, attr, alias = spec
    return {'imp': [alias or attr, tok('imp', f'{mod}.{attr}')], 'spec': list(spec)}


def tok(org, name): return {'tok': [org, name]}
def ref(r): return {'ref': r}


# --------------------------------------------------------------------------
# renderer
# --------------------------------------------------------------------------

def src_expr(e) -> str:
    if 'n' in e:
        return e['n']
    if 'c' in e:
        return str(e['c'])
    if 'w' in e:
        return f"({e['w'][0]} := {src_expr(e['w'][1])})"
    if 't' in e:
        es = [src_expr(x) for x in e['t']]
        if len(es) == 1:
            return f'({es[0]},)'
        return '(' + ', '.join(es) + ')'
    if 'lam' in e:
        ps, body = e['lam']
        return f"(lambda {', '.join(ps)}: {src_expr(body)})" if ps else f'(lambda: {src_expr(body)})'
    if 'call' in e:
        f, args = e['call']
        return f"{src_expr(f)}({', '.join(src_expr(a) for a in args)})"
    if 'app' in e:
        t, x = e['app']
        return f'{src_expr(t)}.append({src_expr(x)})'
    if 'comp' in e:
        c = e['comp']
        parts = [src_expr(c['elt'])]
        for t, it, cs in c['cl']:
            parts.append(f'for {t} in {src_expr(it)}')
            for cond in cs:
                parts.append(f'if {src_expr(cond)}')
        inner = ' '.join(parts)
        return f'[*({inner})]' if c['gen'] else f'[{inner}]'
    if 'gen' in e:
        c = e['gen']
        parts = [src_expr(c['elt'])]
        for t, it, cs in c['cl']:
            parts.append(f'for {t} in {src_expr(it)}')
            for cond in cs:
                parts.append(f'if {src_expr(cond)}')
        return '(' + ' '.join(parts) + ')'
    if 'drain' in e:
        return f"[*{src_expr(e['drain'])}]"
    if 'si' in e:
        t, i, x = e['si']
        return f'{src_expr(t)}.__setitem__({i}, {src_expr(x)})'
    if 'ns' in e:
        m, k, x = e['ns']
        recv = 'locals()' if e.get('via') == 'l' else 'globals()'
        if m == 'pop1':
            return f'{recv}.pop({k!r})'
        if m == 'pop2':
            return f'{recv}.pop({k!r}, {src_expr(x)})'
        if m == 'popitem':
            return f'({recv}.popitem(), None)[1]'
        if m == 'clear':
            return f'{recv}.clear()'
        if m == 'setdefault':
            return f'{recv}.setdefault({k!r}, {src_expr(x)})'
        if m == 'update':
            return f'{recv}.update({k}={src_expr(x)})'
        if m == 'setitem':
            return f'{recv}.__setitem__({k!r}, {src_expr(x)})'
        if m == 'delitem':
            return f'{recv}.__delitem__({k!r})'
        if m == 'ior':
            return f'({recv}.__ior__({{{k!r}: {src_expr(x)}}}), None)[1]'
    raise ValueError(e)


def src_import(spec) -> str:
    if spec[0] == 'import':
        _, mod, alias = spec
        return f'import {mod} as {alias}' if alias else f'import {mod}'
    _, mod, attr, alias = spec
    return f'from {mod} import {attr} as {alias}' if alias else f'from {mod} import {attr}'


def src_stmt(s) -> list:
    if 'as' in s:
        return [f"{s['as'][0]} = {src_expr(s['as'][1])}"]
    if 'aug' in s:
        return [f"{s['aug'][0]} += {src_expr(s['aug'][1])}"]
    if 'del' in s:
        return [f"del {s['del']}"]
    if 'imp' in s:
        return [src_import(tuple(s['spec']))]
    if 'ex' in s:
        return [src_expr(s['ex'])]
    if 'sis' in s:
        t, i, x = s['sis']
        return [f'{src_expr(t)}[{i}] = {src_expr(x)}']
    if 'def' in s:
        d = s['def']
        lines = [f"def {d['f']}({', '.join(d['ps'])}):"]
        if d['gl']:
            lines.append('    global ' + ', '.join(d['gl']))
        for x, e in d['body']:
            lines.append(f'    {x} = {src_expr(e)}')
        lines.append(f"    return {src_expr(d['ret'])}")
        return lines
    if 'cls' in s:
        c, body = s['cls']
        lines = [f'class {c}:']
        if not body:
            lines.append('    pass')
        for x, e in body:
            lines.append(f'    {x} = {src_expr(e)}')
        return lines
    if 'save' in s:
        names, kws = s['save']
        args = [repr(n) for n in names] + [f'{k}={src_expr(e)}' for k, e in kws]
        return [f"save({', '.join(args)})"]
    raise ValueError(s)


PY_TAIL = '# c14-py'


def src_block(b) -> str:
    lines = []
    for s in b:
        lines += src_stmt(s)
    return '\n'.join(lines + [PY_TAIL]) + '\n'


def src_pyimport(specs) -> str:
    return '\n'.join(src_import(tuple(s)) for s in specs) + '\n# c14-pyimport\n'


def pyimport_bindings(specs):
    out = []
    for s in specs:
        s = tuple(s)
        if s[0] == 'import':
            out.append([s[2] or s[1], tok('mod', s[1])])
        else:
            out.append([s[3] or s[2], tok('imp', f'{s[1]}.{s[2]}')])
    return out


def render(case):
    """Fill in the rendered sources of every op (kept in the case for the replay file)."""
    for op in case['ops']:
        if 'eval' in op:
            op['src'] = src_expr(op['eval'])
        elif 'evalset' in op:
            op['src'] = src_expr(op['evalset'][1])
        elif 'foreach' in op:
            op['src'] = src_expr(op['foreach'])
        elif 'exec' in op:
            op['src'] = src_block(op['exec'])
        elif 'pyimport' in op:
            op['src'] = src_pyimport(op['specs'])
    return case


# --------------------------------------------------------------------------
# syntactic facts used by monitors and distribution counters
# --------------------------------------------------------------------------

def walk_expr(e, f, scope='module', in_comp=False):
    """Call f(kind, node, scope, in_comp) on every node; scope = 'module'|'func'."""
    if 'n' in e:
        f('name', e, scope, in_comp)
    elif 'c' in e:
        f('const', e, scope, in_comp)
    elif 'w' in e:
        f('walrus', e, scope, in_comp)
        walk_expr(e['w'][1], f, scope, in_comp)
    elif 't' in e:
        f('tuple', e, scope, in_comp)
        for x in e['t']:
            walk_expr(x, f, scope, in_comp)
    elif 'lam' in e:
        f('lam', e, scope, in_comp)
        walk_expr(e['lam'][1], f, 'func', False)
    elif 'call' in e:
        f('call', e, scope, in_comp)
        walk_expr(e['call'][0], f, scope, in_comp)
        for x in e['call'][1]:
            walk_expr(x, f, scope, in_comp)
    elif 'app' in e:
        f('append', e, scope, in_comp)
        walk_expr(e['app'][0], f, scope, in_comp)
        walk_expr(e['app'][1], f, scope, in_comp)
    elif 'comp' in e:
        c = e['comp']
        f('genexp' if c['gen'] else 'listcomp', e, scope, in_comp)
        for i, (t, it, cs) in enumerate(c['cl']):
            walk_expr(it, f, scope, in_comp if i == 0 else True)
            for cond in cs:
                walk_expr(cond, f, scope, True)
        walk_expr(c['elt'], f, scope, True)
    elif 'gen' in e:
        c = e['gen']
        f('genobj', e, scope, in_comp)
        for i, (t, it, cs) in enumerate(c['cl']):
            walk_expr(it, f, scope, in_comp if i == 0 else True)
            for cond in cs:
                walk_expr(cond, f, scope, True)
        walk_expr(c['elt'], f, scope, True)
    elif 'drain' in e:
        f('drain', e, scope, in_comp)
        walk_expr(e['drain'], f, scope, in_comp)
    elif 'si' in e:
        f('setitem', e, scope, in_comp)
        walk_expr(e['si'][0], f, scope, in_comp)
        walk_expr(e['si'][2], f, scope, in_comp)
    elif 'ns' in e:
        f('nsop', e, scope, in_comp)
        if e['ns'][0] in NS_WITH_ARG:
            walk_expr(e['ns'][2], f, scope, in_comp)


def stmt_exprs(s):
    """(expr, scope) pairs of a statement."""
    if 'as' in s:
        return [(s['as'][1], 'module')]
    if 'aug' in s:
        return [(s['aug'][1], 'module')]
    if 'ex' in s:
        return [(s['ex'], 'module')]
    if 'sis' in s:
        return [(s['sis'][2], 'module'), (s['sis'][0], 'module')]
    if 'def' in s:
        d = s['def']
        return [(e, 'func') for _, e in d['body']] + [(d['ret'], 'func')]
    if 'cls' in s:
        return [(e, 'cls') for _, e in s['cls'][1]]
    if 'save' in s:
        return [(e, 'module') for _, e in s['save'][1]]
    return []


def expr_facts(e):
    """Set of construct tags of one `!py` expression."""
    facts = set()

    def f(kind, node, scope, in_comp):
        facts.add(kind)
        if kind == 'walrus':
            if scope == 'module':
                facts.add('walrus-in-comprehension' if in_comp else 'walrus-top-level')
            else:
                facts.add('walrus-in-function')
        if kind == 'name' and scope == 'func':
            facts.add('read-in-function')
        if kind == 'name' and in_comp:
            facts.add('read-in-comprehension')
        if kind in ('listcomp', 'genexp'):
            facts.add(f"for-clauses:{len(node['comp']['cl'])}")
        if kind == 'genobj':
            facts.add(f"for-clauses:{len(node['gen']['cl'])}")
        if kind == 'nsop':
            facts.add('nsop:' + node['ns'][0])
        if kind == 'name' and node['n'].startswith('__'):
            facts.add('dunder-read')
    walk_expr(e, f)
    return facts


def block_facts(b):
    facts = set()
    for s in b:
        facts.add('stmt:' + next(k for k in s if k not in ('spec',)))
        if 'def' in s and s['def']['gl']:
            facts.add('global-decl')
        for e, scope in stmt_exprs(s):
            def f(kind, node, sc, in_comp, scope=scope):
                facts.add(kind)
                if kind in ('listcomp', 'genexp'):
                    facts.add(f"for-clauses:{len(node['comp']['cl'])}")
                if kind == 'genobj':
                    facts.add(f"for-clauses:{len(node['gen']['cl'])}")
                if kind == 'nsop':
                    facts.add('nsop:' + node['ns'][0])
                if kind == 'name' and (sc == 'func' or scope == 'func'):
                    facts.add('read-in-function')
            walk_expr(e, f, 'func' if scope == 'func' else 'module')
    return facts


# --------------------------------------------------------------------------
# CPython 3.12.1 comprehension inlining (PEP 709) merges the symbols of an inlined list comprehension into
# the enclosing scope's table; a LATER read of such a name from another inlined comprehension of the same
# code unit is then compiled against the merged entry (a hidden fast local / a cell) instead of as the
# global it is: `[([0 for z in U], [z for y in U]) for a in T]` is an UnboundLocalError although z is a
# global. That is a defect of this CPython release, not of pypyr and not part of the modelled scheme:
# programs where it CAN occur are detected here (over-approximation) and left out of the model comparison
# (counted); the monitors still judge them (plain Python has the same quirk).
# --------------------------------------------------------------------------

class _Sc:
    """One symbol-table scope of the rendered program: the top level of an eval / exec / class body
    ('module'), a lambda / def / generator expression ('func'), or an inlined list comprehension ('listcomp').
    `own`: the names its own code mentions (reads, targets, parameters, := targets written in it)."""

    def __init__(self, kind, parent, targets=()):
        self.kind, self.parent = kind, parent
        self.targets = set(targets)
        self.own = set(targets)
        self.children = []
        if parent is not None:
            parent.children.append(self)

    def all_names(self):
        out = set(self.own)
        for c in self.children:
            out |= c.all_names()
        return out

    def has_function_mentioning(self, z):
        for c in self.children:
            if c.kind == 'func' and z in c.all_names():
                return True
            if c.has_function_mentioning(z):
                return True
        return False


def _scopes(e, sc, comps):
    if 'n' in e:
        sc.own.add(e['n'])
    elif 'c' in e:
        pass
    elif 'w' in e:
        sc.own.add(e['w'][0])
        _scopes(e['w'][1], sc, comps)
    elif 't' in e:
        for x in e['t']:
            _scopes(x, sc, comps)
    elif 'lam' in e:
        ps, body = e['lam']
        _scopes(body, _Sc('func', sc, ps), comps)
    elif 'call' in e:
        _scopes(e['call'][0], sc, comps)
        for x in e['call'][1]:
            _scopes(x, sc, comps)
    elif 'app' in e:
        _scopes(e['app'][0], sc, comps)
        _scopes(e['app'][1], sc, comps)
    elif 'drain' in e:
        _scopes(e['drain'], sc, comps)
    elif 'si' in e:
        _scopes(e['si'][0], sc, comps)
        _scopes(e['si'][2], sc, comps)
    elif 'ns' in e:
        if e['ns'][0] in NS_WITH_ARG:
            _scopes(e['ns'][2], sc, comps)
    elif 'gen' in e:
        c = e['gen']
        _scopes(c['cl'][0][1], sc, comps)
        inner = _Sc('func', sc, [t for t, _, _ in c['cl']])
        for i, (t, it, cs) in enumerate(c['cl']):
            if i:
                _scopes(it, inner, comps)
            for x in cs:
                _scopes(x, inner, comps)
        _scopes(c['elt'], inner, comps)
    else:
        c = e['comp']
        _scopes(c['cl'][0][1], sc, comps)          # the first iterable belongs to the enclosing scope
        inner = _Sc('func' if c['gen'] else 'listcomp', sc, [t for t, _, _ in c['cl']])
        if not c['gen']:
            comps.append(inner)
        for i, (t, it, cs) in enumerate(c['cl']):
            if i:
                _scopes(it, inner, comps)
            for x in cs:
                _scopes(x, inner, comps)
        _scopes(c['elt'], inner, comps)


def _merge_quirk(comps):
    """The rule read off CPython 3.12.1's symtable.c (`inline_comprehension`, `analyze_cells`): the LOCAL
    symbols of an inlined list comprehension K are copied into its parent scope S unless S's own code
    already mentions the name; once copied, every other use of that name compiled in S's unit — another
    inlined comprehension of S, a free variable of a function nested in S — binds to the copy (an unbound
    hidden local / cell); the copy travels on to S's parent while S is itself an inlined comprehension.
    At the top level of a module / class body the copy is harmless unless it is a cell (a function nested
    in K captures the name). Over-approximation: order of the siblings and whether the other use would
    really have been bound outside are ignored."""
    for k in comps:
        for z in k.targets:
            child, s = k, k.parent
            while s is not None:
                if z in s.own:
                    break
                others = any(z in c.all_names() for c in s.children if c is not child)
                if s.kind in ('func', 'listcomp'):
                    if others:
                        return True
                elif others and (k.has_function_mentioning(z)):
                    return True
                if s.kind != 'listcomp':
                    break
                child, s = s, s.parent
    return False


def inlining_quirk(op):
    """Can CPython 3.12.1's symbol merge of inlined comprehensions change a name resolution in this op?"""
    comps = []
    if 'eval' in op or 'evalset' in op or 'foreach' in op:
        _scopes(op_expr(op), _Sc('module', None), comps)
    elif 'exec' in op:
        top = _Sc('module', None)
        for s in op['exec']:
            if 'def' in s:
                d = s['def']
                top.own.add(d['f'])
                f = _Sc('func', top, list(d['ps']) + list(d['gl']) + [x for x, _ in d['body']])
                for _, e in d['body']:
                    _scopes(e, f, comps)
                _scopes(d['ret'], f, comps)
            elif 'cls' in s:
                top.own.add(s['cls'][0])
                c = _Sc('module', top, [x for x, _ in s['cls'][1]])
                for _, e in s['cls'][1]:
                    _scopes(e, c, comps)
            else:
                for k in ('as', 'aug'):
                    if k in s:
                        top.own.add(s[k][0])
                if 'del' in s:
                    top.own.add(s['del'])
                if 'imp' in s:
                    top.own.add(s['imp'][0])
                for e, _ in stmt_exprs(s):
                    _scopes(e, top, comps)
    else:
        return False
    return _merge_quirk(comps)


def op_expr(op):
    """The `!py` expression of an op that evaluates one."""
    if 'eval' in op:
        return op['eval']
    if 'evalset' in op:
        return op['evalset'][1]
    if 'foreach' in op:
        return op['foreach']
    return None


def eval_construct(e):
    fs = expr_facts(e)
    if 'walrus-top-level' in fs:
        return 'walrus-top-level'
    if 'walrus-in-comprehension' in fs:
        return 'walrus-in-comprehension'
    if 'walrus-in-function' in fs:
        return 'walrus-in-function'
    return 'no-assignment-expression'


def saved_names(b):
    out = set()
    for s in b:
        if 'save' in s:
            out.update(s['save'][0])
            out.update(k for k, _ in s['save'][1])
    return out


# --------------------------------------------------------------------------
# marker objects and the scratch import modules
# --------------------------------------------------------------------------

class Marker:
    """An inert object whose identity says which namespace bound it."""
    __slots__ = ('org', 'name')

    def __init__(self, org, name):
        self.org, self.name = org, name

    def __repr__(self):
        return f'<{self.org}:{self.name}>'

    def __iadd__(self, other):
        return (self, other)

    # a marker stands for ONE object of the pipeline's world: a pickle round trip / deep copy of the
    # Context must give back the canonical instance, so provenance stays observable afterwards
    def __reduce__(self):
        return (marker, (self.org, self.name))

    def __deepcopy__(self, memo):
        return self

    def __copy__(self):
        return self


class _ScratchModule(types.ModuleType):
    """A scratch import target that (unlike a real module) survives pickle / deepcopy by reference."""

    def __reduce__(self):
        return (importlib.import_module, (self.__name__,))

    def __deepcopy__(self, memo):
        return self

    def __copy__(self):
        return self


MODS = ['c14m1', 'c14m2']
ATTRS = ['n1', 'n2', 'len', 'a', 'T', 'y']
_MARKERS = {}
_TOK_BY_ID = {}
_KEEP = []


def marker(org, name):
    m = _MARKERS.get((org, name))
    if m is None:
        m = Marker(org, name)
        _MARKERS[(org, name)] = m
        _TOK_BY_ID[id(m)] = tok(org, name)
    return m


def ensure_modules():
    for mod in MODS:
        if mod not in sys.modules or not hasattr(sys.modules[mod], '_c14'):
            m = _ScratchModule(mod)
            m._c14 = True
            for a in ATTRS:
                setattr(m, a, marker('imp', f'{mod}.{a}'))
            sys.modules[mod] = m
            _TOK_BY_ID[id(m)] = tok('mod', mod)
            _KEEP.append(m)


POOL_BUILTINS = ['len', 'list', 'id']


def bi_names(pool):
    return sorted(n for n in pool if n in builtins.__dict__)


# --------------------------------------------------------------------------
# the implementation runner
# --------------------------------------------------------------------------

ERR = [(NameError, 'NameError'), (TypeError, 'TypeError'), (AttributeError, 'AttributeError'),
       (KeyError, 'KeyError')]


def err_name(e):
    for cls, name in ERR:
        if isinstance(e, cls):
            return name
    return type(e).__name__


class World:
    """Python objects for one case."""

    def __init__(self, case):
        ensure_modules()
        self.srcs = {}          # id(str) -> special name
        self.src_text = {}      # text -> special name
        self.heap = []
        # two passes so that cells may reference each other
        for cell in case['heap']:
            self.heap.append([] if 'l' in cell else None)
        for i, cell in enumerate(case['heap']):
            if 'l' in cell:
                self.heap[i].extend(self.val(v) for v in cell['l'])
            else:
                self.heap[i] = tuple(self.val(v) for v in cell['t'])
        self.ctx = {k: self.val(v) for k, v in case['ctx']}

    def special(self, name):
        s = f'<<{name}-placeholder>>'
        self.src_text[s] = name
        return s

    def val(self, v):
        if v is None or isinstance(v, int):
            return v
        if 'ref' in v:
            r = self.heap[v['ref']]
            if r is None:
                raise ValueError('forward reference to a tuple cell')
            return r
        org, name = v['tok']
        if org in ('ctx', 'imp'):
            return marker(org, name)
        if org == 'mod':
            return sys.modules[name]
        if org == 'bi':
            return builtins.__dict__[name]
        if org == 'special':
            return self.special(name)
        raise ValueError(v)

    TUPLE_DEPTH = 6     # same constant in lean/Driver/OpPyNs.lean (dumpV)

    def dump(self, v, seen, td=0):
        """Structural dump; lists / functions / classes are numbered by first appearance (identity), tuples
        are dumped by value — a tuple nested more than TUPLE_DEPTH tuples deep is cut (`{'deep': True}`):
        `(y := (y, y))` in a loop builds a DAG whose by-value dump is exponential."""
        if v is None:
            return None
        t = _TOK_BY_ID.get(id(v))
        if t is not None:
            return t
        if type(v) is int:
            # the language's own integers are small constants and lengths; anything else came out of a real
            # builtin such as id() and is an address
            return v if -10**6 < v < 10**6 else {'addr': True}
        if type(v) is str and v in self.src_text:
            return tok('special', self.src_text[v])
        if type(v) is tuple:
            if td >= self.TUPLE_DEPTH:
                return {'deep': True}
            return {'t': [self.dump(x, seen, td + 1) for x in v]}
        if type(v) is list:
            if id(v) in seen:
                return {'seen': seen[id(v)]}
            k = seen[id(v)] = len(seen)
            return {'l': k, 'xs': [self.dump(x, seen, td) for x in v]}
        if isinstance(v, types.FunctionType):
            if getattr(v, '__qualname__', '') == 'get_save.<locals>.save':
                return tok('special', 'save')
            if id(v) in seen:
                return {'seen': seen[id(v)]}
            k = seen[id(v)] = len(seen)
            return {'fn': k}
        if isinstance(v, types.GeneratorType):
            if id(v) in seen:
                return {'seen': seen[id(v)]}
            k = seen[id(v)] = len(seen)
            return {'gen': k}
        if v is builtins.__dict__ or (type(v) is dict and v.get('__name__') == 'builtins' and 'len' in v):
            # (a deep copy / pickle round trip of a context that save()d __builtins__ holds a copy)
            return tok('special', '__builtins__')
        for n in POOL_BUILTINS:
            if v is builtins.__dict__.get(n):
                return tok('bi', n)
        if isinstance(v, type) and v.__name__ == 'Cq':
            # (a class made by exec without __name__ in globals reports __module__ == 'builtins')
            if id(v) in seen:
                return {'seen': seen[id(v)]}
            k = seen[id(v)] = len(seen)
            return {'cls': k, 'attrs': [[a, self.dump(x, seen, td)] for a, x in vars(v).items()
                                        if not a.startswith('__')]}
        return {'unknown': type(v).__name__}

    def dump_env(self, d, seen):
        return [[k, self.dump(v, seen)] for k, v in d.items()]


def snapshot(context):
    return [(k, id(v)) for k, v in dict.items(context)]


REHYDRATE_ORDER = {'pickle': ['pickle', 'deepcopy', 'copy'], 'deepcopy': ['deepcopy', 'copy'], 'copy': ['copy']}


def carries_code_objects(context):
    """Does the context (or the import namespace) reach a function or class object made by inline Python?
    Those do not pickle, and deepcopy treats them as atoms: whatever they reference (a list the context
    also holds) stays the OLD object while the context gets a copy — the aliasing between cargo changes,
    which is a fact about the cargo, not about Context.__getstate__/__setstate__."""
    todo = list(dict.values(context)) + list((getattr(context, '_pystring_globals', None) or {}).values())
    seen = set()
    while todo:
        v = todo.pop()
        if id(v) in seen:
            continue
        seen.add(id(v))
        if isinstance(v, (types.FunctionType, types.GeneratorType)) or (isinstance(v, type) and v.__name__ == 'Cq'):
            return True
        if type(v) in (list, tuple):
            todo.extend(v)
        elif type(v) is dict and v is not builtins.__dict__:
            todo.extend(v.values())
    return False


def rehydrate(context, kind):
    """Context -> (rehydrated Context, kind actually used). The op is about the Context class's own
    __getstate__/__setstate__, not about its cargo: a context carrying function / class objects made by
    inline Python goes through copy.copy (see carries_code_objects); a method that raises falls back to
    the next one."""
    last = None
    if kind != 'copy' and carries_code_objects(context):
        kind = 'copy'
    for k in REHYDRATE_ORDER[kind]:
        try:
            if k == 'pickle':
                return pickle.loads(pickle.dumps(context)), k
            if k == 'deepcopy':
                return copy.deepcopy(context), k
            return copy.copy(context), k
        except Exception as e:     # noqa
            last = e
    raise last


def eval_obs(w, src, context):
    from pypyr.dsl import PyString
    try:
        return {'ok': w.dump(PyString(src).get_value(context), {})}
    except Exception as e:     # noqa: the expression's own exception is an observation
        return {'err': err_name(e)}


def import_probe(w, context, my_imps, cleared, findings, after):
    """From the property text: names imported through pyimport are readable by `!py` (top level and from
    a nested scope) unless a context key of that name stands in front; names of a wiped import namespace
    are not. Judged against the harness's OWN record of what pyimport was asked to import."""
    for name, obj in my_imps.items():
        if name in context or name == '__builtins__':
            continue
        want = {'ok': w.dump(obj, {})}
        for src in (name, f'(lambda: {name})()'):
            got = eval_obs(w, src, context)
            if got != want:
                findings.append((
                    f'!py {src!r} after {after}: the name imported through pyimport is not readable',
                    {'site': 'get_eval_string', 'monitor': 'import-visibility',
                     'effect': 'imported-name-not-readable', 'after': after},
                    {'impl': got, 'expected': want}))
                break
    for name in cleared:
        if name in context or name in my_imps or name in builtins.__dict__:
            continue
        got = eval_obs(w, name, context)
        if got != {'err': 'NameError'}:
            findings.append((
                f'!py {name!r} after {after}: a name of the wiped pyimport namespace is still readable',
                {'site': 'get_eval_string', 'monitor': 'import-visibility',
                 'effect': 'cleared-import-still-readable', 'after': after},
                {'impl': got, 'expected': {'err': 'NameError'}}))


class NoOracle(Exception):
    """The plain-Python reading cannot be computed for this op without disturbing the run."""


class Live(dict):
    """The plain-Python reading of "context keys, pyimport names and builtins are variables": an ordinary
    globals dict (what the expression binds itself lands in it and is thrown away with it) whose misses fall
    through to what the context holds AT THAT MOMENT, then to what pyimport was asked to register (the
    harness's own record); a KeyError from here sends CPython on to the builtins. Function / generator
    objects made against it keep it as their globals, like any Python function."""
    __slots__ = ('lookup',)

    def __missing__(self, k):
        return self.lookup(k)


def holds_generator(v, depth=3):
    if isinstance(v, types.GeneratorType):
        return True
    if depth and type(v) in (list, tuple):
        return any(holds_generator(x, depth - 1) for x in v)
    return False


OBS_MODULE = 'c14obs'
_OBS = []


def ensure_obs_module():
    """The step `foreach` sessions run: it only looks (records context['i'] of every iteration)."""
    m = sys.modules.get(OBS_MODULE)
    if m is None or not hasattr(m, '_c14'):
        m = types.ModuleType(OBS_MODULE)
        m._c14 = True

        def run_step(context):
            _OBS[-1](context)
        m.run_step = run_step
        sys.modules[OBS_MODULE] = m


MAKES_CODE = ('lambda', 'def ', ' for ')
MUTATES = ('.append(', '+=', 'globals()', 'locals()', '.__setitem__(', '] = ')


def run_impl(case, upto=None, soft_from=None, hang=None, soft_s=3.0):
    """Run the case's ops against the real pypyr. Returns (steps, monitor_findings, notes).
    Ops from index `soft_from` on are run for the monitors only (the model stopped before them): each gets
    `soft_s` seconds (the caller's SIGALRM handler raises `hang`), and the run ends quietly at a timeout.

    steps[i] = {'res': {'ok': D}|{'err': name}, 'ctx': [[k, D]…], 'imps': …, 'hidden': …}
    monitor_findings = list of (detail, signature, impl_obs); notes = counters."""
    from pypyr.context import Context
    from pypyr.dsl import PyString, Step
    import pypyr.steps.py as pystep
    import pypyr.steps.pyimport as pyimportstep
    import pypyr.steps.contextclearall as clearallstep
    import pypyr.steps.set as setstep

    ensure_obs_module()
    w = World(case)
    context = Context(w.ctx)
    my_imps = {}        # the harness's own record of what pyimport registered (name -> object)
    cleared = set()     # names that were imported once and then wiped by contextclearall
    for k, v in case.get('imps', []):
        context.pystring_globals_update({k: w.val(v)})
        my_imps[k] = w.val(v)
    steps = []
    findings = []
    notes = []
    ops = case['ops'] if upto is None else case['ops'][:upto]
    # twin_of: id(function / generator object made by a real `!py` evaluation) -> the object the plain-Python
    # reading made for the same expression at the same moment; keep: the real objects (ids stay unique)
    state = {'context': context, 'rehydrated': None, 'over': {}, 'twin_of': {}, 'keep': [], 'tainted': False,
             'deferred': False, 'gens_made': False, 'saves': []}

    def unshadowed():
        """Code ran for real that the plain-Python reading did not run alongside: a generator object it may have
        pulled is now ahead of its twin — no more second evaluations in a session that has generator objects."""
        if state['gens_made'] and not state['tainted']:
            state['tainted'] = True
            notes.append('oracle:off(a-generator-object-may-have-been-pulled-by-code-the-oracle-did-not-shadow)')


    def rehydrated_since(blk):
        """The Context object the `save` of block `blk` closes over is no longer the one the session works on."""
        return blk in state.get('stale_saves', ())

    def lookup(k):
        over = state['over']
        if k in over:
            return over[k]
        ctx = state['context']
        if dict.__contains__(ctx, k):
            v = dict.__getitem__(ctx, k)
            t = state['twin_of'].get(id(v))
            if t is not None:
                return t
            if holds_generator(v):
                raise NoOracle(k)       # pulling the real object here would use it up before the real run
            return v
        if k in my_imps:
            return my_imps[k]
        raise KeyError(k)

    def plain(src, foreach=False):
        """{'ok': D} | {'err': name} | None (no oracle). Side table of twins is updated by `pair`."""
        live = Live()
        live.lookup = lookup
        try:
            v = eval(src, live)
            if foreach:
                items = []
                for it in v:
                    state['over']['i'] = it
                    items.append(it)
                v = items
        except NoOracle:
            return None, None
        except Exception as e:     # noqa
            return {'err': err_name(e)}, None
        finally:
            state['over'] = {}
        if foreach:
            seen = {}
            return {'ok': {'items': [w.dump(x, seen) for x in v]}}, v
        return {'ok': w.dump(v, {})}, v

    def pair(real, twin):
        """Remember which plain-Python object stands for a function / generator object pypyr's evaluation made."""
        if isinstance(real, (types.FunctionType, types.GeneratorType)) and type(real) is type(twin) \
                and real is not twin:
            state['twin_of'][id(real)] = twin
            state['keep'].append(real)
            state['deferred'] = True
        elif type(real) is tuple and type(twin) is tuple and len(real) == len(twin):
            for a, b in zip(real, twin):
                pair(a, b)

    def name_error_monitor(exc, what, src):
        """A `!py` expression (deferred bodies included) must be able to read every context key, pyimport name
        and builtin: `name 'x' is not defined` for such an x is a violation whatever the scope nesting."""
        if type(exc) is not NameError:
            return
        x = getattr(exc, 'name', None)
        if not x or str(exc) != f"name '{x}' is not defined":
            return
        ctx = state['context']
        if state['rehydrated'] and state['deferred']:
            return      # an object made before the rehydration reads the Context object left behind
        tb = exc.__traceback__
        while tb is not None and tb.tb_next is not None:
            tb = tb.tb_next
        if tb is not None and type(tb.tb_frame.f_globals) is dict:
            return      # raised in a function a py block made: its globals is that block's dict, a COPY
        where = ('context key' if dict.__contains__(ctx, x) else 'pyimport name' if x in my_imps
                 else 'builtin' if x in builtins.__dict__ else None)
        if where is None or x == '__builtins__':
            return
        findings.append((
            f'{what} {src!r}: NameError for {x!r}, which at that moment is a {where}',
            {'site': 'get_eval_string', 'monitor': 'name-readable', 'what': where,
             'deferred': 'for ' in src or 'lambda' in src or state['deferred']},
            {'impl': {'err': 'NameError', 'name': x}}))

    def ns_signature(e):
        ms = sorted({NS_PYNAME[f[5:]] for f in expr_facts(e) if f.startswith('nsop:')})
        if not ms:
            return None
        return {'site': '_EvalNamespace', 'route': 'namespace-object-method',
                'method': ms[0] if len(ms) == 1 else 'several'}

    def do_eval_like(op, kind):
        """eval / evalset / foreach: the three routes that evaluate a `!py` expression."""
        context = state['context']
        e = op_expr(op)
        src = op['src']
        facts = expr_facts(e)
        if '__builtins__' in context:
            notes.append('ctx:reserved-key-__builtins__(hidden from !py by the namespace object; not judged)')
        if any(m in src for m in MUTATES) and any(m in src for m in MAKES_CODE):
            state['tainted'] = True     # an object whose body mutates may be kept: no second evaluations any more
        has_ns = any(f.startswith('nsop:') for f in facts)
        if 'genobj' in facts:
            state['gens_made'] = True
        use_oracle = ('append' not in facts and 'setitem' not in facts and not has_ns and '__builtins__' not in context
                      and not state['tainted'])
        oracle = ovalue = None
        if use_oracle:
            oracle, ovalue = plain(src, foreach=(kind == 'foreach'))
            if oracle is None:
                notes.append('oracle:skipped(would-consume-a-generator-object)')
        elif state['tainted']:
            notes.append('oracle:skipped(session-keeps-a-mutating-function-object)')
        if oracle is None:
            unshadowed()
        exc = None
        if kind == 'eval':
            before = snapshot(context)
            before_map = dict(dict.items(context))
            try:
                res = ('ok', PyString(src).get_value(context))
            except Exception as ex:     # noqa: the expression's own exception is an observation
                exc = ex
                res = ('err', err_name(ex))
            expect = before
        elif kind == 'evalset':
            key = op['evalset'][0]
            dict.__setitem__(context, 'set', {key: PyString(src)})
            before = snapshot(context)
            before_map = dict(dict.items(context))
            try:
                setstep.run_step(context)
                res = ('ok', dict.__getitem__(context, key))
            except Exception as ex:     # noqa
                exc = ex
                res = ('err', err_name(ex))
            expect = [(k, i) for k, i in before if k != 'set']
            if res[0] == 'ok':
                if any(k == key for k, _ in expect):
                    expect = [(k, id(res[1]) if k == key else i) for k, i in expect]
                else:
                    expect.append((key, id(res[1])))
        else:
            rec = []
            _OBS.append(lambda c: rec.append(dict.get(c, 'i')))
            before = snapshot(context)
            before_map = dict(dict.items(context))
            try:
                Step({'name': OBS_MODULE, 'foreach': PyString(src)}).run_step(context)
                res = ('ok', rec)
            except Exception as ex:     # noqa
                exc = ex
                res = ('err', err_name(ex))
            finally:
                _OBS.pop()
            expect = list(before)
            if rec:
                if any(k == 'i' for k, _ in expect):
                    expect = [(k, id(rec[-1]) if k == 'i' else i) for k, i in expect]
                else:
                    expect.append(('i', id(rec[-1])))
        after = snapshot(context)
        if after != expect:
            what = {'eval': '!py', 'evalset': 'set: !py', 'foreach': 'foreach: !py'}[kind]
            sig = ns_signature(e) or {'site': 'get_eval_string', 'construct': eval_construct(e)}
            if kind != 'eval':
                sig = dict(sig, route=sig.get('route', kind))
            findings.append((
                f'{what} {src!r} changed the context: ' + describe_change(dict(expect_map(expect, before_map, context)), context),
                sig, {'before': [k for k, _ in before], 'after': [k for k, _ in after]}))
        if exc is not None:
            name_error_monitor(exc, {'eval': '!py', 'evalset': 'set: !py', 'foreach': 'foreach: !py'}[kind], src)
        if oracle is not None:
            if res[0] == 'err':
                got = {'err': res[1]}
            elif kind == 'foreach':
                seen = {}
                got = {'ok': {'items': [w.dump(x, seen) for x in res[1]]}}
            else:
                got = {'ok': w.dump(res[1], {})}
            if got != oracle:
                fresh = Context(dict(dict.items(context)))
                fresh.pystring_globals_update(my_imps)
                effect = 'differs'
                if kind == 'eval' and not state['deferred']:
                    effect = ('differs-on-the-used-Context-object-only(earlier-evaluations-or-rehydration)'
                              if eval_obs(w, src, fresh) == oracle else 'differs-on-a-new-Context-too')
                findings.append((
                    f'{"foreach: " if kind == "foreach" else ""}!py {src!r}: reads do not see what plain Python sees with '
                    f'context keys (then pyimport names, then builtins) as variables at that moment',
                    {'site': 'get_eval_string', 'monitor': 'read-provenance',
                     'construct': eval_construct(e), 'effect': effect,
                     'rehydrated': state['rehydrated'], 'route': kind,
                     'deferred-scope': bool(state['deferred'] or 'genobj' in facts)},
                    {'impl': got, 'plain': oracle}))
            elif res[0] == 'ok' and kind != 'foreach':
                pair(res[1], ovalue)
        if res[0] == 'ok' and kind != 'foreach' and (
                isinstance(res[1], (types.FunctionType, types.GeneratorType))
                or (type(res[1]) is tuple and any(isinstance(x, (types.FunctionType, types.GeneratorType)) for x in res[1]))):
            state['deferred'] = True
            state['keep'].append(res[1])
        return res

    def do_op(op):
        context = state['context']
        rehydrated = state['rehydrated']
        before = snapshot(context)
        before_map = dict(dict.items(context))
        src = op.get('src')
        res = None
        items = False
        if 'eval' in op:
            res = do_eval_like(op, 'eval')
        elif 'evalset' in op:
            res = do_eval_like(op, 'evalset')
        elif 'foreach' in op:
            res = do_eval_like(op, 'foreach')
            items = res[0] == 'ok'
        elif 'exec' in op:
            w.src_text[src] = 'py'
            dict.__setitem__(context, 'py', src)
            before = snapshot(context)
            before_map = dict(dict.items(context))
            oracle = None
            if any(m in src for m in MUTATES) and any(m in src for m in MAKES_CODE):
                taints = True
            else:
                taints = False
            if not state['tainted'] and not carries_code_objects(context) and '__builtins__' not in before_map \
                    and 'save' not in before_map:
                oracle = plain_exec(w, src, before_map)
            elif state['tainted'] or carries_code_objects(context):
                notes.append('block-oracle:skipped(context-carries-code-objects)')
            state['tainted'] = state['tainted'] or taints
            if 'genobj' in block_facts(op['exec']):
                state['gens_made'] = True
            unshadowed()
            # the `save` function object `get_save(context, namespace)` makes for this block is kept by the
            # harness (instrumentation from outside): a later `savecall` op calls it when the block is long over
            box = []
            orig_get_save = getattr(pystep, 'get_save', None)
            if callable(orig_get_save):
                def spy(*a, **kw):
                    f = orig_get_save(*a, **kw)
                    box.append(f)
                    if callable(f) and len(a) == 2 and not kw:
                        return identity_checked_save(f, a[0], a[1], findings)
                    return f
                pystep.get_save = spy
            try:
                pystep.run_step(context)
                res = ('ok', None)
            except Exception as e:     # noqa
                res = ('err', err_name(e))
            finally:
                if callable(orig_get_save):
                    pystep.get_save = orig_get_save
            state['saves'].append(box[0] if box and callable(box[0]) else None)
            after_map = dict(dict.items(context))
            named = saved_names(op['exec'])
            bad = []
            for k in before_map:
                if k not in after_map:
                    bad.append(f'key {k!r} removed')
                elif after_map[k] is not before_map[k] and k not in named:
                    bad.append(f'key {k!r} rebound')
            for k in after_map:
                if k not in before_map and k not in named:
                    bad.append(f'key {k!r} added')
            if bad:
                kind = 'added' if any('added' in b for b in bad) else 'rebound-or-removed'
                findings.append((
                    f'py block changed the context beyond what it passed to save(): {", ".join(bad[:6])}',
                    {'site': 'py.run_step', 'effect': kind},
                    {'before': list(before_map), 'after': list(after_map), 'saved_names': sorted(named)}))
            if oracle is not None:
                got = {'res': {'err': res[1]} if res[0] == 'err' else {'ok': None},
                       'ctx': w.dump_env(after_map, {})}
                if got != oracle:
                    imp_hit = sorted(k for k in my_imps if k in before_map)
                    findings.append((
                        'py block: what the block read / left behind is not what plain Python exec gives with a '
                        'dict copy of the context as globals and save() copying the named variables back',
                        {'site': 'py.run_step', 'monitor': 'block-vs-plain-exec',
                         'effect': ('outcome' if got['res'] != oracle['res'] else 'context-after'),
                         'pyimport-name-equals-context-key': bool(imp_hit)},
                        {'impl': got, 'plain': oracle}))
            if any(isinstance(v, (types.FunctionType, types.GeneratorType)) for v in after_map.values()):
                state['deferred'] = True
        elif 'savecall' in op:
            # M10: the `save` function of an EARLIER py block, called now (the block kept it, or a helper whose
            # body calls it): this CALL may add / rebind exactly the keys it is given
            blk, names, kws = op['savecall']
            fn = state['saves'][blk] if blk < len(state['saves']) else None
            if fn is None:
                notes.append('savecall:no-save-function-captured(get_save hook gone)')
                res = ('err', 'NoSaveFunction')
            else:
                kwargs = {k: w.val(v) for k, v in kws}
                unshadowed()
                try:
                    fn(*names, **kwargs)
                    res = ('ok', None)
                except Exception as e:     # noqa: the call's own exception is an observation
                    res = ('err', err_name(e))
                after_map = dict(dict.items(context))
                given = set(names) | set(kwargs)
                bad = []
                for k in before_map:
                    if k not in after_map:
                        bad.append(f'key {k!r} removed')
                    elif after_map[k] is not before_map[k] and k not in given:
                        bad.append(f'key {k!r} rebound')
                for k in after_map:
                    if k not in before_map and k not in given:
                        bad.append(f'key {k!r} (re-)added')
                for k, v in kwargs.items():
                    if res[0] == 'ok' and not rehydrated_since(blk) and after_map.get(k, w) is not v:
                        bad.append(f'keyword {k!r} not bound to the value given')
                if bad:
                    findings.append((
                        f'save({", ".join([repr(n) for n in names] + [k + "=…" for k in kwargs])}) called after its py '
                        f'block had ended changed context keys it was not given: {", ".join(bad[:6])}',
                        {'site': 'py.get_save', 'monitor': 'save-call-writes-only-its-arguments',
                         'effect': 'added' if any('added' in b for b in bad) else 'rebound-or-removed'},
                        {'before': list(before_map), 'after': list(after_map), 'given': sorted(given),
                         'outcome': res[1] if res[0] == 'err' else 'ok'}))
        elif 'pyimport' in op:
            w.src_text[src] = 'pyImport'
            dict.__setitem__(context, 'pyImport', src)
            before = snapshot(context)
            before_map = dict(dict.items(context))
            try:
                pyimportstep.run_step(context)
                res = ('ok', None)
            except Exception as e:     # noqa
                res = ('err', err_name(e))
            after = snapshot(context)
            if after != before:
                findings.append((
                    'pyimport changed the context: ' + describe_change(before_map, context),
                    {'site': 'pyimport.run_step', 'effect': 'context-changed'},
                    {'before': [k for k, _ in before], 'after': [k for k, _ in after]}))
            if res[0] == 'ok':
                for k, v in op['pyimport']:
                    my_imps[k] = w.val(v)
                    cleared.discard(k)
                import_probe(w, context, my_imps, cleared, findings,
                             'pyimport' + (f' on a Context rehydrated by {rehydrated}' if rehydrated else ''))
        elif 'ctxset' in op:
            context.update({k: w.val(v) for k, v in op['ctxset']})
            res = ('ok', None)
        elif 'ctxdel' in op:
            for k in op['ctxdel']:
                if k in context:
                    del context[k]
            res = ('ok', None)
        elif 'clearall' in op:
            try:
                clearallstep.run_step(context)
                res = ('ok', None)
            except Exception as e:     # noqa
                res = ('err', err_name(e))
            if len(context):
                findings.append(('contextclearall left keys in the context',
                                 {'site': 'contextclearall.run_step', 'effect': 'context-not-empty'},
                                 {'after': list(dict.keys(context))}))
            cleared.update(my_imps)
            my_imps.clear()
            import_probe(w, context, my_imps, cleared, findings,
                         'contextclearall' + (f' on a Context rehydrated by {rehydrated}' if rehydrated else ''))
        elif 'rehydrate' in op:
            want = w.dump_env(before_map, {})
            try:
                new, used = rehydrate(context, op['rehydrate'])
                res = ('ok', None)
            except Exception as e:     # noqa
                new, used = context, None
                res = ('err', err_name(e))
            if used is not None:
                notes.append('rehydrate:' + (used if used == op['rehydrate'] else f"{op['rehydrate']}->{used}"))
                got = w.dump_env(dict(dict.items(new)), {})
                ident = used != 'copy' or [id(v) for v in dict.values(new)] == [i for _, i in before]
                if type(new) is not Context or got != want or not ident:
                    findings.append((
                        f'{used} round trip of the Context changed its keys / values',
                        {'site': 'Context.__setstate__', 'effect': 'context-changed', 'how': used},
                        {'before': want, 'after': got, 'type': type(new).__name__}))
                context = state['context'] = new
                rehydrated = state['rehydrated'] = used
                state['stale_saves'] = set(range(len(state['saves'])))
                # objects made by earlier evaluations go on reading the Context object left behind: the twins
                # (which read the object the session works on) no longer stand for them
                state['twin_of'] = {}
                if state['deferred']:
                    state['tainted'] = True
                    notes.append('rehydrated-with-deferred-objects-alive:no-more-second-evaluations')
                import_probe(w, context, my_imps, cleared, findings, f'{used} round trip of the Context')
        context = state['context']
        seen = {}
        if res[0] == 'err':
            rj = {'err': res[1]}
        elif items:
            rj = {'ok': {'items': [w.dump(x, seen) for x in res[1]]}}
        else:
            rj = {'ok': w.dump(res[1], seen)}
        step = {'res': rj, 'ctx': w.dump_env(dict(dict.items(context)), seen)}
        imps = getattr(context, '_pystring_globals', None)
        nsobj = getattr(context, '_pystring_namespace', None)
        if imps is not None and nsobj is not None:
            step['imps'] = w.dump_env(imps, seen)
            step['hidden'] = w.dump_env({k: v for k, v in dict.items(nsobj) if k != '__builtins__'}, seen)
        return step

    for i, op in enumerate(ops):
        if soft_from is not None and i >= soft_from:
            signal.setitimer(signal.ITIMER_REAL, soft_s)
            try:
                steps.append(do_op(op))
            except hang:
                notes.append('monitor-only-op:timeout(run ends)')
                break
        else:
            steps.append(do_op(op))
    return steps, findings, notes


# --------------------------------------------------------------------------
# IMPLEMENTATION-ONLY stream: the whole mutating surface of the namespace object (`globals()`, `locals()`,
# `vars()` of a `!py` expression): also the methods / receivers / argument shapes the model has no syntax for
# (`update({...})`, `setdefault(k)`, `copy()`, `new_child()`, `parents`, `fromkeys`, `__or__`, operator.ior, the
# object reached through a lambda / a comprehension / a := binding). One monitor, from the property text:
# evaluating the expression leaves the context's keys, their order and every binding (by identity) and the
# pyimport namespace as they were. NOT compared with the Lean model.
# --------------------------------------------------------------------------

NS_RECEIVERS = ['globals()', 'locals()', 'vars()', '(lambda: globals())()', '[globals() for _ in (0,)][0]',
                '(nsq := globals())', '[*(locals() for _ in (0,))][0]']
NS_TEMPLATES = [
    ('pop', '{R}.pop({k!r})'), ('pop', '{R}.pop({k!r}, None)'), ('pop', '{R}.pop({k!r}, {v})'),
    ('popitem', '{R}.popitem()'), ('popitem', '[{R}.popitem(), {R}.popitem()]'),
    ('clear', '{R}.clear()'), ('clear', '[{R}.clear(), {k}]'),
    ('setdefault', '{R}.setdefault({k!r}, {v})'), ('setdefault', '{R}.setdefault({k!r})'),
    ('update', '{R}.update({k}={v})'), ('update', '{R}.update({{{k!r}: {v}}})'),
    ('update', '{R}.update([({k!r}, {v})])'), ('update', '{R}.update({{{k!r}: {v}}}, zz={v})'),
    ('__setitem__', '{R}.__setitem__({k!r}, {v})'), ('__delitem__', '{R}.__delitem__({k!r})'),
    ('__ior__', '{R}.__ior__({{{k!r}: {v}}})'), ('__ior__', '{R}.__ior__([({k!r}, {v})])'),
    ('__ior__', 'c14op.ior({R}, {{{k!r}: {v}}})'),
    ('__setitem__', 'c14op.setitem({R}, {k!r}, {v})'), ('__delitem__', 'c14op.delitem({R}, {k!r})'),
    ('__or__', '{R}.__or__({{{k!r}: {v}}})'), ('__or__', '{R}.__ror__({{{k!r}: {v}}})'),
    ('__or__', '({R} | {{{k!r}: {v}}}).pop({k!r})'), ('__or__', '({R} | {{{k!r}: {v}}}).clear()'),
    ('copy', '{R}.copy().pop({k!r}, None)'), ('copy', '{R}.copy().clear()'), ('copy', '{R}.copy().update({k}={v})'),
    ('copy', '{R}.copy().__ior__({{{k!r}: {v}}})'), ('copy', '{R}.copy().popitem()'),
    ('copy', '{R}.copy().__delitem__({k!r})'),
    ('new_child', '{R}.new_child().__setitem__({k!r}, {v})'), ('new_child', '{R}.new_child().clear()'),
    ('new_child', '{R}.new_child().pop({k!r}, None)'), ('new_child', '{R}.new_child({{}}).update({k}={v})'),
    ('new_child', '{R}.new_child().__ior__({{{k!r}: {v}}})'), ('new_child', '{R}.new_child().popitem()'),
    ('parents', '{R}.parents.clear()'), ('parents', '{R}.parents.pop({k!r}, None)'),
    ('parents', '{R}.parents.update({k}={v})'), ('parents', '{R}.parents.__ior__({{{k!r}: {v}}})'),
    ('parents', '{R}.parents.popitem()'), ('parents', '{R}.parents.__delitem__({k!r})'),
    ('parents', '{R}.parents.setdefault({k!r}, {v})'),
    ('fromkeys', '{R}.fromkeys([{k!r}], {v})'), ('fromkeys', '{R}.fromkeys([{k!r}]).clear()'),
]
NS_KEYS = ['a', 'L', 'n1', 'len', 'zz', '__builtins__']


def ns_method_case(method, template, receiver, key, value='b', prebind=False):
    src = template.format(R=receiver, k=key, v=value)
    if prebind:
        src = f'[({key} := {value}), {src}][1]'
    return {'kind': 'impl-only', 'method': method, 'raw': src,
            'ctx': [['a', tok('ctx', 'a')], ['b', tok('ctx', 'b')], ['len', tok('ctx', 'len')], ['L', ref(0)]],
            'heap': [{'l': [tok('ctx', 'L.0')]}]}


def run_impl_only(case):
    """One `!py` source string against a new Context (keys a, b, len, L; pyimport names n1 and the real
    `operator` module as c14op). Returns (observation, findings)."""
    import operator
    from pypyr.context import Context
    from pypyr.dsl import PyString
    w = World(case)
    context = Context(w.ctx)
    imps = {'n1': marker('imp', 'c14m1.n1'), 'c14op': operator}
    context.pystring_globals_update(imps)
    before = snapshot(context)
    before_map = dict(dict.items(context))
    try:
        PyString(case['raw']).get_value(context)
        obs = {'ok': True}
    except Exception as e:     # noqa: the expression's own exception is an observation
        obs = {'err': err_name(e)}
    findings = []
    after = snapshot(context)
    if after != before:
        findings.append((
            f"!py {case['raw']!r} changed the context: " + describe_change(before_map, context),
            {'site': '_EvalNamespace', 'route': 'namespace-object-method', 'method': case['method']},
            {'before': [k for k, _ in before], 'after': [k for k, _ in after], 'outcome': obs}))
    got = getattr(context, '_pystring_globals', None)
    if got is not None and [(k, id(v)) for k, v in got.items()] != [(k, id(v)) for k, v in imps.items()]:
        findings.append((
            f"!py {case['raw']!r} changed the pyimport namespace: now {sorted(got)}",
            {'site': '_EvalNamespace', 'route': 'namespace-object-method', 'method': case['method'],
             'effect': 'pyimport-namespace-changed'},
            {'before': sorted(imps), 'after': sorted(got), 'outcome': obs}))
    # and a later evaluation still reads every key and import
    for name, obj in list(before_map.items()) + [('n1', imps['n1'])]:
        if name in before_map and name not in dict.keys(context):
            continue
        try:
            v = PyString(name).get_value(context)
        except Exception as e:     # noqa
            v = e
        if v is not obj:
            findings.append((
                f"after !py {case['raw']!r} the name {name!r} no longer reads as before",
                {'site': '_EvalNamespace', 'route': 'namespace-object-method', 'method': case['method'],
                 'effect': 'later-read-differs'},
                {'name': name, 'outcome': obs}))
            break
    return obs, findings


# --------------------------------------------------------------------------
# IMPLEMENTATION-ONLY stream 2: a py block keeps a HELPER FUNCTION whose body calls save(...); the pipeline
# moves on (keys the block saved are cleared / rebound, contextclearall), later `!py helper(x)` expressions
# (or a kept reference) call the helper. Monitor from the property text, per CALL: the call adds / rebinds
# exactly the keys the helper passes to save(...); nothing is removed; a key removed or rebound since stays so.
# --------------------------------------------------------------------------

HELPER_VARS = ['acc', 'tmp', 'n', 'cfg']


def save_helper_case(rng):
    first = rng.sample(HELPER_VARS, rng.choice([1, 2, 3, 4]))
    hnames = rng.sample(HELPER_VARS, rng.choice([0, 0, 1, 2]))
    hkws = rng.sample(['last', 'count', 'n', 'tmp'], rng.choice([0, 1, 1, 2]))
    hkws = [k for k in hkws if k not in hnames]
    if not hnames and not hkws:
        hkws = ['count']
    kwsrc = {'last': 'v', 'count': 'len(acc)', 'n': 'len(acc) + 1', 'tmp': 'v'}
    args = [repr(n) for n in hnames] + [f'{k}={kwsrc[k]}' for k in hkws]
    block = ('acc = []\ntmp = b\nn = 0\ncfg = [a]\n\n'
             'def h(v):\n    acc.append(v)\n    save(' + ', '.join(args) + ')\n    return v\n\n'
             'save(' + ', '.join(repr(x) for x in ['h'] + first) + ')\n')
    steps = []
    live = ['h'] + first + ['a', 'b', 'len', 'L']
    for _ in range(rng.choice([2, 3, 4, 5, 6])):
        x = rng.random()
        if x < 0.3:
            steps.append(['del', rng.sample(live, min(len(live), rng.choice([1, 1, 2])))])
        elif x < 0.5:
            steps.append(['set', rng.sample(first + ['h', 'a', 'count', 'last'], rng.choice([1, 2]))])
        elif x < 0.56:
            steps.append(['clearall'])
        else:
            steps.append(['call', rng.choice(['py', 'py', 'ref'])])
    steps.append(['call', 'py'])
    return {'kind': 'impl-only-save', 'method': 'helper-save', 'block': block, 'given': hnames + hkws, 'steps': steps,
            'ctx': [['a', tok('ctx', 'a')], ['b', tok('ctx', 'b')], ['len', tok('ctx', 'len')], ['L', ref(0)]],
            'heap': [{'l': [tok('ctx', 'L.0')]}]}


SAVE_HELPER_DIRECTED = [
    # the pipeline of the property text: set-up block, contextclear of a saved key, set of another, helper called
    (['acc', 'tmp'], [['del', ['tmp']], ['set', ['acc']], ['call', 'py'], ['call', 'py']], "save(count=len(acc))"),
    (['acc', 'tmp', 'n'], [['call', 'py'], ['del', ['tmp', 'n']], ['call', 'ref'], ['set', ['h']], ['call', 'ref']],
     "save('n', last=v)"),
    (['cfg'], [['clearall'], ['call', 'ref'], ['call', 'ref']], "save(last=v)"),
    (['acc', 'n', 'cfg'], [['set', ['n', 'cfg']], ['call', 'py'], ['del', ['acc']], ['call', 'py']], "save('tmp')"),
]


def save_helper_directed():
    out = []
    for first, steps, call in SAVE_HELPER_DIRECTED:
        block = ('acc = []\ntmp = b\nn = 0\ncfg = [a]\n\n'
                 'def h(v):\n    acc.append(v)\n    ' + call + '\n    return v\n\n'
                 'save(' + ', '.join(repr(x) for x in ['h'] + first) + ')\n')
        given = [x for x in ('n', 'tmp', 'last', 'count') if (repr(x) in call or x + '=' in call)]
        out.append({'kind': 'impl-only-save', 'method': 'helper-save', 'block': block, 'given': given, 'steps': steps,
                    'ctx': [['a', tok('ctx', 'a')], ['b', tok('ctx', 'b')], ['len', tok('ctx', 'len')], ['L', ref(0)]],
                    'heap': [{'l': [tok('ctx', 'L.0')]}]})
    return out


def run_save_helper(case):
    """Returns (observation, findings)."""
    from pypyr.context import Context
    from pypyr.dsl import PyString
    import pypyr.steps.py as pystep
    import pypyr.steps.contextclearall as clearallstep
    w = World(case)
    context = Context(w.ctx)
    context['py'] = case['block']
    findings = []
    sig = {'site': 'py.get_save', 'route': 'helper-function-calls-save-later',
           'monitor': 'save-call-writes-only-its-arguments'}
    try:
        pystep.run_step(context)
    except Exception as e:     # noqa
        return {'err': err_name(e)}, findings
    del context['py']
    h = dict.get(context, 'h')
    if not callable(h):
        return {'err': 'helper-not-saved'}, findings
    given = set(case['given'])
    calls = 0
    serial = 0
    for st in case['steps']:
        if st[0] == 'del':
            for k in st[1]:
                if k in context:
                    del context[k]
        elif st[0] == 'set':
            for k in st[1]:
                serial += 1
                context[k] = marker('ctx', f'{k}#{serial}')
        elif st[0] == 'clearall':
            clearallstep.run_step(context)
        else:
            before_map = dict(dict.items(context))
            via = st[1]
            try:
                if via == 'py' and dict.get(context, 'h') is h:
                    arg = 'b' if 'b' in context else '0'
                    PyString(f'h({arg})').get_value(context)
                else:
                    via = 'ref'
                    h(marker('ctx', f'arg#{calls}'))
                out = 'ok'
            except Exception as e:     # noqa
                out = err_name(e)
            calls += 1
            after_map = dict(dict.items(context))
            bad = []
            for k in before_map:
                if k not in after_map:
                    bad.append(f'key {k!r} removed')
                elif after_map[k] is not before_map[k] and k not in given:
                    bad.append(f'key {k!r} rebound')
            for k in after_map:
                if k not in before_map and k not in given:
                    bad.append(f'key {k!r} (re-)added')
            if bad:
                findings.append((
                    f"call #{calls} of a helper function a py block left in context (its body: save({', '.join(sorted(given))})"
                    f"), {'from a !py expression' if via == 'py' else 'through a kept reference'}: context keys that were "
                    f"not passed to that save(...) call changed: {', '.join(bad[:6])}",
                    dict(sig, effect='added' if any('added' in b for b in bad) else 'rebound-or-removed'),
                    {'before': list(before_map), 'after': list(after_map), 'given': sorted(given), 'outcome': out}))
                break
    return {'ok': True, 'calls': calls}, findings


# --------------------------------------------------------------------------
# M12: save(...) binds THE IDENTICAL OBJECT it was given (identity and type) - whatever the key held before
# --------------------------------------------------------------------------

_MISSING = object()


def _relation(cur, v):
    """How the value passed to save relates to what the key held just before the call."""
    if cur is _MISSING:
        return 'key-was-absent'
    if cur is v:
        return 'identical'
    try:
        eq = bool(cur == v)
    except Exception:     # noqa
        eq = False
    if not eq:
        return 'unequal'
    return 'equal-distinct-object-same-type' if type(cur) is type(v) else 'equal-other-type'


def identity_checked_save(f, context, namespace, findings, log=None):
    """Instrumentation from outside: the `save` function `get_save(context, namespace)` made, wrapped so that right
    after every successful call the monitor (written from the property text: "...rebinds a context key ... what a py
    block passes explicitly to save(...)") checks by id() and type() that each keyword key holds THE object passed
    and each positional name THE object the block's namespace binds."""
    def save(*args, **kwargs):
        before = {}
        for k in list(args) + list(kwargs):
            if isinstance(k, str):
                before[k] = dict.get(context, k, _MISSING)
        f(*args, **kwargs)
        want = {}
        for n in args:
            if isinstance(n, str) and n in namespace:
                want[n] = namespace[n]
        want.update(kwargs)
        if log is not None:
            log.append(sorted(want))
        for k, v in want.items():
            got = dict.get(context, k, _MISSING)
            if got is not v:
                rel = _relation(before.get(k, _MISSING), v)
                findings.append((
                    f"save(...) was given {type(v).__name__} object {v!r:.80} for key {k!r} "
                    f"(the key held {'nothing' if before.get(k, _MISSING) is _MISSING else repr(before[k])[:80]} "
                    f"of type {type(before.get(k)).__name__ if before.get(k, _MISSING) is not _MISSING else '-'}): afterwards "
                    f"context[{k!r}] is {'missing' if got is _MISSING else 'not that object (type ' + type(got).__name__ + ')'}"
                    " - an explicit save is not carried out",
                    {'site': 'py.get_save', 'monitor': 'save-binds-the-identical-object', 'relation': rel,
                     'form': 'keyword' if k in kwargs else 'name'},
                    {'key': k, 'passed_type': type(v).__name__,
                     'context_type': None if got is _MISSING else type(got).__name__, 'relation': rel}))
                break
    save.__qualname__ = 'get_save.<locals>.save'
    return save


def tdump(v, seen, depth=0):
    """Type-sensitive dump: type names everywhere, mutable containers numbered by first appearance."""
    if depth > 8:
        return ['deep']
    t = type(v).__name__
    if isinstance(v, (list, dict, set, bytearray)):
        if id(v) in seen:
            return [t, 'seen', seen[id(v)]]
        seen[id(v)] = len(seen)
        if isinstance(v, dict):
            return [t, seen[id(v)], [[tdump(k, seen, depth + 1), tdump(x, seen, depth + 1)] for k, x in v.items()]]
        if isinstance(v, (set, bytearray)):
            return [t, seen[id(v)], repr(sorted(v, key=repr))]
        return [t, seen[id(v)], [tdump(x, seen, depth + 1) for x in v]]
    if isinstance(v, tuple):
        return [t, [tdump(x, seen, depth + 1) for x in v]]
    if isinstance(v, types.FunctionType):
        return ['function']
    return [t, repr(v)]


# (source of the value the key holds before, source of the value saved (K = the key's current value), in-place
#  change of the saved object afterwards or None)
SAVEID_PAIRS = [
    ('[1, 2]', 'list(K)', 'T.append(3)'), ("{'p': 1}", 'dict(K)', "T['z'] = 9"), ('[[1], 2]', 'list(K)', 'T[0] = 7'),
    ('{1, 2}', 'set(K)', 'T.add(3)'), ('[]', '[]', 'T.append(0)'), ('{}', '{}', "T['k'] = K"),
    ('[1, 2]', 'K', 'T.append(3)'), ('[1, 2]', 'K + []', 'T.insert(0, 0)'), ('(1, [2])', '(1, [2])', 'T[1].append(5)'),
    ("{'p': [1]}", "__import__('copy').deepcopy(K)", "T['p'].append(2)"),
    ("{'p': 1}", "__import__('collections').OrderedDict(K)", "T['q'] = 2"),
    ('bytearray(b"ab")', 'bytes(K)', None), ('b"ab"', 'bytearray(K)', 'T.append(99)'),
    ('frozenset({1})', '{1}', 'T.add(2)'), ('{1}', 'frozenset(K)', None),
    ('1', '1.0', None), ('1.0', '1', None), ('1', 'True', None), ('True', '1', None), ('True', '1.0', None),
    ('0', 'False', None), ('False', '0', None), ('0', '0.0', None), ('0.0', '-0.0', None), ('False', '0.0', None),
    ('0', '0j', None), ('2**70', 'float(2**70)', None), ('1', "__import__('fractions').Fraction(1)", None),
    ('1', "__import__('decimal').Decimal(1)", None),
    ("''", 'str()', None), ("'ab'", "''.join(['a', 'b'])", None), ('()', 'tuple([])', None),
    ('(1, 2)', 'tuple([1, 2])', None), ('None', 'None', None), ("float('nan')", "float('nan')", None),
    ("float('nan')", 'K', None), ('[float("nan")]', 'list(K)', 'T.append(1)'),
    ('0', "''", None), ('[]', '()', None), ('0', 'None', None), ("''", '[]', 'T.append(1)'), ('1', '2', None),
    ('[1]', '[1, 2]', 'T.append(3)'), ('range(3)', 'range(0, 3)', None), ('range(0)', 'range(5, 5)', None),
]
SAVEID_FORMS = ['kw', 'name', 'helper', 'twice', 'dictsplat', 'later']


def saveid_block(key, pair, form):
    cur, saved, mut = pair
    saved = saved.replace('K', key)
    mut = mut.replace('T', 't').replace('K', key) if mut else 'pass'
    if form == 'kw':
        return f't = {saved}\nsave({key}=t, holder=t)\n{mut}\n'
    if form == 'name':
        return f'old = {key}\n{key} = {saved}\nt = {key}\nsave({key!r})\nsave(holder=t)\n{mut}\n'
    if form == 'helper':
        return f't = {saved}\n\ndef put(v):\n    save({key}=v)\n\nput(t)\nsave(holder=t)\n{mut}\n'
    if form == 'twice':
        return f't = {saved}\nsave({key}={key})\nsave({key}=t)\nsave({key}=t, holder=t)\n{mut}\n'
    if form == 'dictsplat':
        return f't = {saved}\nsave(**{{{key!r}: t, "holder": t}})\n{mut}\n'
    return f't = {saved}\nsave("save", "t")\n'       # 'later': the kept save function is called after the block


def saveid_cases(rng, n_random):
    out = []
    keys = ['acc', 'n', 'flag']
    i = 0
    for pair in SAVEID_PAIRS:                 # directed: every pair, forms in rotation; every form on the first pairs
        forms = SAVEID_FORMS if i < 4 else [SAVEID_FORMS[i % len(SAVEID_FORMS)], 'kw']
        for form in dict.fromkeys(forms):
            out.append({'kind': 'impl-only-saveid', 'method': 'save-identity:' + form, 'key': keys[i % 3],
                        'pair': list(pair), 'form': form, 'others': [['other', SAVEID_PAIRS[(i + 5) % 20][0]]],
                        'alias': i % 4 == 1})
        i += 1
    for _ in range(n_random):
        pair = rng.choice(SAVEID_PAIRS)
        if rng.random() < 0.3:                # any two sources against each other
            pair = (rng.choice(SAVEID_PAIRS)[0], rng.choice(SAVEID_PAIRS)[0], None)
        form = rng.choice(SAVEID_FORMS)
        out.append({'kind': 'impl-only-saveid', 'method': 'save-identity:' + form, 'key': rng.choice(keys),
                    'pair': list(pair), 'form': form,
                    'others': [[k, rng.choice(SAVEID_PAIRS)[0]] for k in rng.sample(['other', 'x', 'y'], rng.choice([0, 1, 2]))],
                    'alias': rng.random() < 0.25})
    return out


def run_saveid(case):
    """A real py step whose block saves, for a key the context already has, a value built from the table above; the
    identity monitor M12 on every save call; then type-sensitive reads through `!py` and the comparison of the
    whole context (types, aliasing, contents after the in-place change) with what plain Python exec gives."""
    from pypyr.context import Context
    from pypyr.dsl import PyString
    import pypyr.steps.py as pystep
    key, pair, form = case['key'], tuple(case['pair']), case['form']
    findings = []

    def world():
        d = {key: eval(pair[0], {})}
        for k, srcv in case['others']:
            d[k] = eval(srcv, {})
        if case.get('alias'):
            d['same'] = d[key]
        return d
    block = saveid_block(key, pair, form)
    context = Context(world())
    context['py'] = block
    sig = {'site': 'py.get_save', 'monitor': 'save-then-read-vs-plain-exec', 'form': form}
    # plain Python on an independent world
    ctx2 = world()
    g = dict(ctx2)
    g['__builtins__'] = builtins.__dict__

    def psave(*args, **kwargs):
        d = {}
        for a in args:
            d[a] = g[a]
        d.update(**kwargs)
        ctx2.update(d)
    g['save'] = psave
    try:
        exec(block, g)
        pres = 'ok'
    except Exception as e:     # noqa
        pres = err_name(e)
    orig_get_save = pystep.get_save
    box = []

    def spy(c, ns):
        f = orig_get_save(c, ns)
        w = identity_checked_save(f, c, ns, findings)
        box.append((w, ns))
        return w
    pystep.get_save = spy
    try:
        pystep.run_step(context)
        res = 'ok'
    except Exception as e:     # noqa
        res = err_name(e)
    finally:
        pystep.get_save = orig_get_save
    del context['py']
    if form == 'later' and res == 'ok' and box:
        # the kept function, called when the block is over: from a !py expression and through the reference
        for k2, ctxd, caller in ((key, context, None), (key, ctx2, psave)):
            t = ctxd.get('t')
            try:
                if caller is None:
                    PyString(f'save({key}=t, holder=t)').get_value(context)
                else:
                    caller(**{key: t, 'holder': t})
            except Exception as e:     # noqa
                res = res if caller else err_name(e)
        for d in (context, ctx2):
            d.pop('save', None)
            mut = pair[2]
            if mut:
                try:
                    exec(mut.replace('T', 't').replace('K', key), {'t': d['t'], key: d[key]})
                except Exception:     # noqa
                    pass
    if findings:
        return ({'ok': True} if res == 'ok' else {'err': res}), findings
    reads = {}
    for name, d in (('impl', context), ('plain', ctx2)):
        r = []
        for k in (key, 'holder'):
            for q in (f'type({k}).__name__', f'repr({k})', f'{k} is holder', f'{k} is same' if case.get('alias') else '0'):
                try:
                    r.append(PyString(q).get_value(context) if name == 'impl' else eval(q, dict(d)))
                except Exception as e:     # noqa
                    r.append(err_name(e))
        reads[name] = r
    got = {'res': res, 'ctx': [[k, tdump(v, s)] for s in [{}] for k, v in dict.items(context)], 'reads': reads['impl']}
    exp = {'res': pres, 'ctx': [[k, tdump(v, s)] for s in [{}] for k, v in ctx2.items()], 'reads': reads['plain']}
    if got != exp:
        bad = [k for (k, a), (k2, b) in zip(got['ctx'], exp['ctx']) if a != b or k != k2]
        findings.append((
            f"py block {block!r} on context {{{key!r}: {pair[0]}}}: after the step (and the in-place change of the saved "
            f"object) the context / the type-sensitive reads type({key}).__name__, repr({key}), {key} is holder differ from "
            f"plain Python exec with save() copying back: keys {bad[:4]}, reads {got['reads']} vs {exp['reads']}",
            dict(sig, effect='outcome' if got['res'] != exp['res'] else ('reads' if got['reads'] != exp['reads'] else 'context-after')),
            {'impl': got, 'plain': exp}))
    return {'ok': True} if res == 'ok' else {'err': res}, findings


def expect_map(expect, before_map, context):
    """key -> object for the expected snapshot (ids resolved against what is known)."""
    by_id = {id(v): v for v in list(before_map.values()) + list(dict.values(context))}
    return [(k, by_id.get(i)) for k, i in expect]


def plain_exec(w, src, before_map):
    """What plain Python gives for a py block: `exec` with a dict copy of the context as globals (plus
    builtins and a `save` that copies the named globals / keyword values back) — run on a DEEP COPY of the
    context's world (marker objects and modules are themselves in the copy, lists are copied with their
    aliasing), so the block's in-place mutations do not reach the real run. Returns the outcome and the dump
    of the copied context afterwards; dumps number mutable objects by first appearance, so the copied world
    and the real one dump alike exactly when they are isomorphic."""
    try:
        ctx2 = copy.deepcopy(before_map)
    except Exception:      # noqa
        return None
    g = dict(ctx2)
    g['__builtins__'] = builtins.__dict__

    def save(*args, **kwargs):
        d = {}
        for a in args:
            d[a] = g[a]
        d.update(**kwargs)
        ctx2.update(d)
    save.__qualname__ = 'get_save.<locals>.save'
    g['save'] = save
    try:
        exec(src, g)
        res = {'ok': None}
    except Exception as e:     # noqa
        res = {'err': err_name(e)}
    return {'res': res, 'ctx': w.dump_env(ctx2, {})}


def describe_change(before_map, context):
    after = dict(dict.items(context))
    out = []
    for k in after:
        if k not in before_map:
            out.append(f'key {k!r} added')
        elif after[k] is not before_map[k]:
            out.append(f'key {k!r} rebound')
    for k in before_map:
        if k not in after:
            out.append(f'key {k!r} removed')
    if not out:
        out.append('key order changed')
    return ', '.join(out[:6])


# --------------------------------------------------------------------------
# generator
# --------------------------------------------------------------------------

PLAIN_KEYS = ['a', 'b', 'c', 'd', 'y']
SHADOW_KEYS = ['len', 'list', 'id']
SEQ_KEYS = ['T', 'U']
LIST_KEYS = ['L', 'obs']
IMPORTABLE = ['n1', 'n2', 'len', 'a', 'T', 'y']
LOCALS = ['x', 'y', 'z', 'w', 'p', 'q', 'i', 'j']
FN_NAMES = ['f', 'g', 'h']
RESERVED_RARE = ['save', '__builtins__', 'py']
ALL_NAMES = sorted(set(PLAIN_KEYS + SHADOW_KEYS + SEQ_KEYS + LIST_KEYS + IMPORTABLE + LOCALS + FN_NAMES
                       + RESERVED_RARE + ['Cq', 'n1', 'n2', 'c14m1', 'c14m2', 'pyImport', 'r0', 'r1', 'r2']))


class Gen:
    def __init__(self, rng):
        self.rng = rng

    # ---- contexts ----
    def context(self, with_py):
        r = self.rng
        heap = []
        ctx = []
        keys = []
        for k in PLAIN_KEYS:
            if r.random() < 0.7:
                keys.append(k)
        for k in SHADOW_KEYS:
            if r.random() < 0.35:
                keys.append(k)
        for k in SEQ_KEYS + LIST_KEYS:
            if r.random() < 0.8:
                keys.append(k)
        for k in LOCALS[:4] + ['n1', 'f']:
            if r.random() < 0.12:
                keys.append(k)
        if r.random() < 0.04:
            keys.append(r.choice(['save', '__builtins__']))
        keys = list(dict.fromkeys(keys))
        r.shuffle(keys)

        def seq_cell(k, as_list):
            n = r.choice([0, 1, 2, 2, 3])
            items = []
            for i in range(n):
                x = r.random()
                if x < 0.8:
                    items.append(tok('ctx', f'{k}.{i}'))
                elif x < 0.9:
                    items.append(r.choice([0, 1, 7]))
                else:
                    items.append(None)
            heap.append({'l': items} if as_list else {'t': items})
            return ref(len(heap) - 1)

        for k in keys:
            if k in SEQ_KEYS:
                v = seq_cell(k, False) if r.random() < 0.85 else seq_cell(k, True)
            elif k in LIST_KEYS:
                # aliasing: sometimes the same list object under two keys
                prev = [v for kk, v in ctx if kk in LIST_KEYS and isinstance(v, dict) and 'ref' in v]
                if prev and r.random() < 0.3:
                    v = prev[0]
                else:
                    v = seq_cell(k, True)
            else:
                x = r.random()
                if x < 0.78:
                    v = tok('ctx', k)
                elif x < 0.86:
                    v = seq_cell(k, False)
                elif x < 0.92:
                    v = seq_cell(k, True)
                elif x < 0.96:
                    v = r.choice([0, 1, 5])
                else:
                    v = None
            ctx.append([k, v])
        if with_py:
            pos = r.randrange(len(ctx) + 1)
            ctx.insert(pos, ['py', tok('special', 'py')])
        return ctx, heap

    # ---- expressions ----
    def name(self, sc):
        r = self.rng
        x = r.random()
        if x < 0.55 and sc['ctxkeys']:
            return r.choice(sc['ctxkeys'])
        if x < 0.75 and sc['bound']:
            return r.choice(sc['bound'])
        if x < 0.83:
            return r.choice(SHADOW_KEYS)
        if x < 0.90 and sc['imports']:
            return r.choice(sc['imports'])
        if x < 0.985:
            return r.choice(PLAIN_KEYS + LOCALS + SEQ_KEYS)
        return r.choice(RESERVED_RARE)

    def seqname(self, sc):
        r = self.rng
        cands = [k for k in sc['ctxkeys'] if k in SEQ_KEYS + LIST_KEYS]
        if cands and r.random() < 0.8:
            return N(r.choice(cands))
        if r.random() < 0.6:
            return T(*[N(self.name(sc)) for _ in range(r.choice([1, 2, 2, 3]))])
        return N(self.name(sc))

    def expr(self, sc, depth):
        """sc: dict(ctxkeys, bound, imports, iters, in_comp, in_iter, in_cls, top, func)."""
        r = self.rng
        x = r.random()
        if depth <= 0 or x < 0.30:
            return N(self.name(sc))
        if x < 0.34:
            return C(r.choice([0, 1, 2, 9]))
        y = r.random()
        if y < 0.035:
            # a generator object as a value (its body runs when somebody pulls)
            return self.genobj(sc, depth)
        if y < 0.07:
            gens = [k for k in sc.get('gens', []) if k in sc['ctxkeys'] or k in sc['bound']]
            if gens and r.random() < 0.6:
                return Drain(N(r.choice(gens)))
            if r.random() < 0.5:
                return Drain(self.genobj(sc, depth))
            return Drain(self.seqname(sc))
        if y < 0.10:
            return self.nsop(sc, depth)
        can_walrus = not sc['in_iter'] and not (sc['in_comp'] and sc['in_cls'])
        if x < 0.46 and can_walrus:
            cands = [n for n in LOCALS[:4] + PLAIN_KEYS[:3] + SHADOW_KEYS[:1] + sc['ctxkeys'][:2]
                     if n not in sc['iters'] and n != '__builtins__']
            if cands:
                t = r.choice(cands)
                e = self.expr(dict(sc, top=False), depth - 1)
                sc['bound'].append(t)
                return W(t, e)
        if x < 0.62:
            n = r.choice([0, 1, 2, 2, 3])
            return T(*[self.expr(dict(sc, top=sc['top']), depth - 1) for _ in range(n)])
        if x < 0.76:
            return self.comp(sc, depth)
        if x < 0.88:
            ps = r.sample(LOCALS + PLAIN_KEYS[:2] + SHADOW_KEYS[:1], r.choice([0, 1, 1, 2]))
            inner = dict(sc, bound=sc['bound'] + ps, iters=[], in_comp=False, in_cls=False,
                         top=False, func=True)
            body = self.expr(inner, depth - 1)
            lam = Lam(ps, body)
            if r.random() < 0.12:
                return lam
            nargs = len(ps) if r.random() < 0.93 else len(ps) + 1
            return Call(lam, *[self.expr(dict(sc, top=False), depth - 2) for _ in range(nargs)])
        if x < 0.93:
            f = N(r.choice(sc['fns'])) if sc['fns'] and r.random() < 0.85 else N(self.name(sc))
            n = r.choice([0, 1, 1, 2])
            return Call(f, *[self.expr(dict(sc, top=False), depth - 2) for _ in range(n)])
        if sc['top']:
            tgt = [k for k in sc['ctxkeys'] if k in LIST_KEYS]
            t = N(r.choice(tgt)) if tgt and r.random() < 0.85 else N(self.name(sc))
            if r.random() < 0.25:
                return SetI(t, r.choice([0, 0, 1, 2]), self.expr(dict(sc, top=False), depth - 1))
            return App(t, self.expr(dict(sc, top=False), depth - 1))
        return N(self.name(sc))

    def nsop(self, sc, depth):
        """A call of one of the namespace object's own methods; keys prefer names that are context keys, names
        the expression bound itself, pyimport names."""
        r = self.rng
        m = r.choice(NS_METHODS)
        pool = sc['ctxkeys'][:4] + sc['bound'][-3:] + sc['imports'][:2] + ['zz', 'a', 'len']
        pool = [k for k in pool if k != '__builtins__' and k.isidentifier()]
        k = r.choice(pool)
        modlevel = not sc['func'] and not sc['in_comp'] and not sc['in_cls']
        via = 'l' if modlevel and r.random() < 0.35 else 'g'
        e = self.expr(dict(sc, top=False), min(depth - 1, 1)) if m in NS_WITH_ARG else None
        if m in ('setdefault', 'update', 'setitem', 'ior'):
            sc['bound'].append(k)
        return Ns(m, k, e, via)

    def genobj(self, sc, depth):
        c = self.comp(sc, depth)['comp']
        return {'gen': {'elt': c['elt'], 'cl': c['cl']}}

    def comp(self, sc, depth):
        r = self.rng
        ncl = r.choice([1, 1, 2, 2, 3])
        gen = r.random() < 0.3
        targets = [r.choice(['i', 'j', 'x', 'y', 'z', 'a', 'len']) for _ in range(ncl)]
        iters = targets + sc['iters']
        clauses = []
        bound = list(sc['bound'])
        for n, t in enumerate(targets):
            isc = dict(sc, bound=bound, iters=iters, in_comp=True, in_iter=True, top=False)
            it = self.seqname(isc) if r.random() < 0.85 else self.expr(isc, depth - 2)
            bound = bound + [t]
            conds = []
            if r.random() < 0.3:
                csc = dict(sc, bound=bound, iters=iters, in_comp=True, top=False)
                conds.append(self.expr(csc, min(depth - 1, 1)) if r.random() < 0.7 else C(r.choice([0, 1, 1])))
            clauses.append((t, it, conds))
        esc = dict(sc, bound=bound, iters=iters, in_comp=True, top=False)
        elt = self.expr(esc, depth - 1)
        return Comp(elt, clauses, gen)

    def scope(self, ctxkeys, imports, fns=(), bound=(), gens=()):
        return dict(ctxkeys=list(ctxkeys), bound=list(bound), imports=list(imports), iters=[], in_comp=False,
                    in_iter=False, in_cls=False, top=True, func=False, fns=list(fns), gens=list(gens))

    # ---- statements ----
    def block(self, ctxkeys, imports):
        r = self.rng
        sc = self.scope(ctxkeys, imports)
        stmts = []
        n = r.choice([2, 3, 4, 5, 6, 8])
        for _ in range(n):
            x = r.random()
            if x < 0.22:
                t = r.choice([k for k in LOCALS[:4] + sc['ctxkeys'][:3] + sc['imports'][:2] + ['r0', 'r1', 'len']
                              if k != '__builtins__'])
                stmts.append(As(t, self.expr(sc, 3)))
                sc['bound'].append(t)
            elif x < 0.32:
                t = r.choice(sc['ctxkeys'] + sc['bound']) if (sc['ctxkeys'] or sc['bound']) else 'x'
                t = 'x' if t == '__builtins__' else t
                e = self.seqname(sc) if r.random() < 0.6 else self.expr(sc, 2)
                stmts.append(Aug(t, e))
            elif x < 0.38:
                t = r.choice(sc['ctxkeys'] + sc['bound'] + ['x']) if r.random() < 0.9 else r.choice(['save', 'py'])
                t = 'x' if t == '__builtins__' else t
                stmts.append(Del(t))
            elif x < 0.46:
                stmts.append(Imp(self.import_spec(sc['ctxkeys'] + sc['bound'] + sc['imports'])))
                sc['imports'].append(stmts[-1]['imp'][0])
            elif x < 0.58:
                f = r.choice(FN_NAMES)
                ps = r.sample(LOCALS + PLAIN_KEYS[:2], r.choice([0, 1, 1, 2]))
                gl = [g for g in r.sample(PLAIN_KEYS + ['x', 'r0'], r.choice([0, 0, 1, 1, 2])) if g not in ps]
                inner = dict(sc, bound=sc['bound'] + ps, top=False, func=True)
                body = []
                for _ in range(r.choice([0, 0, 1, 2])):
                    t = r.choice(gl + LOCALS[:4]) if gl and r.random() < 0.6 else r.choice(LOCALS[:4] + PLAIN_KEYS[:2])
                    body.append((t, self.expr(inner, 2)))
                    inner['bound'].append(t)
                stmts.append(Def(f, ps, body, self.expr(inner, 3), gl))
                sc['fns'].append(f)
            elif x < 0.64:
                cb = []
                csc = dict(sc, in_cls=True, top=False, bound=list(sc['bound']))
                for _ in range(r.choice([0, 1, 2, 3])):
                    t = r.choice(['m', 'k'] + PLAIN_KEYS[:2])
                    cb.append((t, self.expr(csc, 2)))
                    csc['bound'].append(t)
                stmts.append(Cls('Cq', cb))
                sc['bound'].append('Cq')
            elif x < 0.80:
                tgt = [k for k in sc['ctxkeys'] if k in LIST_KEYS]
                if tgt and r.random() < 0.2:
                    stmts.append(SetS(N(r.choice(tgt + sc['ctxkeys'][:1])), r.choice([0, 0, 1, 2]),
                                      self.expr(dict(sc, top=False), 2)))
                elif tgt and r.random() < 0.8:
                    stmts.append(Ex(App(N(r.choice(tgt)), self.expr(dict(sc, top=False), 3))))
                else:
                    stmts.append(Ex(self.expr(sc, 3)))
            else:
                stmts.append(self.save_stmt(sc))
        if r.random() < 0.6:
            stmts.append(self.save_stmt(sc))
        return stmts

    def save_stmt(self, sc):
        r = self.rng
        cands = [n for n in (sc['bound'] + sc['ctxkeys'] + sc['fns'] + sc['imports'])
                 if n not in ('py', 'pyImport')]
        names = []
        for _ in range(r.choice([0, 1, 1, 2])):
            x = r.random()
            if cands and x < 0.9:
                names.append(r.choice(cands))
            elif x < 0.96:
                names.append(r.choice(LOCALS))
            else:
                names.append(r.choice(['save', '__builtins__']))
        kws = []
        for k in r.sample(['r0', 'r1', 'r2', 'a', 'x', 'len'], r.choice([0, 0, 1, 2])):
            kws.append((k, self.expr(dict(sc, top=False), 2)))
        return Save(names, kws)

    def import_spec(self, prefer=()):
        r = self.rng
        mod = r.choice(MODS)
        aliases = [None, None, 'a', 'x', 'len', 'y']
        prefer = [p for p in prefer if p.isidentifier() and not p.startswith('__')
                  and p not in ('py', 'pyImport', 'save', 'set', 'i')]
        if prefer and r.random() < 0.5:
            # NAME COLLISION: the alias is a name that is (or was, or will be) a context key / a bound name
            aliases = [r.choice(prefer)]
        if r.random() < 0.3:
            return ('import', mod, r.choice([None, 'a', 'x', 'len', 'n1'] if len(aliases) > 1 else aliases))
        return ('from', mod, r.choice(IMPORTABLE), r.choice(aliases))

    # ---- sessions ----
    def probe(self, names):
        """`(x, (lambda: x)(), [x for i in (0,)], …)`: the same names read at top level, from a function
        scope and from a comprehension."""
        r = self.rng
        xs = r.sample(names, min(len(names), r.choice([1, 1, 2, 3])))
        parts = []
        for x in xs:
            parts.append(N(x))
            y = r.random()
            if y < 0.5:
                parts.append(Call(Lam([], N(x))))
            elif y < 0.7:
                parts.append(Comp(N(x), [('i', T(C(0)), [])], gen=r.random() < 0.5))
        return T(*parts)

    def mixed(self):
        """Several evaluations / py blocks / pyimports on ONE Context with context updates, deletions,
        contextclearall and rehydration of the Context object in between. Names an earlier expression bound
        with := are preferred for later reads, later context keys and later imports."""
        r = self.rng
        ctx, heap = self.context(with_py=False)
        keys = [k for k, _ in ctx]
        ops = []
        imports = []
        hist = []          # names bound by := in earlier evaluations, imported or deleted earlier
        deep = False       # the Context was pickled / deep-copied: heap cells of the case are stale
        serial = [0]
        fns = []           # context keys that hold a function object (set: k: !py lambda …; save('f'))
        gens = []          # context keys that hold a generator object

        def fresh_val(k):
            x = r.random()
            serial[0] += 1
            if x < 0.7:
                return tok('ctx', f'{k}#{serial[0]}')
            if x < 0.8 and heap and not deep:
                return ref(r.randrange(len(heap)))
            if x < 0.9:
                return r.choice([0, 1, 5])
            return None

        def add(k):
            if k not in keys:
                keys.append(k)

        for _ in range(r.choice([3, 4, 5, 6, 7])):
            x = r.random()
            if x < 0.10:
                # set: k: !py <a lambda / generator object / anything> — kept in the context, run later
                k = r.choice(['f', 'g', 'h', 'k'] + keys[:2])
                if k in ('py', 'pyImport', 'set', '__builtins__'):
                    k = 'f'
                e, what = self.deferred_value(self.scope(keys, imports, fns=fns, bound=hist, gens=gens))
                ops.append({'evalset': [k, e]})
                add(k)
                for lst in (fns, gens):
                    if k in lst:
                        lst.remove(k)
                if what == 'fn':
                    fns.append(k)
                elif what == 'gen':
                    gens.append(k)
                continue
            if x < 0.17:
                live = [g for g in gens if g in keys]
                sc = self.scope(keys, imports, fns=fns, bound=hist, gens=gens)
                y = r.random()
                if live and y < 0.45:
                    e = N(r.choice(live))
                elif y < 0.85:
                    e = self.genobj(sc, r.choice([1, 2, 2]))
                else:
                    e = self.expr(sc, 2)
                ops.append({'foreach': e})
                add('i')
                continue
            if x < 0.45:
                names = list(dict.fromkeys(hist + imports + keys[:4]))
                live_f = [f for f in fns if f in keys]
                live_g = [g for g in gens if g in keys]
                y = r.random()
                if live_f and y < 0.3:
                    e = T(*[Call(N(f)) for f in r.sample(live_f, min(len(live_f), r.choice([1, 1, 2])))])
                elif live_g and y < 0.45:
                    e = Drain(N(r.choice(live_g)))
                elif names and y < 0.6:
                    e = self.probe(names)
                else:
                    e = self.expr(self.scope(keys, imports, fns=fns, bound=hist, gens=gens), r.choice([1, 2, 3, 3]))
                ops.append({'eval': e})

                def f(kind, node, scope, in_comp):
                    if kind == 'walrus' and node['w'][0] not in hist:
                        hist.append(node['w'][0])
                walk_expr(e, f)
            elif x < 0.57:
                specs = [self.import_spec(hist) for _ in range(r.choice([1, 1, 2]))]
                ops.append({'ctxset': [['pyImport', tok('special', 'pyImport')]]})
                add('pyImport')
                ops.append({'pyimport': pyimport_bindings(specs), 'specs': [list(s) for s in specs]})
                for b in ops[-1]['pyimport']:
                    if b[0] not in imports:
                        imports.append(b[0])
            elif x < 0.69:
                kind = r.choice(['pickle', 'pickle', 'deepcopy', 'deepcopy', 'copy'])
                ops.append({'rehydrate': kind})
                deep = deep or kind != 'copy'
            elif x < 0.81:
                cands = hist + hist + keys + imports + SHADOW_KEYS + PLAIN_KEYS
                ks = list(dict.fromkeys(r.choice(cands) for _ in range(r.choice([1, 1, 2, 3]))))
                ks = [k for k in ks if k not in ('py', 'pyImport')]
                if ks:
                    ops.append({'ctxset': [[k, fresh_val(k)] for k in ks]})
                    for k in ks:
                        add(k)
            elif x < 0.86:
                if keys:
                    ks = list(dict.fromkeys(r.choice(keys + hist) for _ in range(r.choice([1, 1, 2]))))
                    ops.append({'ctxdel': ks})
                    for k in ks:
                        if k in keys:
                            keys.remove(k)
                            hist.append(k)
            elif x < 0.89:
                ops.append({'clearall': True})
                hist += [k for k in keys + imports if k not in hist and k not in ('py', 'pyImport')]
                keys = []
                imports = []
            else:
                ops.append({'ctxset': [['py', tok('special', 'py')]]})
                add('py')
                b = self.block(keys, imports)
                ops.append({'exec': b})
                for k in sorted(saved_names(b)):
                    add(k)
                    if k in FN_NAMES and k not in fns:
                        fns.append(k)
        return render({'ctx': ctx, 'heap': heap, 'ops': ops, 'kind': 'mixed'})

    def deferred_value(self, sc):
        """An expression whose value is (usually) a function or generator object reading context keys, pyimport
        names, builtins and names the expression binds itself. Returns (expr, 'fn'|'gen'|'other')."""
        r = self.rng
        x = r.random()
        if x < 0.45:
            ps = r.sample(LOCALS + PLAIN_KEYS[:2], r.choice([0, 0, 0, 1]))
            inner = dict(sc, bound=sc['bound'] + ps, iters=[], in_comp=False, in_cls=False, top=False, func=True)
            body = self.expr(inner, r.choice([1, 2, 2, 3]))
            if ps:       # keep it callable with no arguments: wrap
                return Call(Lam(ps, Lam([], body)), *[self.expr(dict(sc, top=False), 1) for _ in ps]), 'fn'
            return Lam([], body), 'fn'
        if x < 0.85:
            return self.genobj(sc, r.choice([1, 2, 2, 3])), 'gen'
        if x < 0.93:
            # the creating expression binds a name first: it shadows the context for the deferred scope only
            t = r.choice(PLAIN_KEYS[:3] + LOCALS[:3])
            sc['bound'].append(t)
            inner = dict(sc, iters=[], in_comp=False, in_cls=False, top=False, func=True)
            return Call(Lam(['p'], Lam([], self.expr(inner, 2))), W(t, self.expr(dict(sc, top=False), 1))), 'fn'
        return self.expr(sc, 2), 'other'

    def deferred(self):
        """A short session around ONE deferred nested scope: made by `set: k: !py …` (or handed to foreach),
        then context updates / deletions / pyimport / contextclearall, then run — and again."""
        r = self.rng
        ctx, heap = self.context(with_py=False)
        keys = [k for k, _ in ctx]
        ops = []
        imports = []
        if r.random() < 0.5:
            specs = [self.import_spec(keys) for _ in range(r.choice([1, 2]))]
            ops.append({'ctxset': [['pyImport', tok('special', 'pyImport')]]})
            keys.append('pyImport')
            ops.append({'pyimport': pyimport_bindings(specs), 'specs': [list(s) for s in specs]})
            imports = [b[0] for b in ops[-1]['pyimport']]
        sc = self.scope(keys, imports)
        e, what = self.deferred_value(sc)
        if what == 'gen' and r.random() < 0.5:
            ops.append({'foreach': e})
            keys.append('i')
            what = 'other'
        else:
            ops.append({'evalset': ['f', e]})
            if 'f' not in keys:
                keys.append('f')
        serial = 0
        for _ in range(r.choice([1, 2, 3, 4])):
            x = r.random()
            if x < 0.4:
                ks = list(dict.fromkeys(r.choice(keys[:6] + imports + sc['bound'] + SHADOW_KEYS + PLAIN_KEYS)
                                        for _ in range(r.choice([1, 2]))))
                ks = [k for k in ks if k not in ('py', 'pyImport', 'f', 'set')]
                if ks:
                    serial += 1
                    ops.append({'ctxset': [[k, tok('ctx', f'{k}#{serial}')] for k in ks]})
                    keys += [k for k in ks if k not in keys]
            elif x < 0.55:
                k = r.choice([k for k in keys if k != 'f'] or ['a'])
                ops.append({'ctxdel': [k]})
                if k in keys:
                    keys.remove(k)
            elif x < 0.62 and 'pyImport' in keys:
                specs = [self.import_spec(keys + sc['bound'])]
                ops.append({'pyimport': pyimport_bindings(specs), 'specs': [list(s) for s in specs]})
                imports += [b[0] for b in ops[-1]['pyimport'] if b[0] not in imports]
            elif x < 0.66:
                ops.append({'clearall': True})
                keys = []
                imports = []
            elif x < 0.70:
                ops.append({'rehydrate': 'copy'})
            else:
                if what == 'fn':
                    ops.append({'eval': Call(N('f')) if r.random() < 0.7 else T(Call(N('f')), self.probe(keys[:4] or ['a']))})
                elif what == 'gen':
                    ops.append({'foreach': N('f')} if r.random() < 0.5 else {'eval': Drain(N('f'))})
                else:
                    ops.append({'eval': self.probe((keys[:4] + ['i']) if keys else ['a'])})
        if what == 'fn':
            ops.append({'eval': Call(N('f'))})
        elif what == 'gen':
            ops.append({'eval': Drain(N('f'))})
        return render({'ctx': ctx, 'heap': heap, 'ops': ops, 'kind': 'deferred'})

    def savelater(self):
        """A py block whose `save` function is called again AFTER the block has ended (`savecall` ops: the
        block kept the function, or a helper whose body calls it), with context deletions / rebinds /
        contextclearall / evaluations / further blocks in between: every call may write only what it is given."""
        r = self.rng
        ctx, heap = self.context(with_py=True)
        keys = [k for k, _ in ctx]
        ops = []
        blocks = []        # per py block: the names its namespace binds for sure (context keys then + saved locals)
        serial = [0]

        def new_block():
            b = self.block(keys, [])
            # a def keeps the block's namespace object alive in the model (as the closure of `save` does for real)
            b.insert(r.randrange(len(b) + 1), Def('hq', [], [], N(r.choice([k for k in keys if k != '__builtins__'] or ['a']))))
            loc = r.choice(['x', 'w', 'r0'])
            b.append(As(loc, N(r.choice([k for k in keys if k not in ('__builtins__', 'py')] or ['len']))))
            first = [loc] + [k for k in r.sample(keys, min(len(keys), r.choice([0, 1, 2]))) if k not in ('py', '__builtins__', 'save')]
            b.append(Save(first + (['hq'] if r.random() < 0.5 else []), [('k0', N(loc))] if r.random() < 0.4 else []))
            ops.append({'exec': b})
            blocks.append([loc, 'hq'] + [k for k in keys if k not in ('save', '__builtins__')])
            for k in sorted(saved_names(b)):
                if k not in keys:
                    keys.append(k)

        def val():
            serial[0] += 1
            x = r.random()
            if x < 0.7:
                return tok('ctx', f'kw#{serial[0]}')
            if x < 0.8 and heap:
                return ref(r.randrange(len(heap)))
            return r.choice([0, 1, 5, None])

        def savecall():
            blk = r.randrange(len(blocks))
            bound = blocks[blk]
            names = []
            for _ in range(r.choice([0, 0, 1, 1, 2])):
                names.append(r.choice(bound) if r.random() < 0.92 else r.choice(['nope', 'zz']))
            kws = [[k, val()] for k in r.sample(['count', 'k0', 'a', 'x', 'L', 'len'], r.choice([0, 1, 1, 2]))]
            ops.append({'savecall': [blk, names, kws]})
            for k in names + [k for k, _ in kws]:
                if k not in keys and k not in ('nope', 'zz'):
                    keys.append(k)

        new_block()
        for _ in range(r.choice([2, 3, 4, 5, 6])):
            x = r.random()
            saved = [k for k in keys if k not in ('py',)]
            if x < 0.24 and saved:
                ks = list(dict.fromkeys(r.choice(saved) for _ in range(r.choice([1, 1, 2, 3]))))
                ops.append({'ctxdel': ks})
                for k in ks:
                    if k in keys:
                        keys.remove(k)
            elif x < 0.42 and saved:
                ks = [k for k in dict.fromkeys(r.choice(saved) for _ in range(r.choice([1, 2]))) if k != 'pyImport']
                if ks:
                    ops.append({'ctxset': [[k, val()] for k in ks]})
            elif x < 0.48:
                ops.append({'clearall': True})
                keys = []
            elif x < 0.56:
                ops.append({'eval': self.probe([k for k in keys if k != '__builtins__'] or ['a'])})
            elif x < 0.62:
                ops.append({'ctxset': [['py', tok('special', 'py')]]})
                if 'py' not in keys:
                    keys.append('py')
                new_block()
            elif x < 0.65:
                ops.append({'rehydrate': 'copy'})
            else:
                savecall()
        savecall()
        return render({'ctx': ctx, 'heap': heap, 'ops': ops, 'kind': 'savelater'})

    def session(self):
        r = self.rng
        x = r.random()
        if x < 0.12:
            return self.deferred()
        if x < 0.20:
            return self.savelater()
        if x < 0.50:
            return self.mixed()
        kind = 'exec' if x < 0.72 else 'eval'
        ctx, heap = self.context(with_py=(kind == 'exec'))
        ctxkeys = [k for k, _ in ctx]
        ops = []
        imports = []
        if r.random() < 0.5:
            specs = [self.import_spec(ctxkeys) for _ in range(r.choice([1, 1, 2, 3]))]
            ops.append({'pyimport': pyimport_bindings(specs), 'specs': [list(s) for s in specs]})
            imports = [b[0] for b in ops[-1]['pyimport']]
            ctx.append(['pyImport', tok('special', 'pyImport')])
            ctxkeys.append('pyImport')
        if kind == 'eval':
            for _ in range(r.choice([1, 1, 2, 3])):
                ops.append({'eval': self.expr(self.scope(ctxkeys, imports), r.choice([2, 3, 3, 4]))})
        else:
            if r.random() < 0.3:
                ops.append({'eval': self.expr(self.scope(ctxkeys, imports), 3)})
            b = self.block(ctxkeys, imports)
            ops.append({'exec': b})
            after_keys = ctxkeys + sorted(saved_names(b))
            if r.random() < 0.6:
                ops.append({'eval': self.expr(self.scope(after_keys, imports), 3)})
            if r.random() < 0.25:
                ops.append({'exec': self.block(after_keys, imports)})
        return render({'ctx': ctx, 'heap': heap, 'ops': ops, 'kind': kind})


def payload(case, old=False, fuel=400):
    names = set(ALL_NAMES)
    for k, _ in case['ctx']:
        names.add(k)
    for op in case['ops']:
        for k, _ in op.get('ctxset', []) + op.get('pyimport', []):
            names.add(k)
    return {'ctx': case['ctx'], 'imps': case.get('imps', []), 'heap': case['heap'],
            'bi': bi_names(names | collect_names(case)), 'ops': [strip(op) for op in case['ops']],
            'old': old, 'fuel': fuel}


def strip(op):
    return {k: v for k, v in op.items() if k in ('eval', 'exec', 'pyimport', 'ctxset', 'ctxdel', 'clearall',
                                                 'rehydrate', 'evalset', 'foreach', 'savecall')}


def collect_names(case):
    out = set()

    def f(kind, node, scope, in_comp):
        if kind == 'name':
            out.add(node['n'])
    for op in case['ops']:
        if op_expr(op) is not None:
            walk_expr(op_expr(op), f)
        elif 'exec' in op:
            for s in op['exec']:
                for e, _ in stmt_exprs(s):
                    walk_expr(e, f)
                if 'aug' in s:
                    out.add(s['aug'][0])
    return out


def compiles(op):
    if op_expr(op) is None and 'exec' not in op:
        return True
    try:
        compile(op['src'], '<c14>', 'exec' if 'exec' in op else 'eval')
        return True
    except SyntaxError:
        return False
