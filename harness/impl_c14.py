"""C14 helpers: the PyNs program language on the Python side.

* AST constructors + renderer (wire JSON of lean/Driver/OpPyNs.lean  ->  Python source)
* generator of sessions (context, pyimport, `!py` expressions, `pypyr.steps.py` blocks, context updates /
  deletions / contextclearall, rehydration of the Context object by pickle / deepcopy / copy)
* the implementation runner: builds a real `Context` whose values are marker objects, runs every op
  through the real `PyString.get_value` / `pypyr.steps.py.run_step` / `pypyr.steps.pyimport.run_step`
  and dumps results / context / import namespace by *identity* (provenance of every read)
* monitors judged on the implementation alone (written from the property text)

Nothing here imports pypyr at module import time.
"""
from __future__ import annotations

import builtins
import copy
import importlib
import pickle
import signal
import sys
import types

# --------------------------------------------------------------------------
# AST constructors (wire form)
# --------------------------------------------------------------------------


def N(x): return {'n': x}
def C(n): return {'c': n}
def W(x, e): return {'w': [x, e]}
def T(*es): return {'t': list(es)}
def Lam(ps, body): return {'lam': [list(ps), body]}
def Call(f, *args): return {'call': [f, list(args)]}
def App(t, e): return {'app': [t, e]}
def Comp(elt, clauses, gen=False): return {'comp': {'gen': gen, 'elt': elt, 'cl': [[t, it, list(cs)] for t, it, cs in clauses]}}


def As(x, e): return {'as': [x, e]}
def Aug(x, e): return {'aug': [x, e]}
def Del(x): return {'del': x}
def Ex(e): return {'ex': e}
def Def(f, ps, body, ret, gl=()): return {'def': {'f': f, 'ps': list(ps), 'gl': list(gl), 'body': [[x, e] for x, e in body], 'ret': ret}}
def Cls(c, body): return {'cls': [c, [[x, e] for x, e in body]]}
def Save(names, kws=()): return {'save': [list(names), [[k, e] for k, e in kws]]}


def Imp(spec):
    """spec = ('import', mod, alias|None) | ('from', mod, attr, alias|None)."""
    if spec[0] == 'import':
        _, mod, alias = spec
        return {'imp': [alias or mod, tok('mod', mod)], 'spec': list(spec)}
    _, mod, attr, alias = spec
    return {'imp': [alias or attr, tok('imp', f'{mod}.{attr}')], 'spec': list(spec)}


def tok(org, name): return {'tok': [org, name]}
def ref(r): return {'ref': r}


# --------------------------------------------------------------------------
# renderer
# --------------------------------------------------------------------------

def src_expr(e) -> str:
    if 'n' in e:
        return e['n']
    if 'c' in e:
        return str(e['c'])
    if 'w' in e:
        return f"({e['w'][0]} := {src_expr(e['w'][1])})"
    if 't' in e:
        es = [src_expr(x) for x in e['t']]
        if len(es) == 1:
            return f'({es[0]},)'
        return '(' + ', '.join(es) + ')'
    if 'lam' in e:
        ps, body = e['lam']
        return f"(lambda {', '.join(ps)}: {src_expr(body)})" if ps else f'(lambda: {src_expr(body)})'
    if 'call' in e:
        f, args = e['call']
        return f"{src_expr(f)}({', '.join(src_expr(a) for a in args)})"
    if 'app' in e:
        t, x = e['app']
        return f'{src_expr(t)}.append({src_expr(x)})'
    if 'comp' in e:
        c = e['comp']
        parts = [src_expr(c['elt'])]
        for t, it, cs in c['cl']:
            parts.append(f'for {t} in {src_expr(it)}')
            for cond in cs:
                parts.append(f'if {src_expr(cond)}')
        inner = ' '.join(parts)
        return f'[*({inner})]' if c['gen'] else f'[{inner}]'
    raise ValueError(e)


def src_import(spec) -> str:
    if spec[0] == 'import':
        _, mod, alias = spec
        return f'import {mod} as {alias}' if alias else f'import {mod}'
    _, mod, attr, alias = spec
    return f'from {mod} import {attr} as {alias}' if alias else f'from {mod} import {attr}'


def src_stmt(s) -> list:
    if 'as' in s:
        return [f"{s['as'][0]} = {src_expr(s['as'][1])}"]
    if 'aug' in s:
        return [f"{s['aug'][0]} += {src_expr(s['aug'][1])}"]
    if 'del' in s:
        return [f"del {s['del']}"]
    if 'imp' in s:
        return [src_import(tuple(s['spec']))]
    if 'ex' in s:
        return [src_expr(s['ex'])]
    if 'def' in s:
        d = s['def']
        lines = [f"def {d['f']}({', '.join(d['ps'])}):"]
        if d['gl']:
            lines.append('    global ' + ', '.join(d['gl']))
        for x, e in d['body']:
            lines.append(f'    {x} = {src_expr(e)}')
        lines.append(f"    return {src_expr(d['ret'])}")
        return lines
    if 'cls' in s:
        c, body = s['cls']
        lines = [f'class {c}:']
        if not body:
            lines.append('    pass')
        for x, e in body:
            lines.append(f'    {x} = {src_expr(e)}')
        return lines
    if 'save' in s:
        names, kws = s['save']
        args = [repr(n) for n in names] + [f'{k}={src_expr(e)}' for k, e in kws]
        return [f"save({', '.join(args)})"]
    raise ValueError(s)


PY_TAIL = '# c14-py'


def src_block(b) -> str:
    lines = []
    for s in b:
        lines += src_stmt(s)
    return '\n'.join(lines + [PY_TAIL]) + '\n'


def src_pyimport(specs) -> str:
    return '\n'.join(src_import(tuple(s)) for s in specs) + '\n# c14-pyimport\n'


def pyimport_bindings(specs):
    out = []
    for s in specs:
        s = tuple(s)
        if s[0] == 'import':
            out.append([s[2] or s[1], tok('mod', s[1])])
        else:
            out.append([s[3] or s[2], tok('imp', f'{s[1]}.{s[2]}')])
    return out


def render(case):
    """Fill in the rendered sources of every op (kept in the case for the replay file)."""
    for op in case['ops']:
        if 'eval' in op:
            op['src'] = src_expr(op['eval'])
        elif 'exec' in op:
            op['src'] = src_block(op['exec'])
        elif 'pyimport' in op:
            op['src'] = src_pyimport(op['specs'])
    return case


# --------------------------------------------------------------------------
# syntactic facts used by monitors and distribution counters
# --------------------------------------------------------------------------

def walk_expr(e, f, scope='module', in_comp=False):
    """Call f(kind, node, scope, in_comp) on every node; scope = 'module'|'func'."""
    if 'n' in e:
        f('name', e, scope, in_comp)
    elif 'c' in e:
        f('const', e, scope, in_comp)
    elif 'w' in e:
        f('walrus', e, scope, in_comp)
        walk_expr(e['w'][1], f, scope, in_comp)
    elif 't' in e:
        f('tuple', e, scope, in_comp)
        for x in e['t']:
            walk_expr(x, f, scope, in_comp)
    elif 'lam' in e:
        f('lam', e, scope, in_comp)
        walk_expr(e['lam'][1], f, 'func', False)
    elif 'call' in e:
        f('call', e, scope, in_comp)
        walk_expr(e['call'][0], f, scope, in_comp)
        for x in e['call'][1]:
            walk_expr(x, f, scope, in_comp)
    elif 'app' in e:
        f('append', e, scope, in_comp)
        walk_expr(e['app'][0], f, scope, in_comp)
        walk_expr(e['app'][1], f, scope, in_comp)
    elif 'comp' in e:
        c = e['comp']
        f('genexp' if c['gen'] else 'listcomp', e, scope, in_comp)
        for i, (t, it, cs) in enumerate(c['cl']):
            walk_expr(it, f, scope, in_comp if i == 0 else True)
            for cond in cs:
                walk_expr(cond, f, scope, True)
        walk_expr(c['elt'], f, scope, True)


def stmt_exprs(s):
    """(expr, scope) pairs of a statement."""
    if 'as' in s:
        return [(s['as'][1], 'module')]
    if 'aug' in s:
        return [(s['aug'][1], 'module')]
    if 'ex' in s:
        return [(s['ex'], 'module')]
    if 'def' in s:
        d = s['def']
        return [(e, 'func') for _, e in d['body']] + [(d['ret'], 'func')]
    if 'cls' in s:
        return [(e, 'cls') for _, e in s['cls'][1]]
    if 'save' in s:
        return [(e, 'module') for _, e in s['save'][1]]
    return []


def expr_facts(e):
    """Set of construct tags of one `!py` expression."""
    facts = set()

    def f(kind, node, scope, in_comp):
        facts.add(kind)
        if kind == 'walrus':
            if scope == 'module':
                facts.add('walrus-in-comprehension' if in_comp else 'walrus-top-level')
            else:
                facts.add('walrus-in-function')
        if kind == 'name' and scope == 'func':
            facts.add('read-in-function')
        if kind == 'name' and in_comp:
            facts.add('read-in-comprehension')
        if kind in ('listcomp', 'genexp'):
            facts.add(f"for-clauses:{len(node['comp']['cl'])}")
        if kind == 'name' and node['n'].startswith('__'):
            facts.add('dunder-read')
    walk_expr(e, f)
    return facts


def block_facts(b):
    facts = set()
    for s in b:
        facts.add('stmt:' + next(k for k in s if k not in ('spec',)))
        if 'def' in s and s['def']['gl']:
            facts.add('global-decl')
        for e, scope in stmt_exprs(s):
            def f(kind, node, sc, in_comp, scope=scope):
                facts.add(kind)
                if kind in ('listcomp', 'genexp'):
                    facts.add(f"for-clauses:{len(node['comp']['cl'])}")
                if kind == 'name' and (sc == 'func' or scope == 'func'):
                    facts.add('read-in-function')
            walk_expr(e, f, 'func' if scope == 'func' else 'module')
    return facts


# --------------------------------------------------------------------------
# CPython 3.12.1 comprehension inlining (PEP 709) merges the symbols of an inlined list comprehension into
# the enclosing scope's table; a LATER read of such a name from another inlined comprehension of the same
# code unit is then compiled against the merged entry (a hidden fast local / a cell) instead of as the
# global it is: `[([0 for z in U], [z for y in U]) for a in T]` is an UnboundLocalError although z is a
# global. That is a defect of this CPython release, not of pypyr and not part of the modelled scheme:
# programs where it CAN occur are detected here (over-approximation) and left out of the model comparison
# (counted); the monitors still judge them (plain Python has the same quirk).
# --------------------------------------------------------------------------

class _Sc:
    """One symbol-table scope of the rendered program: the top level of an eval / exec / class body
    ('module'), a lambda / def / generator expression ('func'), or an inlined list comprehension ('listcomp').
    `own`: the names its own code mentions (reads, targets, parameters, := targets written in it)."""

    def __init__(self, kind, parent, targets=()):
        self.kind, self.parent = kind, parent
        self.targets = set(targets)
        self.own = set(targets)
        self.children = []
        if parent is not None:
            parent.children.append(self)

    def all_names(self):
        out = set(self.own)
        for c in self.children:
            out |= c.all_names()
        return out

    def has_function_mentioning(self, z):
        for c in self.children:
            if c.kind == 'func' and z in c.all_names():
                return True
            if c.has_function_mentioning(z):
                return True
        return False


def _scopes(e, sc, comps):
    if 'n' in e:
        sc.own.add(e['n'])
    elif 'c' in e:
        pass
    elif 'w' in e:
        sc.own.add(e['w'][0])
        _scopes(e['w'][1], sc, comps)
    elif 't' in e:
        for x in e['t']:
            _scopes(x, sc, comps)
    elif 'lam' in e:
        ps, body = e['lam']
        _scopes(body, _Sc('func', sc, ps), comps)
    elif 'call' in e:
        _scopes(e['call'][0], sc, comps)
        for x in e['call'][1]:
            _scopes(x, sc, comps)
    elif 'app' in e:
        _scopes(e['app'][0], sc, comps)
        _scopes(e['app'][1], sc, comps)
    else:
        c = e['comp']
        _scopes(c['cl'][0][1], sc, comps)          # the first iterable belongs to the enclosing scope
        inner = _Sc('func' if c['gen'] else 'listcomp', sc, [t for t, _, _ in c['cl']])
        if not c['gen']:
            comps.append(inner)
        for i, (t, it, cs) in enumerate(c['cl']):
            if i:
                _scopes(it, inner, comps)
            for x in cs:
                _scopes(x, inner, comps)
        _scopes(c['elt'], inner, comps)


def _merge_quirk(comps):
    """The rule read off CPython 3.12.1's symtable.c (`inline_comprehension`, `analyze_cells`): the LOCAL
    symbols of an inlined list comprehension K are copied into its parent scope S unless S's own code
    already mentions the name; once copied, every other use of that name compiled in S's unit — another
    inlined comprehension of S, a free variable of a function nested in S — binds to the copy (an unbound
    hidden local / cell); the copy travels on to S's parent while S is itself an inlined comprehension.
    At the top level of a module / class body the copy is harmless unless it is a cell (a function nested
    in K captures the name). Over-approximation: order of the siblings and whether the other use would
    really have been bound outside are ignored."""
    for k in comps:
        for z in k.targets:
            child, s = k, k.parent
            while s is not None:
                if z in s.own:
                    break
                others = any(z in c.all_names() for c in s.children if c is not child)
                if s.kind in ('func', 'listcomp'):
                    if others:
                        return True
                elif others and (k.has_function_mentioning(z)):
                    return True
                if s.kind != 'listcomp':
                    break
                child, s = s, s.parent
    return False


def inlining_quirk(op):
    """Can CPython 3.12.1's symbol merge of inlined comprehensions change a name resolution in this op?"""
    comps = []
    if 'eval' in op:
        _scopes(op['eval'], _Sc('module', None), comps)
    elif 'exec' in op:
        top = _Sc('module', None)
        for s in op['exec']:
            if 'def' in s:
                d = s['def']
                top.own.add(d['f'])
                f = _Sc('func', top, list(d['ps']) + list(d['gl']) + [x for x, _ in d['body']])
                for _, e in d['body']:
                    _scopes(e, f, comps)
                _scopes(d['ret'], f, comps)
            elif 'cls' in s:
                top.own.add(s['cls'][0])
                c = _Sc('module', top, [x for x, _ in s['cls'][1]])
                for _, e in s['cls'][1]:
                    _scopes(e, c, comps)
            else:
                for k in ('as', 'aug'):
                    if k in s:
                        top.own.add(s[k][0])
                if 'del' in s:
                    top.own.add(s['del'])
                if 'imp' in s:
                    top.own.add(s['imp'][0])
                for e, _ in stmt_exprs(s):
                    _scopes(e, top, comps)
    else:
        return False
    return _merge_quirk(comps)


def eval_construct(e):
    fs = expr_facts(e)
    if 'walrus-top-level' in fs:
        return 'walrus-top-level'
    if 'walrus-in-comprehension' in fs:
        return 'walrus-in-comprehension'
    if 'walrus-in-function' in fs:
        return 'walrus-in-function'
    return 'no-assignment-expression'


def saved_names(b):
    out = set()
    for s in b:
        if 'save' in s:
            out.update(s['save'][0])
            out.update(k for k, _ in s['save'][1])
    return out


# --------------------------------------------------------------------------
# marker objects and the scratch import modules
# --------------------------------------------------------------------------

class Marker:
    """An inert object whose identity says which namespace bound it."""
    __slots__ = ('org', 'name')

    def __init__(self, org, name):
        self.org, self.name = org, name

    def __repr__(self):
        return f'<{self.org}:{self.name}>'

    def __iadd__(self, other):
        return (self, other)

    # a marker stands for ONE object of the pipeline's world: a pickle round trip / deep copy of the
    # Context must give back the canonical instance, so provenance stays observable afterwards
    def __reduce__(self):
        return (marker, (self.org, self.name))

    def __deepcopy__(self, memo):
        return self

    def __copy__(self):
        return self


class _ScratchModule(types.ModuleType):
    """A scratch import target that (unlike a real module) survives pickle / deepcopy by reference."""

    def __reduce__(self):
        return (importlib.import_module, (self.__name__,))

    def __deepcopy__(self, memo):
        return self

    def __copy__(self):
        return self


MODS = ['c14m1', 'c14m2']
ATTRS = ['n1', 'n2', 'len', 'a', 'T', 'y']
_MARKERS = {}
_TOK_BY_ID = {}
_KEEP = []


def marker(org, name):
    m = _MARKERS.get((org, name))
    if m is None:
        m = Marker(org, name)
        _MARKERS[(org, name)] = m
        _TOK_BY_ID[id(m)] = tok(org, name)
    return m


def ensure_modules():
    for mod in MODS:
        if mod not in sys.modules or not hasattr(sys.modules[mod], '_c14'):
            m = _ScratchModule(mod)
            m._c14 = True
            for a in ATTRS:
                setattr(m, a, marker('imp', f'{mod}.{a}'))
            sys.modules[mod] = m
            _TOK_BY_ID[id(m)] = tok('mod', mod)
            _KEEP.append(m)


POOL_BUILTINS = ['len', 'list', 'id']


def bi_names(pool):
    return sorted(n for n in pool if n in builtins.__dict__)


# --------------------------------------------------------------------------
# the implementation runner
# --------------------------------------------------------------------------

ERR = [(NameError, 'NameError'), (TypeError, 'TypeError'), (AttributeError, 'AttributeError'),
       (KeyError, 'KeyError')]


def err_name(e):
    for cls, name in ERR:
        if isinstance(e, cls):
            return name
    return type(e).__name__


class World:
    """Python objects for one case."""

    def __init__(self, case):
        ensure_modules()
        self.srcs = {}          # id(str) -> special name
        self.src_text = {}      # text -> special name
        self.heap = []
        # two passes so that cells may reference each other
        for cell in case['heap']:
            self.heap.append([] if 'l' in cell else None)
        for i, cell in enumerate(case['heap']):
            if 'l' in cell:
                self.heap[i].extend(self.val(v) for v in cell['l'])
            else:
                self.heap[i] = tuple(self.val(v) for v in cell['t'])
        self.ctx = {k: self.val(v) for k, v in case['ctx']}

    def special(self, name):
        s = f'<<{name}-placeholder>>'
        self.src_text[s] = name
        return s

    def val(self, v):
        if v is None or isinstance(v, int):
            return v
        if 'ref' in v:
            r = self.heap[v['ref']]
            if r is None:
                raise ValueError('forward reference to a tuple cell')
            return r
        org, name = v['tok']
        if org in ('ctx', 'imp'):
            return marker(org, name)
        if org == 'mod':
            return sys.modules[name]
        if org == 'bi':
            return builtins.__dict__[name]
        if org == 'special':
            return self.special(name)
        raise ValueError(v)

    TUPLE_DEPTH = 6     # same constant in lean/Driver/OpPyNs.lean (dumpV)

    def dump(self, v, seen, td=0):
        """Structural dump; lists / functions / classes are numbered by first appearance (identity), tuples
        are dumped by value — a tuple nested more than TUPLE_DEPTH tuples deep is cut (`{'deep': True}`):
        `(y := (y, y))` in a loop builds a DAG whose by-value dump is exponential."""
        if v is None:
            return None
        t = _TOK_BY_ID.get(id(v))
        if t is not None:
            return t
        if type(v) is int:
            # the language's own integers are small constants and lengths; anything else came out of a real
            # builtin such as id() and is an address
            return v if -10**6 < v < 10**6 else {'addr': True}
        if type(v) is str and v in self.src_text:
            return tok('special', self.src_text[v])
        if type(v) is tuple:
            if td >= self.TUPLE_DEPTH:
                return {'deep': True}
            return {'t': [self.dump(x, seen, td + 1) for x in v]}
        if type(v) is list:
            if id(v) in seen:
                return {'seen': seen[id(v)]}
            k = seen[id(v)] = len(seen)
            return {'l': k, 'xs': [self.dump(x, seen, td) for x in v]}
        if isinstance(v, types.FunctionType):
            if getattr(v, '__qualname__', '') == 'get_save.<locals>.save':
                return tok('special', 'save')
            if id(v) in seen:
                return {'seen': seen[id(v)]}
            k = seen[id(v)] = len(seen)
            return {'fn': k}
        if v is builtins.__dict__ or (type(v) is dict and v.get('__name__') == 'builtins' and 'len' in v):
            # (a deep copy / pickle round trip of a context that save()d __builtins__ holds a copy)
            return tok('special', '__builtins__')
        for n in POOL_BUILTINS:
            if v is builtins.__dict__.get(n):
                return tok('bi', n)
        if isinstance(v, type) and v.__name__ == 'Cq':
            # (a class made by exec without __name__ in globals reports __module__ == 'builtins')
            if id(v) in seen:
                return {'seen': seen[id(v)]}
            k = seen[id(v)] = len(seen)
            return {'cls': k, 'attrs': [[a, self.dump(x, seen, td)] for a, x in vars(v).items()
                                        if not a.startswith('__')]}
        return {'unknown': type(v).__name__}

    def dump_env(self, d, seen):
        return [[k, self.dump(v, seen)] for k, v in d.items()]


def snapshot(context):
    return [(k, id(v)) for k, v in dict.items(context)]


REHYDRATE_ORDER = {'pickle': ['pickle', 'deepcopy', 'copy'], 'deepcopy': ['deepcopy', 'copy'], 'copy': ['copy']}


def carries_code_objects(context):
    """Does the context (or the import namespace) reach a function or class object made by inline Python?
    Those do not pickle, and deepcopy treats them as atoms: whatever they reference (a list the context
    also holds) stays the OLD object while the context gets a copy — the aliasing between cargo changes,
    which is a fact about the cargo, not about Context.__getstate__/__setstate__."""
    todo = list(dict.values(context)) + list((getattr(context, '_pystring_globals', None) or {}).values())
    seen = set()
    while todo:
        v = todo.pop()
        if id(v) in seen:
            continue
        seen.add(id(v))
        if isinstance(v, types.FunctionType) or (isinstance(v, type) and v.__name__ == 'Cq'):
            return True
        if type(v) in (list, tuple):
            todo.extend(v)
        elif type(v) is dict and v is not builtins.__dict__:
            todo.extend(v.values())
    return False


def rehydrate(context, kind):
    """Context -> (rehydrated Context, kind actually used). The op is about the Context class's own
    __getstate__/__setstate__, not about its cargo: a context carrying function / class objects made by
    inline Python goes through copy.copy (see carries_code_objects); a method that raises falls back to
    the next one."""
    last = None
    if kind != 'copy' and carries_code_objects(context):
        kind = 'copy'
    for k in REHYDRATE_ORDER[kind]:
        try:
            if k == 'pickle':
                return pickle.loads(pickle.dumps(context)), k
            if k == 'deepcopy':
                return copy.deepcopy(context), k
            return copy.copy(context), k
        except Exception as e:     # noqa
            last = e
    raise last


def eval_obs(w, src, context):
    from pypyr.dsl import PyString
    try:
        return {'ok': w.dump(PyString(src).get_value(context), {})}
    except Exception as e:     # noqa: the expression's own exception is an observation
        return {'err': err_name(e)}


def import_probe(w, context, my_imps, cleared, findings, after):
    """From the property text: names imported through pyimport are readable by `!py` (top level and from
    a nested scope) unless a context key of that name stands in front; names of a wiped import namespace
    are not. Judged against the harness's OWN record of what pyimport was asked to import."""
    for name, obj in my_imps.items():
        if name in context or name == '__builtins__':
            continue
        want = {'ok': w.dump(obj, {})}
        for src in (name, f'(lambda: {name})()'):
            got = eval_obs(w, src, context)
            if got != want:
                findings.append((
                    f'!py {src!r} after {after}: the name imported through pyimport is not readable',
                    {'site': 'get_eval_string', 'monitor': 'import-visibility',
                     'effect': 'imported-name-not-readable', 'after': after},
                    {'impl': got, 'expected': want}))
                break
    for name in cleared:
        if name in context or name in my_imps or name in builtins.__dict__:
            continue
        got = eval_obs(w, name, context)
        if got != {'err': 'NameError'}:
            findings.append((
                f'!py {name!r} after {after}: a name of the wiped pyimport namespace is still readable',
                {'site': 'get_eval_string', 'monitor': 'import-visibility',
                 'effect': 'cleared-import-still-readable', 'after': after},
                {'impl': got, 'expected': {'err': 'NameError'}}))


def run_impl(case, upto=None, soft_from=None, hang=None, soft_s=3.0):
    """Run the case's ops against the real pypyr. Returns (steps, monitor_findings, notes).
    Ops from index `soft_from` on are run for the monitors only (the model stopped before them): each gets
    `soft_s` seconds (the caller's SIGALRM handler raises `hang`), and the run ends quietly at a timeout.

    steps[i] = {'res': {'ok': D}|{'err': name}, 'ctx': [[k, D]…], 'imps': …, 'hidden': …}
    monitor_findings = list of (detail, signature, impl_obs); notes = counters."""
    from pypyr.context import Context
    from pypyr.dsl import PyString
    import pypyr.steps.py as pystep
    import pypyr.steps.pyimport as pyimportstep
    import pypyr.steps.contextclearall as clearallstep

    w = World(case)
    context = Context(w.ctx)
    my_imps = {}        # the harness's own record of what pyimport registered (name -> object)
    cleared = set()     # names that were imported once and then wiped by contextclearall
    rehydrated = None   # how the Context object in use was last rehydrated
    for k, v in case.get('imps', []):
        context.pystring_globals_update({k: w.val(v)})
        my_imps[k] = w.val(v)
    steps = []
    findings = []
    notes = []
    ops = case['ops'] if upto is None else case['ops'][:upto]
    state = {'context': context, 'rehydrated': None}

    def do_op(op):
        context = state['context']
        rehydrated = state['rehydrated']
        before = snapshot(context)
        before_map = dict(dict.items(context))
        src = op.get('src')
        res = None
        if 'eval' in op:
            oracle = None
            facts = expr_facts(op['eval'])
            # M3 needs a second, side-effect free evaluation: not for expressions that mutate (append); a
            # context key __builtins__ makes "plain Python with the keys as globals" lose its builtins
            if '__builtins__' in context:
                notes.append('ctx:reserved-key-__builtins__(hidden from !py by the namespace object; not judged)')
            use_oracle = 'append' not in facts and '__builtins__' not in context
            if use_oracle:
                oracle = plain_eval(w, src, context, my_imps)
            try:
                v = PyString(src).get_value(context)
                res = ('ok', v)
            except Exception as e:     # noqa: the expression's own exception is an observation
                res = ('err', err_name(e))
            after = snapshot(context)
            if after != before:
                findings.append((
                    f'!py {src!r} changed the context: ' + describe_change(before_map, context),
                    {'site': 'get_eval_string', 'construct': eval_construct(op['eval'])},
                    {'before': [k for k, _ in before], 'after': [k for k, _ in after]}))
            if oracle is not None:
                got = {'err': res[1]} if res[0] == 'err' else {'ok': w.dump(res[1], {})}
                if got != oracle:
                    # same expression on a NEW Context with the same keys and imports: tells a defect of the
                    # lookup itself from state that the used Context object carries along
                    fresh = Context(dict(dict.items(context)))
                    fresh.pystring_globals_update(my_imps)
                    effect = ('differs-on-the-used-Context-object-only(earlier-evaluations-or-rehydration)'
                              if eval_obs(w, src, fresh) == oracle else 'differs-on-a-new-Context-too')
                    findings.append((
                        f'!py {src!r}: reads do not see what plain Python sees with context keys (then '
                        f'pyimport names, then builtins) as variables at that moment',
                        {'site': 'get_eval_string', 'monitor': 'read-provenance',
                         'construct': eval_construct(op['eval']), 'effect': effect,
                         'rehydrated': rehydrated},
                        {'impl': got, 'plain': oracle}))
        elif 'exec' in op:
            w.src_text[src] = 'py'
            dict.__setitem__(context, 'py', src)
            before = snapshot(context)
            before_map = dict(dict.items(context))
            try:
                pystep.run_step(context)
                res = ('ok', None)
            except Exception as e:     # noqa
                res = ('err', err_name(e))
            after_map = dict(dict.items(context))
            named = saved_names(op['exec'])
            bad = []
            for k in before_map:
                if k not in after_map:
                    bad.append(f'key {k!r} removed')
                elif after_map[k] is not before_map[k] and k not in named:
                    bad.append(f'key {k!r} rebound')
            for k in after_map:
                if k not in before_map and k not in named:
                    bad.append(f'key {k!r} added')
            if bad:
                kind = 'added' if any('added' in b for b in bad) else 'rebound-or-removed'
                findings.append((
                    f'py block changed the context beyond what it passed to save(): {", ".join(bad[:6])}',
                    {'site': 'py.run_step', 'effect': kind},
                    {'before': list(before_map), 'after': list(after_map), 'saved_names': sorted(named)}))
        elif 'pyimport' in op:
            w.src_text[src] = 'pyImport'
            dict.__setitem__(context, 'pyImport', src)
            before = snapshot(context)
            before_map = dict(dict.items(context))
            try:
                pyimportstep.run_step(context)
                res = ('ok', None)
            except Exception as e:     # noqa
                res = ('err', err_name(e))
            after = snapshot(context)
            if after != before:
                findings.append((
                    'pyimport changed the context: ' + describe_change(before_map, context),
                    {'site': 'pyimport.run_step', 'effect': 'context-changed'},
                    {'before': [k for k, _ in before], 'after': [k for k, _ in after]}))
            if res[0] == 'ok':
                for k, v in op['pyimport']:
                    my_imps[k] = w.val(v)
                    cleared.discard(k)
                import_probe(w, context, my_imps, cleared, findings,
                             'pyimport' + (f' on a Context rehydrated by {rehydrated}' if rehydrated else ''))
        elif 'ctxset' in op:
            context.update({k: w.val(v) for k, v in op['ctxset']})
            res = ('ok', None)
        elif 'ctxdel' in op:
            for k in op['ctxdel']:
                if k in context:
                    del context[k]
            res = ('ok', None)
        elif 'clearall' in op:
            try:
                clearallstep.run_step(context)
                res = ('ok', None)
            except Exception as e:     # noqa
                res = ('err', err_name(e))
            if len(context):
                findings.append(('contextclearall left keys in the context',
                                 {'site': 'contextclearall.run_step', 'effect': 'context-not-empty'},
                                 {'after': list(dict.keys(context))}))
            cleared.update(my_imps)
            my_imps.clear()
            import_probe(w, context, my_imps, cleared, findings,
                         'contextclearall' + (f' on a Context rehydrated by {rehydrated}' if rehydrated else ''))
        elif 'rehydrate' in op:
            want = w.dump_env(before_map, {})
            try:
                new, used = rehydrate(context, op['rehydrate'])
                res = ('ok', None)
            except Exception as e:     # noqa
                new, used = context, None
                res = ('err', err_name(e))
            if used is not None:
                notes.append('rehydrate:' + (used if used == op['rehydrate'] else f"{op['rehydrate']}->{used}"))
                got = w.dump_env(dict(dict.items(new)), {})
                ident = used != 'copy' or [id(v) for v in dict.values(new)] == [i for _, i in before]
                if type(new) is not Context or got != want or not ident:
                    findings.append((
                        f'{used} round trip of the Context changed its keys / values',
                        {'site': 'Context.__setstate__', 'effect': 'context-changed', 'how': used},
                        {'before': want, 'after': got, 'type': type(new).__name__}))
                context = state['context'] = new
                rehydrated = state['rehydrated'] = used
                import_probe(w, context, my_imps, cleared, findings, f'{used} round trip of the Context')
        seen = {}
        if res[0] == 'err':
            rj = {'err': res[1]}
        else:
            rj = {'ok': w.dump(res[1], seen)}
        step = {'res': rj, 'ctx': w.dump_env(dict(dict.items(context)), seen)}
        imps = getattr(context, '_pystring_globals', None)
        nsobj = getattr(context, '_pystring_namespace', None)
        if imps is not None and nsobj is not None:
            step['imps'] = w.dump_env(imps, seen)
            step['hidden'] = w.dump_env({k: v for k, v in dict.items(nsobj) if k != '__builtins__'}, seen)
        return step

    for i, op in enumerate(ops):
        if soft_from is not None and i >= soft_from:
            signal.setitimer(signal.ITIMER_REAL, soft_s)
            try:
                steps.append(do_op(op))
            except hang:
                notes.append('monitor-only-op:timeout(run ends)')
                break
        else:
            steps.append(do_op(op))
    return steps, findings, notes


def describe_change(before_map, context):
    after = dict(dict.items(context))
    out = []
    for k in after:
        if k not in before_map:
            out.append(f'key {k!r} added')
        elif after[k] is not before_map[k]:
            out.append(f'key {k!r} rebound')
    for k in before_map:
        if k not in after:
            out.append(f'key {k!r} removed')
    if not out:
        out.append('key order changed')
    return ', '.join(out[:6])


def plain_eval(w, src, context, my_imps):
    """What plain Python gives for the expression when context keys, then pyimport names, then
    builtins are ordinary global variables (the reading of 'as plain variables'). The globals dict is
    thrown away: what the expression binds with := shadows a key for its own later reads, as in Python,
    and goes nowhere. `my_imps` is the harness's own record of what pyimport was asked to register."""
    g = {}
    g.update(my_imps)
    g.update(dict.items(context))
    try:
        v = eval(src, g)
    except Exception as e:     # noqa
        return {'err': err_name(e)}
    return {'ok': w.dump(v, {})}


# --------------------------------------------------------------------------
# generator
# --------------------------------------------------------------------------

PLAIN_KEYS = ['a', 'b', 'c', 'd', 'y']
SHADOW_KEYS = ['len', 'list', 'id']
SEQ_KEYS = ['T', 'U']
LIST_KEYS = ['L', 'obs']
IMPORTABLE = ['n1', 'n2', 'len', 'a', 'T', 'y']
LOCALS = ['x', 'y', 'z', 'w', 'p', 'q', 'i', 'j']
FN_NAMES = ['f', 'g', 'h']
RESERVED_RARE = ['save', '__builtins__', 'py']
ALL_NAMES = sorted(set(PLAIN_KEYS + SHADOW_KEYS + SEQ_KEYS + LIST_KEYS + IMPORTABLE + LOCALS + FN_NAMES
                       + RESERVED_RARE + ['Cq', 'n1', 'n2', 'c14m1', 'c14m2', 'pyImport', 'r0', 'r1', 'r2']))


class Gen:
    def __init__(self, rng):
        self.rng = rng

    # ---- contexts ----
    def context(self, with_py):
        r = self.rng
        heap = []
        ctx = []
        keys = []
        for k in PLAIN_KEYS:
            if r.random() < 0.7:
                keys.append(k)
        for k in SHADOW_KEYS:
            if r.random() < 0.35:
                keys.append(k)
        for k in SEQ_KEYS + LIST_KEYS:
            if r.random() < 0.8:
                keys.append(k)
        for k in LOCALS[:4] + ['n1', 'f']:
            if r.random() < 0.12:
                keys.append(k)
        if r.random() < 0.04:
            keys.append(r.choice(['save', '__builtins__']))
        keys = list(dict.fromkeys(keys))
        r.shuffle(keys)

        def seq_cell(k, as_list):
            n = r.choice([0, 1, 2, 2, 3])
            items = []
            for i in range(n):
                x = r.random()
                if x < 0.8:
                    items.append(tok('ctx', f'{k}.{i}'))
                elif x < 0.9:
                    items.append(r.choice([0, 1, 7]))
                else:
                    items.append(None)
            heap.append({'l': items} if as_list else {'t': items})
            return ref(len(heap) - 1)

        for k in keys:
            if k in SEQ_KEYS:
                v = seq_cell(k, False) if r.random() < 0.85 else seq_cell(k, True)
            elif k in LIST_KEYS:
                # aliasing: sometimes the same list object under two keys
                prev = [v for kk, v in ctx if kk in LIST_KEYS and isinstance(v, dict) and 'ref' in v]
                if prev and r.random() < 0.3:
                    v = prev[0]
                else:
                    v = seq_cell(k, True)
            else:
                x = r.random()
                if x < 0.78:
                    v = tok('ctx', k)
                elif x < 0.86:
                    v = seq_cell(k, False)
                elif x < 0.92:
                    v = seq_cell(k, True)
                elif x < 0.96:
                    v = r.choice([0, 1, 5])
                else:
                    v = None
            ctx.append([k, v])
        if with_py:
            pos = r.randrange(len(ctx) + 1)
            ctx.insert(pos, ['py', tok('special', 'py')])
        return ctx, heap

    # ---- expressions ----
    def name(self, sc):
        r = self.rng
        x = r.random()
        if x < 0.55 and sc['ctxkeys']:
            return r.choice(sc['ctxkeys'])
        if x < 0.75 and sc['bound']:
            return r.choice(sc['bound'])
        if x < 0.83:
            return r.choice(SHADOW_KEYS)
        if x < 0.90 and sc['imports']:
            return r.choice(sc['imports'])
        if x < 0.985:
            return r.choice(PLAIN_KEYS + LOCALS + SEQ_KEYS)
        return r.choice(RESERVED_RARE)

    def seqname(self, sc):
        r = self.rng
        cands = [k for k in sc['ctxkeys'] if k in SEQ_KEYS + LIST_KEYS]
        if cands and r.random() < 0.8:
            return N(r.choice(cands))
        if r.random() < 0.6:
            return T(*[N(self.name(sc)) for _ in range(r.choice([1, 2, 2, 3]))])
        return N(self.name(sc))

    def expr(self, sc, depth):
        """sc: dict(ctxkeys, bound, imports, iters, in_comp, in_iter, in_cls, top, func)."""
        r = self.rng
        x = r.random()
        if depth <= 0 or x < 0.30:
            return N(self.name(sc))
        if x < 0.34:
            return C(r.choice([0, 1, 2, 9]))
        can_walrus = not sc['in_iter'] and not (sc['in_comp'] and sc['in_cls'])
        if x < 0.46 and can_walrus:
            cands = [n for n in LOCALS[:4] + PLAIN_KEYS[:3] + SHADOW_KEYS[:1] + sc['ctxkeys'][:2]
                     if n not in sc['iters'] and n != '__builtins__']
            if cands:
                t = r.choice(cands)
                e = self.expr(dict(sc, top=False), depth - 1)
                sc['bound'].append(t)
                return W(t, e)
        if x < 0.62:
            n = r.choice([0, 1, 2, 2, 3])
            return T(*[self.expr(dict(sc, top=sc['top']), depth - 1) for _ in range(n)])
        if x < 0.76:
            return self.comp(sc, depth)
        if x < 0.88:
            ps = r.sample(LOCALS + PLAIN_KEYS[:2] + SHADOW_KEYS[:1], r.choice([0, 1, 1, 2]))
            inner = dict(sc, bound=sc['bound'] + ps, iters=[], in_comp=False, in_cls=False,
                         top=False, func=True)
            body = self.expr(inner, depth - 1)
            lam = Lam(ps, body)
            if r.random() < 0.12:
                return lam
            nargs = len(ps) if r.random() < 0.93 else len(ps) + 1
            return Call(lam, *[self.expr(dict(sc, top=False), depth - 2) for _ in range(nargs)])
        if x < 0.93:
            f = N(r.choice(sc['fns'])) if sc['fns'] and r.random() < 0.85 else N(self.name(sc))
            n = r.choice([0, 1, 1, 2])
            return Call(f, *[self.expr(dict(sc, top=False), depth - 2) for _ in range(n)])
        if sc['top']:
            tgt = [k for k in sc['ctxkeys'] if k in LIST_KEYS]
            t = N(r.choice(tgt)) if tgt and r.random() < 0.85 else N(self.name(sc))
            return App(t, self.expr(dict(sc, top=False), depth - 1))
        return N(self.name(sc))

    def comp(self, sc, depth):
        r = self.rng
        ncl = r.choice([1, 1, 2, 2, 3])
        gen = r.random() < 0.3
        targets = [r.choice(['i', 'j', 'x', 'y', 'z', 'a', 'len']) for _ in range(ncl)]
        iters = targets + sc['iters']
        clauses = []
        bound = list(sc['bound'])
        for n, t in enumerate(targets):
            isc = dict(sc, bound=bound, iters=iters, in_comp=True, in_iter=True, top=False)
            it = self.seqname(isc) if r.random() < 0.85 else self.expr(isc, depth - 2)
            bound = bound + [t]
            conds = []
            if r.random() < 0.3:
                csc = dict(sc, bound=bound, iters=iters, in_comp=True, top=False)
                conds.append(self.expr(csc, min(depth - 1, 1)) if r.random() < 0.7 else C(r.choice([0, 1, 1])))
            clauses.append((t, it, conds))
        esc = dict(sc, bound=bound, iters=iters, in_comp=True, top=False)
        elt = self.expr(esc, depth - 1)
        return Comp(elt, clauses, gen)

    def scope(self, ctxkeys, imports, fns=(), bound=()):
        return dict(ctxkeys=list(ctxkeys), bound=list(bound), imports=list(imports), iters=[], in_comp=False,
                    in_iter=False, in_cls=False, top=True, func=False, fns=list(fns))

    # ---- statements ----
    def block(self, ctxkeys, imports):
        r = self.rng
        sc = self.scope(ctxkeys, imports)
        stmts = []
        n = r.choice([2, 3, 4, 5, 6, 8])
        for _ in range(n):
            x = r.random()
            if x < 0.22:
                t = r.choice([k for k in LOCALS[:4] + sc['ctxkeys'][:3] + ['r0', 'r1'] if k != '__builtins__'])
                stmts.append(As(t, self.expr(sc, 3)))
                sc['bound'].append(t)
            elif x < 0.32:
                t = r.choice(sc['ctxkeys'] + sc['bound']) if (sc['ctxkeys'] or sc['bound']) else 'x'
                t = 'x' if t == '__builtins__' else t
                e = self.seqname(sc) if r.random() < 0.6 else self.expr(sc, 2)
                stmts.append(Aug(t, e))
            elif x < 0.38:
                t = r.choice(sc['ctxkeys'] + sc['bound'] + ['x']) if r.random() < 0.9 else r.choice(['save', 'py'])
                t = 'x' if t == '__builtins__' else t
                stmts.append(Del(t))
            elif x < 0.46:
                stmts.append(Imp(self.import_spec()))
                sc['imports'].append(stmts[-1]['imp'][0])
            elif x < 0.58:
                f = r.choice(FN_NAMES)
                ps = r.sample(LOCALS + PLAIN_KEYS[:2], r.choice([0, 1, 1, 2]))
                gl = [g for g in r.sample(PLAIN_KEYS + ['x', 'r0'], r.choice([0, 0, 1, 1, 2])) if g not in ps]
                inner = dict(sc, bound=sc['bound'] + ps, top=False, func=True)
                body = []
                for _ in range(r.choice([0, 0, 1, 2])):
                    t = r.choice(gl + LOCALS[:4]) if gl and r.random() < 0.6 else r.choice(LOCALS[:4] + PLAIN_KEYS[:2])
                    body.append((t, self.expr(inner, 2)))
                    inner['bound'].append(t)
                stmts.append(Def(f, ps, body, self.expr(inner, 3), gl))
                sc['fns'].append(f)
            elif x < 0.64:
                cb = []
                csc = dict(sc, in_cls=True, top=False, bound=list(sc['bound']))
                for _ in range(r.choice([0, 1, 2, 3])):
                    t = r.choice(['m', 'k'] + PLAIN_KEYS[:2])
                    cb.append((t, self.expr(csc, 2)))
                    csc['bound'].append(t)
                stmts.append(Cls('Cq', cb))
                sc['bound'].append('Cq')
            elif x < 0.80:
                tgt = [k for k in sc['ctxkeys'] if k in LIST_KEYS]
                if tgt and r.random() < 0.8:
                    stmts.append(Ex(App(N(r.choice(tgt)), self.expr(dict(sc, top=False), 3))))
                else:
                    stmts.append(Ex(self.expr(sc, 3)))
            else:
                stmts.append(self.save_stmt(sc))
        if r.random() < 0.6:
            stmts.append(self.save_stmt(sc))
        return stmts

    def save_stmt(self, sc):
        r = self.rng
        cands = [n for n in (sc['bound'] + sc['ctxkeys'] + sc['fns'] + sc['imports'])
                 if n not in ('py', 'pyImport')]
        names = []
        for _ in range(r.choice([0, 1, 1, 2])):
            x = r.random()
            if cands and x < 0.9:
                names.append(r.choice(cands))
            elif x < 0.96:
                names.append(r.choice(LOCALS))
            else:
                names.append(r.choice(['save', '__builtins__']))
        kws = []
        for k in r.sample(['r0', 'r1', 'r2', 'a', 'x', 'len'], r.choice([0, 0, 1, 2])):
            kws.append((k, self.expr(dict(sc, top=False), 2)))
        return Save(names, kws)

    def import_spec(self, prefer=()):
        r = self.rng
        mod = r.choice(MODS)
        aliases = [None, None, 'a', 'x', 'len', 'y']
        prefer = [p for p in prefer if p.isidentifier() and not p.startswith('__') and p not in ('py', 'pyImport', 'save')]
        if prefer and r.random() < 0.4:
            aliases = [r.choice(prefer)]
        if r.random() < 0.3:
            return ('import', mod, r.choice([None, 'a', 'x', 'len', 'n1'] if len(aliases) > 1 else aliases))
        return ('from', mod, r.choice(IMPORTABLE), r.choice(aliases))

    # ---- sessions ----
    def probe(self, names):
        """`(x, (lambda: x)(), [x for i in (0,)], …)`: the same names read at top level, from a function
        scope and from a comprehension."""
        r = self.rng
        xs = r.sample(names, min(len(names), r.choice([1, 1, 2, 3])))
        parts = []
        for x in xs:
            parts.append(N(x))
            y = r.random()
            if y < 0.5:
                parts.append(Call(Lam([], N(x))))
            elif y < 0.7:
                parts.append(Comp(N(x), [('i', T(C(0)), [])], gen=r.random() < 0.5))
        return T(*parts)

    def mixed(self):
        """Several evaluations / py blocks / pyimports on ONE Context with context updates, deletions,
        contextclearall and rehydration of the Context object in between. Names an earlier expression bound
        with := are preferred for later reads, later context keys and later imports."""
        r = self.rng
        ctx, heap = self.context(with_py=False)
        keys = [k for k, _ in ctx]
        ops = []
        imports = []
        hist = []          # names bound by := in earlier evaluations, imported or deleted earlier
        deep = False       # the Context was pickled / deep-copied: heap cells of the case are stale
        serial = [0]

        def fresh_val(k):
            x = r.random()
            serial[0] += 1
            if x < 0.7:
                return tok('ctx', f'{k}#{serial[0]}')
            if x < 0.8 and heap and not deep:
                return ref(r.randrange(len(heap)))
            if x < 0.9:
                return r.choice([0, 1, 5])
            return None

        def add(k):
            if k not in keys:
                keys.append(k)

        for _ in range(r.choice([3, 4, 5, 6, 7])):
            x = r.random()
            if x < 0.45:
                names = list(dict.fromkeys(hist + imports + keys[:4]))
                if names and r.random() < 0.35:
                    e = self.probe(names)
                else:
                    e = self.expr(self.scope(keys, imports, bound=hist), r.choice([1, 2, 3, 3]))
                ops.append({'eval': e})

                def f(kind, node, scope, in_comp):
                    if kind == 'walrus' and node['w'][0] not in hist:
                        hist.append(node['w'][0])
                walk_expr(e, f)
            elif x < 0.57:
                specs = [self.import_spec(hist) for _ in range(r.choice([1, 1, 2]))]
                ops.append({'ctxset': [['pyImport', tok('special', 'pyImport')]]})
                add('pyImport')
                ops.append({'pyimport': pyimport_bindings(specs), 'specs': [list(s) for s in specs]})
                for b in ops[-1]['pyimport']:
                    if b[0] not in imports:
                        imports.append(b[0])
            elif x < 0.69:
                kind = r.choice(['pickle', 'pickle', 'deepcopy', 'deepcopy', 'copy'])
                ops.append({'rehydrate': kind})
                deep = deep or kind != 'copy'
            elif x < 0.81:
                cands = hist + hist + keys + imports + SHADOW_KEYS + PLAIN_KEYS
                ks = list(dict.fromkeys(r.choice(cands) for _ in range(r.choice([1, 1, 2, 3]))))
                ks = [k for k in ks if k not in ('py', 'pyImport')]
                if ks:
                    ops.append({'ctxset': [[k, fresh_val(k)] for k in ks]})
                    for k in ks:
                        add(k)
            elif x < 0.86:
                if keys:
                    ks = list(dict.fromkeys(r.choice(keys + hist) for _ in range(r.choice([1, 1, 2]))))
                    ops.append({'ctxdel': ks})
                    for k in ks:
                        if k in keys:
                            keys.remove(k)
                            hist.append(k)
            elif x < 0.89:
                ops.append({'clearall': True})
                hist += [k for k in keys + imports if k not in hist and k not in ('py', 'pyImport')]
                keys = []
                imports = []
            else:
                ops.append({'ctxset': [['py', tok('special', 'py')]]})
                add('py')
                b = self.block(keys, imports)
                ops.append({'exec': b})
                for k in sorted(saved_names(b)):
                    add(k)
        return render({'ctx': ctx, 'heap': heap, 'ops': ops, 'kind': 'mixed'})

    def session(self):
        r = self.rng
        x = r.random()
        if x < 0.42:
            return self.mixed()
        kind = 'exec' if x < 0.67 else 'eval'
        ctx, heap = self.context(with_py=(kind == 'exec'))
        ctxkeys = [k for k, _ in ctx]
        ops = []
        imports = []
        if r.random() < 0.45:
            specs = [self.import_spec() for _ in range(r.choice([1, 1, 2, 3]))]
            ops.append({'pyimport': pyimport_bindings(specs), 'specs': [list(s) for s in specs]})
            imports = [b[0] for b in ops[-1]['pyimport']]
            ctx.append(['pyImport', tok('special', 'pyImport')])
            ctxkeys.append('pyImport')
        if kind == 'eval':
            for _ in range(r.choice([1, 1, 2, 3])):
                ops.append({'eval': self.expr(self.scope(ctxkeys, imports), r.choice([2, 3, 3, 4]))})
        else:
            if r.random() < 0.3:
                ops.append({'eval': self.expr(self.scope(ctxkeys, imports), 3)})
            b = self.block(ctxkeys, imports)
            ops.append({'exec': b})
            after_keys = ctxkeys + sorted(saved_names(b))
            if r.random() < 0.6:
                ops.append({'eval': self.expr(self.scope(after_keys, imports), 3)})
            if r.random() < 0.25:
                ops.append({'exec': self.block(after_keys, imports)})
        return render({'ctx': ctx, 'heap': heap, 'ops': ops, 'kind': kind})


def payload(case, old=False, fuel=400):
    names = set(ALL_NAMES)
    for k, _ in case['ctx']:
        names.add(k)
    for op in case['ops']:
        for k, _ in op.get('ctxset', []) + op.get('pyimport', []):
            names.add(k)
    return {'ctx': case['ctx'], 'imps': case.get('imps', []), 'heap': case['heap'],
            'bi': bi_names(names | collect_names(case)), 'ops': [strip(op) for op in case['ops']],
            'old': old, 'fuel': fuel}


def strip(op):
    return {k: v for k, v in op.items() if k in ('eval', 'exec', 'pyimport', 'ctxset', 'ctxdel', 'clearall',
                                                 'rehydrate')}


def collect_names(case):
    out = set()

    def f(kind, node, scope, in_comp):
        if kind == 'name':
            out.add(node['n'])
    for op in case['ops']:
        if 'eval' in op:
            walk_expr(op['eval'], f)
        elif 'exec' in op:
            for s in op['exec']:
                for e, _ in stmt_exprs(s):
                    walk_expr(e, f)
                if 'aug' in s:
                    out.add(s['aug'][0])
    return out


def compiles(op):
    if 'eval' not in op and 'exec' not in op:
        return True
    try:
        compile(op['src'], '<c14>', 'eval' if 'eval' in op else 'exec')
        return True
    except SyntaxError:
        return False
