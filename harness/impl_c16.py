"""C16 — runs of the REAL structured file steps (filewrite*/fetch*/fileformat*/file context parsers).

Every function takes plain Python values, works in the current directory (the caller has chdir'ed
into a scratch directory so that model and implementation see the same relative paths) and returns
JSON-able observations in the wire form of harness.common.enc.
"""
from __future__ import annotations

import importlib
import io
import json
import logging
import os

from .common import enc, exc_name

_lg = logging.getLogger('pypyr')
_lg.addHandler(logging.NullHandler())
_lg.propagate = False

WRITE = {'json': ('pypyr.steps.filewritejson', 'fileWriteJson'),
         'yaml': ('pypyr.steps.filewriteyaml', 'fileWriteYaml'),
         'toml': ('pypyr.steps.filewritetoml', 'fileWriteToml')}
FETCH = {'json': ('pypyr.steps.fetchjson', 'fetchJson'),
         'yaml': ('pypyr.steps.fetchyaml', 'fetchYaml'),
         'toml': ('pypyr.steps.fetchtoml', 'fetchToml')}
FORMAT = {'json': ('pypyr.steps.fileformatjson', 'fileFormatJson'),
          'yaml': ('pypyr.steps.fileformatyaml', 'fileFormatYaml'),
          'toml': ('pypyr.steps.fileformattoml', 'fileFormatToml')}
PARSER = {'json': 'pypyr.parser.jsonfile', 'yaml': 'pypyr.parser.yamlfile', 'toml': 'pypyr.parser.tomlfile'}


def plain(v):
    """ruamel round-trip types / Context -> plain dict/list/scalars (keeps bool/int/float/str/None)."""
    if isinstance(v, dict):
        return {plain(k): plain(x) for k, x in v.items()}
    if isinstance(v, (list, tuple)):
        return [plain(x) for x in v]
    if isinstance(v, bool) or v is None:
        return v
    if isinstance(v, int):
        return int(v)
    if isinstance(v, float):
        return float(v)
    if isinstance(v, str):
        return str(v)
    return v


def err(e):
    return {'err': exc_name(e), 'msg': str(e)[:200]}


def sort_wire(w):
    """Order-insensitive canonical form of a wire value (Python equality ignores dict order)."""
    if isinstance(w, list):
        return [sort_wire(x) for x in w]
    if isinstance(w, dict):
        if 'd' in w:
            items = [[sort_wire(k), sort_wire(v)] for k, v in w['d']]
            items.sort(key=lambda kv: json.dumps(kv[0], sort_keys=True))
            return {'d': items}
        if 't' in w:
            return {'t': [sort_wire(x) for x in w['t']]}
    return w


def run_write(fmt, ctx_values, path, payload, has_payload, encoding):
    from pypyr.context import Context
    modname, key = WRITE[fmt]
    mod = importlib.import_module(modname)
    cfg = {'path': path}
    if has_payload:
        cfg['payload'] = payload
    if encoding and fmt != 'toml':
        cfg['encoding'] = encoding
    ctx = Context(dict(ctx_values))
    ctx[key] = cfg
    try:
        mod.run_step(ctx)
    except Exception as e:
        return err(e), ctx
    return {'ok': True}, ctx


def run_fetch(fmt, ctx_values, path, key, as_string, encoding):
    from pypyr.context import Context
    modname, skey = FETCH[fmt]
    mod = importlib.import_module(modname)
    if as_string:
        cfg = path
    else:
        cfg = {'path': path}
        if key is not None:
            cfg['key'] = key
        if encoding and fmt != 'toml':
            cfg['encoding'] = encoding
    ctx = Context(dict(ctx_values))
    ctx[skey] = cfg
    try:
        mod.run_step(ctx)
    except Exception as e:
        return err(e)
    return {'ok': enc(plain(dict(ctx)))}


def run_parser(fmt, path):
    mod = importlib.import_module(PARSER[fmt])
    try:
        out = mod.get_parsed_context([path])
    except Exception as e:
        return err(e)
    return {'ok': enc(plain(out))}


def real_format(ctx_values, value):
    """pypyr's own formatter on a value: the oracle for "its formatted value" in the monitors."""
    from pypyr.context import Context
    ctx = Context(dict(ctx_values))
    try:
        return {'ok': enc(plain(ctx.get_formatted_value(value)))}
    except Exception as e:
        return err(e)


def render(fmt, doc):
    """Source text of a document for the fileformat flows (stdlib / third-party writers directly)."""
    if fmt == 'json':
        return json.dumps(doc, indent=1, ensure_ascii=False)
    if fmt == 'yaml':
        import ruamel.yaml
        y = ruamel.yaml.YAML(typ='rt', pure=True)
        s = io.StringIO()
        y.dump(doc, s)
        return s.getvalue()
    import tomli_w
    return tomli_w.dumps(doc)


def load(fmt, text):
    """Read a document back with the plain loader of the format (not pypyr code)."""
    if fmt == 'json':
        return json.loads(text)
    if fmt == 'yaml':
        import ruamel.yaml
        return ruamel.yaml.YAML(typ='safe', pure=True).load(text)
    import tomllib
    return tomllib.loads(text)


def run_fileformat(fmt, ctx_values, src_text, inplace, encoding):
    """Write src_text to in.<fmt>, run the fileformat step, return (outcome, output text)."""
    from pypyr.context import Context
    modname, key = FORMAT[fmt]
    mod = importlib.import_module(modname)
    e_in = (encoding or 'utf-8') if fmt != 'toml' else 'utf-8'
    src = 'in.' + fmt
    with open(src, 'wb') as f:
        f.write(src_text.encode(e_in))
    cfg = {'in': src}
    out = src
    if not inplace:
        out = 'out/res.' + fmt
        cfg['out'] = out
    if encoding and fmt != 'toml':
        cfg['encoding'] = encoding
    ctx = Context(dict(ctx_values))
    ctx[key] = cfg
    try:
        mod.run_step(ctx)
    except Exception as e:
        return err(e), None
    with open(out, 'rb') as f:
        return {'ok': True}, f.read().decode(e_in)


def third_party_roundtrip(fmt, value):
    """The codec hypothesis `dec (enc d) = d` checked directly on the third-party pair the steps use
    (ruamel round-trip dumper with pypyr's indent settings -> safe loader; tomli_w -> tomllib;
    json.dump(indent=2, ensure_ascii=False) -> json.load). True / False / None (serialiser raised)."""
    try:
        if fmt == 'json':
            text = json.dumps(value, indent=2, ensure_ascii=False)
        elif fmt == 'yaml':
            import ruamel.yaml
            y = ruamel.yaml.YAML(typ='rt', pure=True)
            y.indent(mapping=2, sequence=4, offset=2)
            s = io.StringIO()
            y.dump(value, s)
            text = s.getvalue()
        else:
            import tomli_w
            text = tomli_w.dumps(value)
        back = plain(load(fmt, text))
    except Exception:
        return None
    return sort_wire(enc(back)) == sort_wire(enc(value))


def clean_dir():
    for name in os.listdir('.'):
        p = os.path.join('.', name)
        if os.path.isdir(p):
            import shutil
            shutil.rmtree(p, ignore_errors=True)
        else:
            os.unlink(p)
