"""C16 — runs of the REAL structured file steps (filewrite*/fetch*/fileformat*/file context parsers).

Every function takes plain Python values, works in the current directory (the caller has chdir'ed
into a scratch directory so that model and implementation see the same relative paths) and returns
JSON-able observations in the wire form of harness.common.enc.
"""
from __future__ import annotations

import importlib
import io
import json
import logging
import os

from .common import dec, enc, exc_name

_lg = logging.getLogger('pypyr')
_lg.addHandler(logging.NullHandler())
_lg.propagate = False

WRITE = {'json': ('pypyr.steps.filewritejson', 'fileWriteJson'),
         'yaml': ('pypyr.steps.filewriteyaml', 'fileWriteYaml'),
         'toml': ('pypyr.steps.filewritetoml', 'fileWriteToml')}
FETCH = {'json': ('pypyr.steps.fetchjson', 'fetchJson'),
         'yaml': ('pypyr.steps.fetchyaml', 'fetchYaml'),
         'toml': ('pypyr.steps.fetchtoml', 'fetchToml')}
FORMAT = {'json': ('pypyr.steps.fileformatjson', 'fileFormatJson'),
          'yaml': ('pypyr.steps.fileformatyaml', 'fileFormatYaml'),
          'toml': ('pypyr.steps.fileformattoml', 'fileFormatToml')}
PARSER = {'json': 'pypyr.parser.jsonfile', 'yaml': 'pypyr.parser.yamlfile', 'toml': 'pypyr.parser.tomlfile'}


def plain(v):
    """ruamel round-trip types / Context -> plain dict/list/scalars (keeps bool/int/float/str/None)."""
    if isinstance(v, dict):
        return {plain(k): plain(x) for k, x in v.items()}
    if isinstance(v, (list, tuple)):
        return [plain(x) for x in v]
    if isinstance(v, bool) or v is None:
        return v
    if isinstance(v, int):
        return int(v)
    if isinstance(v, float):
        return float(v)
    if isinstance(v, str):
        return str(v)
    return v


def plain_keep(v):
    """Like `plain`, but tuples and sets stay what they are (context snapshots: a container a step found in the
    context must still be the same container afterwards)."""
    if isinstance(v, dict):
        return {plain_keep(k): plain_keep(x) for k, x in v.items()}
    if isinstance(v, list):
        return [plain_keep(x) for x in v]
    if isinstance(v, tuple):
        return tuple(plain_keep(x) for x in v)
    if isinstance(v, (set, frozenset)):
        return {plain_keep(x) for x in v}
    return plain(v)


def err(e):
    return {'err': exc_name(e), 'msg': str(e)[:200]}


def sort_wire(w):
    """Order-insensitive canonical form of a wire value (Python equality ignores dict order)."""
    if isinstance(w, list):
        return [sort_wire(x) for x in w]
    if isinstance(w, dict):
        if 'd' in w:
            items = [[sort_wire(k), sort_wire(v)] for k, v in w['d']]
            items.sort(key=lambda kv: json.dumps(kv[0], sort_keys=True))
            return {'d': items}
        if 't' in w:
            return {'t': [sort_wire(x) for x in w['t']]}
    return w


def run_write(fmt, ctx_values, path, payload, has_payload, encoding):
    from pypyr.context import Context
    modname, key = WRITE[fmt]
    mod = importlib.import_module(modname)
    cfg = {'path': path}
    if has_payload:
        cfg['payload'] = payload
    if encoding and fmt != 'toml':
        cfg['encoding'] = encoding
    ctx = Context(dict(ctx_values))
    ctx[key] = cfg
    try:
        mod.run_step(ctx)
    except Exception as e:
        return err(e), ctx
    return {'ok': True}, ctx


def run_fetch(fmt, ctx_values, path, key, as_string, encoding):
    from pypyr.context import Context
    modname, skey = FETCH[fmt]
    mod = importlib.import_module(modname)
    if as_string:
        cfg = path
    else:
        cfg = {'path': path}
        if key is not None:
            cfg['key'] = key
        if encoding and fmt != 'toml':
            cfg['encoding'] = encoding
    ctx = Context(dict(ctx_values))
    ctx[skey] = cfg
    try:
        mod.run_step(ctx)
    except Exception as e:
        return err(e)
    return {'ok': enc(plain(dict(ctx)))}


def run_parser(fmt, path):
    mod = importlib.import_module(PARSER[fmt])
    try:
        out = mod.get_parsed_context([path])
    except Exception as e:
        return err(e)
    return {'ok': enc(plain(out))}


_UNSET = object()


class default_encoding:
    """`with default_encoding(x):` — pypyr.config.config.default_encoding = x inside, RESTORED on the way out
    (what env PYPYR_ENCODING=x does at start-up). `_UNSET` leaves the configuration alone."""

    def __init__(self, value=_UNSET):
        self.value = value

    def __enter__(self):
        if self.value is not _UNSET:
            from pypyr.config import config
            self.old = config.default_encoding
            config.default_encoding = self.value
        return self

    def __exit__(self, *exc):
        if self.value is not _UNSET:
            from pypyr.config import config
            config.default_encoding = self.old
        return False


def platform_encoding():
    """What open(encoding=None) uses here, as a canonical codec name (the model assumes 'utf-8')."""
    import codecs
    import locale
    try:
        return codecs.lookup(locale.getpreferredencoding(False)).name
    except LookupError:
        return 'unknown'


def canonical_encoding(name):
    import codecs
    try:
        return codecs.lookup(name).name
    except LookupError:
        return name


def run_write_cfg(fmt, ctx_values, cfg, dflt=_UNSET):
    """The real filewrite step with the step input `cfg` given as is (so an `encoding` entry may be a string, an
    explicit None, or absent), under config.default_encoding = dflt."""
    from pypyr.context import Context
    modname, key = WRITE[fmt]
    mod = importlib.import_module(modname)
    ctx = Context(dict(ctx_values))
    ctx[key] = dict(cfg)
    try:
        with default_encoding(dflt):
            mod.run_step(ctx)
    except Exception as e:
        return err(e)
    return {'ok': True}


def run_fetch_cfg(fmt, ctx_values, cfg, dflt=_UNSET):
    """The real fetch step with the step input `cfg` (a path string or a mapping) given as is."""
    from pypyr.context import Context
    modname, skey = FETCH[fmt]
    mod = importlib.import_module(modname)
    ctx = Context(dict(ctx_values))
    ctx[skey] = cfg if isinstance(cfg, str) else dict(cfg)
    try:
        with default_encoding(dflt):
            mod.run_step(ctx)
    except Exception as e:
        return err(e)
    return {'ok': enc(plain(dict(ctx)))}


def run_parser_args(fmt, args, dflt=_UNSET):
    """get_parsed_context(args) of the real file context parser — args as given: None, [] or a list of strings —
    under config.default_encoding = dflt. {'ok': wire} | {'none': True} (returned None) | {'err', 'msg'}."""
    mod = importlib.import_module(PARSER[fmt])
    try:
        with default_encoding(dflt):
            out = mod.get_parsed_context(None if args is None else list(args))
    except Exception as e:
        return err(e)
    if out is None:
        return {'none': True}
    return {'ok': enc(plain(out))}


REF_FORMATTER = None          # set by props/c16.py: (ctx_values, value) -> {'ok': wire} | {'err': …} | None (not modelled)
FORMAT_DISAGREEMENTS = []     # [{'ctx', 'value', 'impl', 'model'}] since the last drain


def real_format(ctx_values, value, fmt=None):
    """The reference for "its formatted value" in the monitors. Where the Lean formatter model (REF_FORMATTER: the
    faithful tree model `Format.fmtVal`, the function the C08/C09 theorems are about) gives a value, THAT is the
    reference - the implementation's own formatter cannot be the judge of a flow that runs through it; where they
    differ the pair is recorded in FORMAT_DISAGREEMENTS. Where the model has nothing to say (input outside its
    domain, an error on its side) pypyr's own formatter is used. `fmt='json'`: with
    the mapping keys as JSON can hold them (`json_coerce_keys`) - a formatted payload with an int/bool/None/float key
    is not JSON-representable as it stands; what a JSON file can give back of it is the member name json.dump writes."""
    from pypyr.context import Context
    ctx = Context(dict(ctx_values))
    ref = None
    if REF_FORMATTER is not None:
        try:
            ref = REF_FORMATTER(ctx_values, value)
        except Exception:   # noqa: BLE001
            ref = None
    try:
        out = plain(ctx.get_formatted_value(value))
        own = {'ok': enc(out)}
    except Exception as e:
        own = err(e)
    if ref is not None and 'ok' in ref:
        if sort_wire(own.get('ok')) != sort_wire(ref['ok']):
            FORMAT_DISAGREEMENTS.append({'ctx': enc(plain_keep(dict(ctx_values))), 'value': enc(plain_keep(value)),
                                         'impl': own, 'model': ref})
        own = ref
    if fmt == 'json' and 'ok' in own:
        try:
            own = {'ok': enc(json_coerce_keys(dec(own['ok'])))}
        except Exception as e:
            own = err(e)
    return own


def json_key(k):
    """The member name `json.dump` writes for a mapping key, from the documentation of json.JSONEncoder ("keys
    that are not str are coerced": int/float by repr, True/False/None -> true/false/null; other types: TypeError)."""
    if isinstance(k, str):
        return k
    if k is True:
        return 'true'
    if k is False:
        return 'false'
    if k is None:
        return 'null'
    if isinstance(k, float):
        return float.__repr__(k)
    if isinstance(k, int):
        return int.__repr__(k)
    raise TypeError(f'keys must be str, int, float, bool or None, not {type(k).__name__}')


def json_coerce_keys(v):
    """What a JSON write -> read cycle makes of the keys: each becomes `json_key`; two keys with the same member name
    (both members are written): `json.load` keeps the first position and the last value (dict assignment)."""
    if isinstance(v, dict):
        out = {}
        for k, x in v.items():
            out[json_key(k)] = json_coerce_keys(x)
        return out
    if isinstance(v, (list, tuple)):
        return [json_coerce_keys(x) for x in v]
    return v


def has_nonstr_key(v):
    if isinstance(v, dict):
        return any(not isinstance(k, str) or has_nonstr_key(x) for k, x in v.items())
    if isinstance(v, (list, tuple)):
        return any(has_nonstr_key(x) for x in v)
    return False


class json_config:
    """`with json_config(indent, ascii):` pypyr's config.json_indent / config.json_ascii set for the real steps in this
    process, restored afterwards. `indent` / `ascii` None = leave the setting as it is (the defaults 2 / False);
    the string 'none' stands for json_indent = None."""

    def __init__(self, indent=None, ascii=None):
        self.indent, self.ascii = indent, ascii

    def __enter__(self):
        from pypyr.config import config
        self.cfg = config
        self.old = (config.json_indent, config.json_ascii)
        if self.indent is not None:
            config.json_indent = None if self.indent == 'none' else self.indent
        if self.ascii is not None:
            config.json_ascii = self.ascii
        return self

    def __exit__(self, *a):
        self.cfg.json_indent, self.cfg.json_ascii = self.old
        return False


def model_json_opts(indent, ascii):
    """The same settings in the terms of the driver's `jsonprint` op: indent absent -> 2, 'none' -> null, a negative
    int prints like 0 (`' ' * indent`)."""
    o = {}
    if indent is not None:
        o['indent'] = None if indent == 'none' else max(int(indent), 0)
    if ascii is not None:
        o['ascii'] = bool(ascii)
    return o


def pypyr_json_dump(doc):
    """The text `JsonRepresenter.dump` (fileformatjson's writer) produces for a document, under the current config."""
    from pypyr.utils.filesystem import JsonRepresenter
    s = io.StringIO()
    JsonRepresenter().dump(s, doc)
    return s.getvalue()


def render(fmt, doc):
    """Source text of a document for the fileformat flows (stdlib / third-party writers directly)."""
    if fmt == 'json':
        return json.dumps(doc, indent=1, ensure_ascii=False)
    if fmt == 'yaml':
        import ruamel.yaml
        y = ruamel.yaml.YAML(typ='rt', pure=True)
        s = io.StringIO()
        y.dump(doc, s)
        return s.getvalue()
    import tomli_w
    return tomli_w.dumps(doc)


def load(fmt, text):
    """Read a document back with the plain loader of the format (not pypyr code)."""
    if fmt == 'json':
        return json.loads(text)
    if fmt == 'yaml':
        import ruamel.yaml
        return ruamel.yaml.YAML(typ='safe', pure=True).load(text)
    import tomllib
    return tomllib.loads(text)


def enc_in_out(enc):
    """(IN encoding, OUT encoding) the options stand for — by the documentation of the steps: encodingIn /
    encodingOut win over encoding, which wins over the default (utf-8)."""
    enc = enc or {}
    return (enc.get('encodingIn') or enc.get('encoding') or 'utf-8',
            enc.get('encodingOut') or enc.get('encoding') or 'utf-8')


def run_fileformat(fmt, ctx_values, src_text, inplace, encoding, enc=None, route=None):
    """Write src_text to in.<fmt> (in the IN encoding), run the fileformat step, return (outcome, output text).
    `enc`: {encoding?, encodingIn?, encodingOut?}; `route`: inplace (no out) | out (another file) | same (out
    spells the in file) | empty (out: ''). The output is read back with the OUT encoding; text None + outcome
    {'ok': True, 'undecodable': …} when that fails."""
    from pypyr.context import Context
    modname, key = FORMAT[fmt]
    mod = importlib.import_module(modname)
    if enc is None:
        enc = {'encoding': encoding} if encoding else {}
    if route is None:
        route = 'inplace' if inplace else 'out'
    e_in, e_out = enc_in_out(enc) if fmt != 'toml' else ('utf-8', 'utf-8')
    src = 'in.' + fmt
    with open(src, 'wb') as f:
        f.write(src_text.encode(e_in))
    cfg = {'in': src}
    out = src
    if route == 'out':
        out = 'out/res.' + fmt
        cfg['out'] = out
    elif route == 'same':
        cfg['out'] = './' + src
    elif route == 'empty':
        cfg['out'] = ''
    if fmt != 'toml':
        cfg.update(enc)
    ctx = Context(dict(ctx_values))
    ctx[key] = cfg
    src_bytes = src_text.encode(e_in)
    try:
        mod.run_step(ctx)
    except Exception as e:
        o = err(e)
        o['after'] = files_after_failure(src, src_bytes, out if route == 'out' else None)
        return o, None
    with open(out, 'rb') as f:
        raw = f.read()
    try:
        return {'ok': True}, raw.decode(e_out)
    except UnicodeError as e:
        return {'ok': True, 'undecodable': f'{type(e).__name__} reading the output as {e_out}; first bytes {raw[:8]!r}'}, None


def files_after_failure(src, src_bytes, out):
    """What a fileformat step that RAISED left on disk: is the source byte for byte what it was; the state of the
    `out` file (absent | empty | partial:<n bytes>; None when the step edits in place); every other file in the
    working directory (temp files)."""
    try:
        with open(src, 'rb') as f:
            src_same = f.read() == src_bytes
    except OSError:
        src_same = False
    out_state = None
    if out is not None:
        if not os.path.exists(out):
            out_state = 'absent'
        else:
            n = os.path.getsize(out)
            out_state = 'empty' if n == 0 else f'partial:{n}'
    extra = []
    for base, _dirs, files in os.walk('.'):
        for name in files:
            p = os.path.normpath(os.path.join(base, name))
            if p not in (os.path.normpath(src), os.path.normpath(out) if out else None):
                extra.append(p)
    return {'source_intact': src_same, 'out': out_state, 'extra': sorted(extra)}


def spec_format(ctx_values, node):
    """The property text read node by node on a loaded document: "the same document with every string node, keys
    included, replaced by its formatted value and all other nodes unchanged" - the only primitive is pypyr's
    formatter applied to ONE string; mappings keep their entry order (an entry whose formatted key is there already
    takes that entry's place: dict assignment), sequences their positions. Raises what the formatter raises."""
    from pypyr.context import Context
    F = Context(dict(ctx_values)).get_formatted_value

    def rec(n):
        if isinstance(n, str):
            return plain(F(n))
        if isinstance(n, dict):
            out = {}
            for k, v in n.items():
                out[rec(k) if isinstance(k, str) else k] = rec(v)
            return out
        if isinstance(n, list):
            return [rec(x) for x in n]
        return n
    try:
        return {'ok': rec(node)}
    except Exception as e:
        return err(e)


def representable(fmt, value):
    """the plain writer of the format accepts the document (None: it raises)"""
    try:
        if fmt == 'json':
            json.dumps(value)
        else:
            render(fmt, value)
        return True
    except Exception:
        return False


def toml_order(w, aot_is_table):
    """TOML writers emit, per table, the plain entries first and the sub-tables after them (an array of tables counts
    as one or the other depending on its inline length): the entry order a TOML file preserves is the order WITHIN
    each of the two groups."""
    if isinstance(w, list):
        return [toml_order(x, aot_is_table) for x in w]
    if isinstance(w, dict) and 'd' in w:
        def is_table(v):
            if isinstance(v, dict) and 'd' in v:
                return True
            return aot_is_table and isinstance(v, list) and len(v) > 0 and all(isinstance(x, dict) and 'd' in x for x in v)
        items = [[k, toml_order(v, aot_is_table)] for k, v in w['d']]
        return {'d': [kv for kv in items if not is_table(kv[1])] + [kv for kv in items if is_table(kv[1])]}
    return w


def same_order(fmt, want_w, got_w):
    """the two (equal up to entry order) wire documents have their mapping entries in the same order, as far as the
    format preserves it (json, yaml: entirely; toml: within plain entries / within tables)"""
    if fmt != 'toml':
        return want_w == got_w
    # TOML: a table is an unordered collection by the TOML specification and tomli_w groups plain entries, tables and
    # arrays of tables as it sees fit (a first reading "order within plain entries / within tables" raised a false
    # alarm on a nested document in the thorough tier, seed 2): entry order is not judged for toml.
    return True


def third_party_roundtrip(fmt, value):
    """The codec hypothesis `dec (enc d) = d` checked directly on the third-party pair the steps use
    (ruamel round-trip dumper with pypyr's indent settings -> safe loader; tomli_w -> tomllib;
    json.dump(indent=2, ensure_ascii=False) -> json.load). True / False / None (serialiser raised)."""
    try:
        if fmt == 'json':
            text = json.dumps(value, indent=2, ensure_ascii=False)
        elif fmt == 'yaml':
            import ruamel.yaml
            y = ruamel.yaml.YAML(typ='rt', pure=True)
            y.indent(mapping=2, sequence=4, offset=2)
            s = io.StringIO()
            y.dump(value, s)
            text = s.getvalue()
        else:
            import tomli_w
            text = tomli_w.dumps(value)
    except Exception:
        return None
    try:
        back = plain(load(fmt, text))
    except Exception:
        return False        # the loader refuses what the writer wrote: `dec (enc d) = d` fails on d
    return sort_wire(enc(back)) == sort_wire(enc(value))


def clean_dir():
    for name in os.listdir('.'):
        p = os.path.join('.', name)
        if os.path.isdir(p):
            import shutil
            shutil.rmtree(p, ignore_errors=True)
        else:
            os.unlink(p)


# --------------------------------------------------------------------------
# steps on ONE context object (what a pipeline does): put a file / filewriteX / fetchX, one after the other
# --------------------------------------------------------------------------

def run_ctx_session(ctx0, ops):
    """`ops` (wire): {'op': 'put', 'format', 'path', 'doc'} - the file is (re)placed on disk with the plain writer of
    the format, no pypyr code; {'op': 'write'|'fetch', 'format', 'input'} - the real step with `in: {key: input}` the
    way Step.run_pipeline_steps does it: input into the context, run_step, input out again. ONE Context object for
    the whole list. Per op a record: put -> {'put': 'ok'|err}; step -> {'before': ctx wire, 'after': ctx wire,
    'err'?, 'file'?: what the plain loader of the format reads from the path (fetch: before the step; write: after),
    'want'?: (write) pypyr's formatter on deep copies = the formatted payload}. Stops after the first step that raises."""
    import copy
    from .common import dec
    from pypyr.context import Context
    ctx = Context(copy.deepcopy(ctx0))
    out = []

    def on_disk(fmt, path):
        try:
            with open(path, 'rb') as f:
                return {'ok': enc(plain(load(fmt, f.read().decode('utf-8'))))}
        except Exception as e:   # noqa: BLE001
            return {'unreadable': type(e).__name__}

    for op in ops:
        fmt = op['format']
        if op['op'] == 'put':
            try:
                text = render(fmt, dec(op['doc']))
                d = os.path.dirname(op['path'])
                if d:
                    os.makedirs(d, exist_ok=True)
                with open(op['path'], 'wb') as f:
                    f.write(text.encode('utf-8'))
                out.append({'put': 'ok'})
            except Exception as e:   # noqa: BLE001
                out.append({'put': err(e)})
                break
            continue
        modname, key = (WRITE if op['op'] == 'write' else FETCH)[fmt]
        mod = importlib.import_module(modname)
        inp = dec(op['input'])
        rec = {'before': sort_wire(enc(plain_keep(dict(ctx))))}
        path = inp if isinstance(inp, str) else inp.get('path')
        if op['op'] == 'fetch':
            rec['file'] = on_disk(fmt, path)
        else:
            snap = copy.deepcopy(plain_keep(dict(ctx)))
            snap[key] = copy.deepcopy(inp)
            rec['want'] = real_format(snap, copy.deepcopy(inp['payload']) if 'payload' in inp else copy.deepcopy(snap), fmt)
        ctx[key] = copy.deepcopy(inp)
        try:
            mod.run_step(ctx)
        except Exception as e:   # noqa: BLE001
            rec.update(err(e))
        ctx.pop(key, None)
        if op['op'] == 'write' and 'err' not in rec:
            rec['file'] = on_disk(fmt, path)
        try:
            rec['after'] = sort_wire(enc(plain_keep(dict(ctx))))
        except Exception as e:   # noqa: BLE001
            rec['after'] = {'unencodable': type(e).__name__}
        out.append(rec)
        if 'err' in rec:
            break
    return out


# --------------------------------------------------------------------------
# sessions: several file operations in ONE process, and each of them again in a FRESH process
# --------------------------------------------------------------------------
#
# op (JSON-able; every op carries its own input files, so it means the same thing on its own):
#   {"kind": "roundtrip", "format", "payload": wire, "ctx": wire, "reader": "fetch"|"parser", "name": file}
#   {"kind": "fetchraw",  "format", "text", "reader": "fetch"|"parser", "name", "encoding"?}
#   {"kind": "formatraw", "format", "files": [[name, text], ...], "ctx": wire, "route": "inplace"|"outdir"}

def run_op(op):
    """Run one op with the real steps in the current (scratch) directory. JSON-able observation. An op with a
    `dflt` entry runs under config.default_encoding = dflt (restored afterwards: the next op of the session sees
    the configuration as it was)."""
    if 'dflt' in op:
        with default_encoding(op['dflt']):
            return _run_op(op)
    return _run_op(op)


def _run_op(op):
    from .common import dec
    from pypyr.context import Context
    kind, fmt = op['kind'], op['format']
    if kind == 'roundtrip':
        ctx = dec(op['ctx'])
        path = op['name']
        oenc = op.get('encoding') if fmt != 'toml' else None
        w, _ = run_write(fmt, ctx, path, dec(op['payload']), True, oenc)
        if 'err' in w:
            return {'write': w}
        obs = {'write': 'ok'}
        try:
            with open(path, 'rb') as f:
                obs['text'] = f.read().decode('utf-8' if fmt == 'toml' else (oenc or op.get('dflt') or 'utf-8'))
        except Exception as e:
            obs['text'] = {'unreadable': type(e).__name__}
        if op['reader'] == 'parser':
            r = run_parser_args(fmt, op['args'], _UNSET) if 'args' in op else run_parser(fmt, path)
            obs['read'] = r
        else:
            r = run_fetch(fmt, {}, path, 'out', False, oenc)
            obs['read'] = {'ok': dict((json.dumps(k), v) for k, v in r['ok']['d']).get('"out"', {'missing': True})} \
                if 'ok' in r else r
        return obs
    if kind == 'fetchraw':
        path = op['name']
        with open(path, 'wb') as f:
            f.write(op['text'].encode(op.get('encoding') or 'utf-8'))
        if op['reader'] == 'parser':
            return {'read': run_parser(fmt, path)}
        r = run_fetch(fmt, {}, path, 'out', False, op.get('encoding'))
        return {'read': {'ok': dict((json.dumps(k), v) for k, v in r['ok']['d']).get('"out"', {'missing': True})}
                if 'ok' in r else r}
    if kind == 'formatraw':
        modname, key = FORMAT[fmt]
        mod = importlib.import_module(modname)
        names = []
        for name, text in op['files']:
            with open(name, 'wb') as f:
                f.write(text.encode('utf-8'))
            names.append(name)
        cfg = {'in': names if len(names) > 1 or op.get('aslist') else names[0]}
        outdir = ''
        if op.get('route') == 'outdir':
            cfg['out'] = 'res/'
            outdir = 'res/'
        ctx = Context(dec(op['ctx']))
        ctx[key] = cfg
        try:
            mod.run_step(ctx)
        except Exception as e:
            return {'format': err(e)}
        outs = []
        for name in names:
            try:
                with open(outdir + name, 'rb') as f:
                    outs.append([name, f.read().decode('utf-8')])
            except Exception as e:
                outs.append([name, {'unreadable': type(e).__name__}])
        return {'format': 'ok', 'outs': outs}
    raise ValueError(kind)


def _child(fn, timeout):
    """Run fn() in a forked child in a scratch directory; JSON result over a pipe. A child that raises, dies or
    does not finish in time is an observation, never a hang."""
    import select
    import shutil
    import signal
    import tempfile
    import time
    r, w = os.pipe()
    pid = os.fork()
    if pid == 0:
        code = 0
        try:
            os.close(r)
            d = tempfile.mkdtemp(prefix='verif-c16s-')
            os.chdir(d)
            try:
                try:
                    res = fn()
                except RecursionError:
                    res = {'crashed': 'RecursionError'}
                except BaseException as e:   # noqa: BLE001 - anything out of the tree under test is an observation
                    res = {'crashed': exc_name(e), 'msg': str(e)[:200]}
                data = json.dumps(res).encode()
                while data:
                    n = os.write(w, data)
                    data = data[n:]
            finally:
                os.chdir('/')
                shutil.rmtree(d, ignore_errors=True)
        except BaseException:
            code = 3
        finally:
            os._exit(code)
    os.close(w)
    buf, deadline, timed_out = b'', time.time() + timeout, False
    while True:
        left = deadline - time.time()
        if left <= 0:
            timed_out = True
            break
        rd, _, _ = select.select([r], [], [], left)
        if not rd:
            timed_out = True
            break
        b = os.read(r, 1 << 16)
        if not b:
            break
        buf += b
    os.close(r)
    if timed_out:
        try:
            os.kill(pid, signal.SIGKILL)
        except OSError:
            pass
    os.waitpid(pid, 0)
    if timed_out:
        return {'timeout': timeout}
    try:
        return json.loads(buf.decode())
    except Exception:
        return {'crashed': 'child died without a result'}


def run_session_isolated(ops, timeout=30):
    """Called in a PRISTINE process (the zygote): the whole session in one forked child, and every op alone in
    a forked child of its own."""
    def whole():
        out = []
        for i, op in enumerate(ops):
            sub = 's%d' % i
            os.makedirs(sub, exist_ok=True)
            cwd = os.getcwd()
            os.chdir(sub)
            try:
                try:
                    out.append(run_op(op))
                except RecursionError:
                    out.append({'crashed': 'RecursionError'})
                except Exception as e:
                    out.append({'crashed': exc_name(e), 'msg': str(e)[:200]})
            finally:
                os.chdir(cwd)
        return out
    insession = _child(whole, timeout)
    fresh = [_child(lambda op=op: run_op(op), timeout) for op in ops]
    return {'insession': insession, 'fresh': fresh}


def zygote_main():
    """`python -m harness.impl_c16`: a process that has imported the tree under test and NOTHING else happened in
    it; serves one JSON request per line: {"ops": [...]} -> {"insession": [...], "fresh": [...]}."""
    import sys
    from . import common
    common.use_repo()
    for m in list(WRITE.values()) + list(FETCH.values()) + list(FORMAT.values()):
        importlib.import_module(m[0])
    for m in PARSER.values():
        importlib.import_module(m)
    sys.stdout.write(json.dumps({'ready': True}) + '\n')
    sys.stdout.flush()
    for line in sys.stdin:
        line = line.strip()
        if not line:
            continue
        try:
            req = json.loads(line)
            res = run_session_isolated(req['ops'], req.get('timeout', 30))
        except Exception as e:   # noqa: BLE001
            res = {'zygote-error': f'{type(e).__name__}: {e}'}
        sys.stdout.write(json.dumps(res) + '\n')
        sys.stdout.flush()


class Zygote:
    """Client side: one pristine helper process per harness process."""

    def __init__(self):
        import subprocess
        import sys
        from . import common
        self.p = subprocess.Popen([sys.executable, '-m', 'harness.impl_c16'], cwd=str(common.VERIF),
                                  stdin=subprocess.PIPE, stdout=subprocess.PIPE, text=True, bufsize=1)
        first = self.p.stdout.readline()
        if not first or 'ready' not in first:
            raise common.Infra('C16 session helper did not start: ' + repr(first))

    def session(self, ops, timeout=30):
        import select
        from . import common
        self.p.stdin.write(json.dumps({'ops': ops, 'timeout': timeout}) + '\n')
        self.p.stdin.flush()
        rd, _, _ = select.select([self.p.stdout], [], [], timeout * (len(ops) + 2) + 30)
        if not rd:
            self.close()
            raise common.Infra('C16 session helper does not answer')
        line = self.p.stdout.readline()
        if not line:
            raise common.Infra('C16 session helper closed the stream')
        return json.loads(line)

    def close(self):
        try:
            self.p.stdin.close()
            self.p.wait(timeout=5)
        except Exception:
            self.p.kill()


if __name__ == '__main__':
    zygote_main()
