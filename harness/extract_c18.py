"""ast-based extractor for C18: reads pypyr/cli.py (and pypyr/__main__.py) of the tree under test
WITHOUT importing them and regenerates lean/Generated/CliMain.lean:

  * `callsOfMain`: every call `pypyr.cli.main` makes outside its exception handlers, in source
    order, with its position relative to the function's single `try` statement
    ("before-try" | "try" | "else" | "finally" | "after-try") and the dotted name of the callee;
  * `handlers`: the ordered `except` ladder of that `try`: caught classes and the source text of the
    expression each handler returns ("<falls-through>" / "<raises>" when it does not end in `return`);
  * `errorWrites` / `interruptWrites`: the leading `sys.stderr.write(...)` / `sys.stdout.write(...)`
    arguments of the `Exception` / `KeyboardInterrupt` handler as f-string pieces
    ((false, literal text) | (true, source of the replacement field));
  * `entryPoint`: how `pypyr/__main__.py` turns main's return value into the exit status.

  * `errorTail`: the statements of the `Exception` handler after those writes, one string per
    statement with its nesting depth (`"0:if parsed_args.log_level"`, …): the guard of the traceback.

and lean/Generated/CliOptions.lean from `get_parser` / `get_args`:

  * `parserKwargs`: the keyword arguments of `argparse.ArgumentParser(…)` other than `description` /
    `formatter_class` / `prog` / `epilog` / `usage` (source text) - `allow_abbrev` is among them;
  * `arguments`: one row per `parser.add_argument(…)` in source order: option strings, dest, and the
    source text of `nargs`, `type`, `default`, `action` ("-" when absent), names of any other keyword
    (anything but `help` / `version`);
  * `otherStatements`: statements of `get_parser` that are neither the constructor assignment, nor an
    `add_argument` call, nor `return parser`; `getArgs`: the expression `get_args` returns.

`Props/C18.lean` proves (`decide +kernel`) that these equal what `PypyrModel/Cli.lean` assumes
(`mainShape`, `mainHandlers`, `mainStderrWrites`, `mainTracebackGuard`, `parserRows`), so moving a call out of the `try`, reordering or
narrowing a handler, or changing what is written breaks a proof obligation before any generated
input reaches it. A source that no longer has the expected overall shape raises `Shape`
(-> "extractor failed" proof problem). The file is rewritten only when it changes.
"""
from __future__ import annotations

import ast
from pathlib import Path


class Shape(Exception):
    pass


def lean_str(s: str) -> str:
    out = '"'
    for ch in s:
        if ch == '"':
            out += '\\"'
        elif ch == '\\':
            out += '\\\\'
        elif ch == '\n':
            out += '\\n'
        elif 32 <= ord(ch) < 127:
            out += ch
        elif ord(ch) < 256:
            out += '\\x%02x' % ord(ch)
        else:
            out += '\\u%04x' % ord(ch) if ord(ch) < 0x10000 else ch
    return out + '"'


def dotted(node) -> str:
    if isinstance(node, ast.Name):
        return node.id
    if isinstance(node, ast.Attribute):
        return dotted(node.value) + '.' + node.attr
    if isinstance(node, ast.Call):
        return dotted(node.func) + '()'
    return '<' + type(node).__name__ + '>'


def names_of(t):
    if t is None:
        return ['BaseException']
    if isinstance(t, ast.Tuple):
        return [n for e in t.elts for n in names_of(e)]
    if isinstance(t, (ast.Name, ast.Attribute)):
        return [dotted(t)]
    return ['?']


def calls_in(stmts):
    """Dotted callee names of every Call below these statements, by source position. Nested
    function/class definitions and lambdas would hide calls from this listing: refuse them."""
    found = {}
    for s in stmts:
        for n in ast.walk(s):
            if isinstance(n, (ast.FunctionDef, ast.AsyncFunctionDef, ast.ClassDef, ast.Lambda)):
                raise Shape(f'cli.main contains a nested {type(n).__name__} at line {n.lineno}: re-read it')
            if isinstance(n, (ast.Try, getattr(ast, 'TryStar', ast.Try))):
                raise Shape(f'cli.main has a nested try at line {n.lineno}: re-read it')
            if isinstance(n, ast.Call):
                found[(n.lineno, n.col_offset)] = dotted(n.func)
    return [found[k] for k in sorted(found)]


def pieces(arg):
    if isinstance(arg, ast.Constant) and isinstance(arg.value, str):
        return [(False, arg.value)]
    if isinstance(arg, ast.JoinedStr):
        out = []
        for v in arg.values:
            if isinstance(v, ast.Constant) and isinstance(v.value, str):
                out.append((False, v.value))
            elif isinstance(v, ast.FormattedValue):
                src = ast.unparse(v.value)
                if v.conversion != -1:
                    src += '!' + chr(v.conversion)
                if v.format_spec is not None:
                    src += ':' + ast.unparse(v.format_spec)
                out.append((True, src))
            else:
                out.append((True, ast.unparse(v)))
        return out
    return [(True, ast.unparse(arg))]


def leading_writes(handler, stream):
    """Arguments of the `sys.<stream>.write(x)` statements the handler starts with."""
    out = []
    for s in handler.body:
        if (isinstance(s, ast.Expr) and isinstance(s.value, ast.Call) and dotted(s.value.func) == f'sys.{stream}.write'
                and len(s.value.args) == 1 and not s.value.keywords):
            out.append(pieces(s.value.args[0]))
        else:
            break
    return out


def handler_result(h):
    last = h.body[-1]
    if isinstance(last, ast.Return):
        # a return hidden in a branch before the last statement would make the result conditional
        early = [n for b in h.body[:-1] for n in ast.walk(b) if isinstance(n, (ast.Return, ast.Raise))]
        if early:
            return '<conditional>'
        return 'None' if last.value is None else ast.unparse(last.value)
    if any(isinstance(n, ast.Raise) for b in h.body for n in ast.walk(b)):
        return '<raises>'
    if any(isinstance(n, ast.Return) for b in h.body for n in ast.walk(b)):
        return '<conditional>'
    return '<falls-through>'


def flat_stmts(stmts, depth):
    """One string per statement, prefixed with its nesting depth; compound statements by their header."""
    out = []
    for st in stmts:
        if isinstance(st, ast.If):
            out.append(f'{depth}:if {ast.unparse(st.test)}')
            out += flat_stmts(st.body, depth + 1)
            if st.orelse:
                out.append(f'{depth}:else')
                out += flat_stmts(st.orelse, depth + 1)
        elif isinstance(st, (ast.For, ast.While, ast.With, ast.Try)):
            out.append(f'{depth}:{ast.unparse(st).splitlines()[0]}')
            for field in ('body', 'orelse', 'finalbody'):
                out += flat_stmts(getattr(st, field, []) or [], depth + 1)
        else:
            out.append(f'{depth}:{ast.unparse(st)}')
    return out


def find_main(tree):
    for n in tree.body:
        if isinstance(n, ast.FunctionDef) and n.name == 'main':
            return n
    raise Shape('pypyr.cli.main not found')


def describe(repo: Path):
    tree = ast.parse((repo / 'pypyr' / 'cli.py').read_text())
    fn = find_main(tree)
    body = [s for s in fn.body
            if not (isinstance(s, ast.Expr) and isinstance(s.value, ast.Constant) and isinstance(s.value.value, str))]
    tries = [s for s in body if isinstance(s, ast.Try)]
    if len(tries) != 1:
        raise Shape(f'pypyr.cli.main has {len(tries)} top-level try statements, expected exactly 1')
    t = tries[0]
    k = body.index(t)
    calls = []
    for pos, stmts in (('before-try', body[:k]), ('try', t.body), ('else', t.orelse), ('finally', t.finalbody),
                       ('after-try', body[k + 1:])):
        calls += [(pos, c) for c in calls_in(stmts)]
    handlers = [(names_of(h.type), handler_result(h)) for h in t.handlers]
    err_h = [h for h in t.handlers if names_of(h.type) == ['Exception']]
    ki_h = [h for h in t.handlers if names_of(h.type) == ['KeyboardInterrupt']]
    err_w = leading_writes(err_h[0], 'stderr') if err_h else []
    ki_w = leading_writes(ki_h[0], 'stdout') if ki_h else []
    err_name = err_h[0].name if err_h else None
    err_tail = flat_stmts(err_h[0].body[len(err_w):], 0) if err_h else []
    # what else may main return: a `return` outside the handlers changes the exit status of a completed run
    plain_returns = [ast.unparse(n.value) if n.value is not None else 'None'
                     for s in body[:k] + t.body + t.orelse + t.finalbody + body[k + 1:]
                     for n in ast.walk(s) if isinstance(n, ast.Return)]
    # pypyr/__main__.py: `sys.exit(main())` with main returning pypyr.cli.main()
    mtree = ast.parse((repo / 'pypyr' / '__main__.py').read_text())
    entry = []
    for n in mtree.body:
        if isinstance(n, ast.FunctionDef) and n.name == 'main':
            rets = [ast.unparse(r.value) if r.value is not None else 'None' for r in ast.walk(n) if isinstance(r, ast.Return)]
            entry.append('main: return ' + ' | '.join(rets))
        if isinstance(n, ast.If) and ast.unparse(n.test) == "__name__ == '__main__'":
            entry += [ast.unparse(s) for s in n.body]
    return {'calls': calls, 'handlers': handlers, 'err_writes': err_w, 'ki_writes': ki_w, 'err_name': err_name,
            'err_tail': err_tail, 'plain_returns': plain_returns, 'entry': entry}


def lean_pieces(ws):
    return '[' + ', '.join('[' + ', '.join(f'({"true" if e else "false"}, {lean_str(txt)})' for e, txt in w) + ']'
                           for w in ws) + ']'


PARSER_MODULES = ['keyvaluepairs', 'argskwargs', 'dict', 'list', 'string', 'keys', 'json']


def parser_returns(repo: Path):
    """For each built-in context parser: where every `return` of `get_parsed_context` takes its value from -
    'none' (return None), 'new' (an object built by this call: display, comprehension, call, or a local bound to
    such), 'param' (the argument itself), 'module:<name>' (an object that lives at module level and is
    therefore shared by all calls - in a value position: dict keys and called functions do not count)."""
    out = []
    for short in PARSER_MODULES:
        tree = ast.parse((repo / 'pypyr' / 'parser' / f'{short}.py').read_text())
        fn = next((n for n in tree.body if isinstance(n, ast.FunctionDef) and n.name == 'get_parsed_context'), None)
        if fn is None:
            out.append((short, ['missing']))
            continue
        params = {a.arg for a in fn.args.args + fn.args.kwonlyargs}
        assigns = {}
        for n in ast.walk(fn):
            tgts, val = [], None
            if isinstance(n, ast.Assign):
                tgts, val = n.targets, n.value
            elif isinstance(n, ast.AnnAssign) and n.value is not None:
                tgts, val = [n.target], n.value
            elif isinstance(n, (ast.For, ast.comprehension)):
                tgts, val = [n.target], None
            for t in tgts:
                for nm in ast.walk(t):
                    if isinstance(nm, ast.Name):
                        assigns.setdefault(nm.id, []).append(val)

        def value_names(e):
            """Names in value positions of e (not dict keys, not the callee of a call, not comprehension-bound)"""
            if isinstance(e, ast.Name):
                return [e.id]
            if isinstance(e, ast.Dict):
                return [x for v in e.values for x in value_names(v)]
            if isinstance(e, ast.Call):
                return []           # a call builds / returns what it likes; its result is not a module-level NAME
            if isinstance(e, (ast.DictComp, ast.ListComp, ast.SetComp, ast.GeneratorExp)):
                return []
            if isinstance(e, (ast.List, ast.Tuple, ast.Set)):
                return [x for v in e.elts for x in value_names(v)]
            if isinstance(e, ast.Constant) or e is None:
                return []
            if isinstance(e, (ast.Attribute, ast.Subscript)):
                return value_names(e.value)
            if isinstance(e, ast.IfExp):
                return value_names(e.body) + value_names(e.orelse)
            if isinstance(e, ast.BoolOp):
                return [x for v in e.values for x in value_names(v)]
            return ['?' + type(e).__name__]

        def classify(e, depth=0):
            if e is None or (isinstance(e, ast.Constant) and e.value is None):
                return 'none'
            worst = 'new'
            for nm in value_names(e):
                if nm.startswith('?'):
                    return 'unknown:' + nm[1:]
                if nm in params:
                    if isinstance(e, ast.Name):
                        worst = 'param'
                    continue
                if nm in assigns and depth < 4:
                    for v in assigns[nm]:
                        c = classify(v, depth + 1) if v is not None else 'new'
                        if c.startswith(('module:', 'unknown:')):
                            return c
                    continue
                return 'module:' + nm
            return worst
        rets = [classify(n.value) for n in sorted((n for n in ast.walk(fn) if isinstance(n, ast.Return)), key=lambda n: n.lineno)]
        out.append((short, rets))
    return out


def render(repo: Path) -> str:
    d = describe(repo)
    pr = parser_returns(repo)
    lines = [
        '/- GENERATED by harness/extract_c18.py from pypyr/cli.py and pypyr/__main__.py — do not edit. -/',
        'namespace Pypyr.Generated.CliMain',
        '',
        '/-- Calls of `pypyr.cli.main` outside its exception handlers, source order: (position, callee). -/',
        'def callsOfMain : List (String × String) :=\n  [' + ',\n   '.join(f'({lean_str(p)}, {lean_str(c)})' for p, c in d['calls']) + ']',
        '',
        '/-- The `except` ladder of the `try` in `main`: (caught classes, returned expression). -/',
        'def handlers : List (List String × String) :=\n  [' + ',\n   '.join(
            '([' + ', '.join(lean_str(c) for c in cs) + '], ' + lean_str(r) + ')' for cs, r in d['handlers']) + ']',
        '',
        '/-- Name the `Exception` handler binds. -/',
        'def errorName : Option String := ' + ('none' if d['err_name'] is None else f'some {lean_str(d["err_name"])}'),
        '',
        '/-- Leading `sys.stderr.write(…)` arguments of the `Exception` handler, as f-string pieces. -/',
        'def errorWrites : List (List (Bool × String)) :=\n  ' + lean_pieces(d['err_writes']),
        '',
        '/-- The rest of the `Exception` handler, one string per statement: "<depth>:<source>". -/',
        'def errorTail : List String := [' + ', '.join(lean_str(x) for x in d['err_tail']) + ']',
        '',
        '/-- Leading `sys.stdout.write(…)` arguments of the `KeyboardInterrupt` handler. -/',
        'def interruptWrites : List (List (Bool × String)) :=\n  ' + lean_pieces(d['ki_writes']),
        '',
        '/-- `return` statements of `main` outside the handlers (none: a completed run returns `None`). -/',
        'def plainReturns : List String := [' + ', '.join(lean_str(r) for r in d['plain_returns']) + ']',
        '',
        '/-- `pypyr/__main__.py`: what its `main` returns and what runs under `__name__ == "__main__"`. -/',
        'def entryPoint : List String := [' + ', '.join(lean_str(e) for e in d['entry']) + ']',
        '',
        '/-- Every `return` of each built-in parser\'s `get_parsed_context`: none / new (built by the call) / param / module:<name>. -/',
        'def parserReturns : List (String × List String) :=\n  [' + ',\n   '.join(
            f'({lean_str(n)}, [' + ', '.join(lean_str(r) for r in rs) + '])' for n, rs in pr) + ']',
        '',
        'end Pypyr.Generated.CliMain',
        '']
    return '\n'.join(lines)


def find_fn(tree, name):
    for n in tree.body:
        if isinstance(n, ast.FunctionDef) and n.name == name:
            return n
    raise Shape(f'pypyr.cli.{name} not found')


IGNORED_PARSER_KW = {'description', 'formatter_class', 'prog', 'epilog', 'usage'}
ROW_KW = ('dest', 'nargs', 'type', 'default', 'action')
IGNORED_ARG_KW = {'help', 'version'}


def describe_parser(repo: Path):
    """The argparse definition in `get_parser` as data (ast only)."""
    tree = ast.parse((repo / 'pypyr' / 'cli.py').read_text())
    fn = find_fn(tree, 'get_parser')
    body = [s for s in fn.body
            if not (isinstance(s, ast.Expr) and isinstance(s.value, ast.Constant) and isinstance(s.value.value, str))]
    var, kwargs, rows, other = None, [], [], []
    for st in body:
        if (isinstance(st, ast.Assign) and len(st.targets) == 1 and isinstance(st.targets[0], ast.Name)
                and isinstance(st.value, ast.Call) and dotted(st.value.func) in ('argparse.ArgumentParser', 'ArgumentParser')
                and var is None):
            var = st.targets[0].id
            if st.value.args:
                other.append('positional arguments to ArgumentParser: ' + ast.unparse(st.value))
            kwargs = [(k.arg or '**', ast.unparse(k.value)) for k in st.value.keywords if k.arg not in IGNORED_PARSER_KW]
        elif (isinstance(st, ast.Expr) and isinstance(st.value, ast.Call) and var is not None
              and dotted(st.value.func) == f'{var}.add_argument'):
            call = st.value
            names = []
            for a in call.args:
                if isinstance(a, ast.Constant) and isinstance(a.value, str):
                    names.append(a.value)
                else:
                    names.append('<' + ast.unparse(a) + '>')
            kw = {k.arg or '**': ast.unparse(k.value) for k in call.keywords}
            opts = [n for n in names if n.startswith('-')]
            plain = [n for n in names if not n.startswith('-')]
            dest = kw.get('dest')
            if dest is not None:
                try:
                    dest = ast.literal_eval(dest)
                except Exception:
                    pass
            elif plain:
                dest = plain[0]
            else:
                dest = '-'
            if plain and 'dest' in kw:
                other.append('add_argument with a positional name and dest: ' + ast.unparse(call))
            rows.append({'options': opts, 'dest': str(dest),
                         **{k: kw.get(k, '-') for k in ROW_KW if k != 'dest'},
                         'other': sorted(k for k in kw if k not in ROW_KW and k not in IGNORED_ARG_KW)})
        elif isinstance(st, ast.Return) and var is not None and isinstance(st.value, ast.Name) and st.value.id == var:
            continue
        else:
            other.append(ast.unparse(st).splitlines()[0])
    ga = find_fn(tree, 'get_args')
    rets = [ast.unparse(n.value) if n.value is not None else 'None' for n in ast.walk(ga) if isinstance(n, ast.Return)]
    return {'kwargs': kwargs, 'rows': rows, 'other': other, 'get_args': rets}


def render_options(repo: Path) -> str:
    d = describe_parser(repo)

    def row(r):
        return ('([' + ', '.join(lean_str(o) for o in r['options']) + '], ' + lean_str(r['dest']) + ', ' +
                ', '.join(lean_str(r[k]) for k in ('nargs', 'type', 'default', 'action')) + ', [' +
                ', '.join(lean_str(o) for o in r['other']) + '])')
    lines = [
        '/- GENERATED by harness/extract_c18.py from pypyr/cli.py (get_parser, get_args) — do not edit. -/',
        'namespace Pypyr.Generated.CliOptions',
        '',
        '/-- Keyword arguments of `argparse.ArgumentParser(…)` that change parsing: (name, source text). -/',
        'def parserKwargs : List (String × String) := [' + ', '.join(
            f'({lean_str(k)}, {lean_str(v)})' for k, v in d['kwargs']) + ']',
        '',
        '/-- One row per `add_argument`, source order: option strings, dest, nargs, type, default, action',
        '    (source text, "-" when absent), other keywords given. -/',
        'def arguments : List (List String × String × String × String × String × String × List String) :=\n  [' +
        ',\n   '.join(row(r) for r in d['rows']) + ']',
        '',
        '/-- Statements of `get_parser` other than the constructor, `add_argument` calls and `return parser`. -/',
        'def otherStatements : List String := [' + ', '.join(lean_str(x) for x in d['other']) + ']',
        '',
        '/-- What `get_args(args)` returns. -/',
        'def getArgs : List String := [' + ', '.join(lean_str(x) for x in d['get_args']) + ']',
        '',
        'end Pypyr.Generated.CliOptions',
        '']
    return '\n'.join(lines)


def _write(target, text):
    target.parent.mkdir(parents=True, exist_ok=True)
    if not target.exists() or target.read_text() != text:
        target.write_text(text)


def generate(repo, target):
    """Writes `target` (Generated/CliMain.lean) and, next to it, CliOptions.lean."""
    repo, target = Path(repo), Path(target)
    text = render(repo)
    _write(target, text)
    _write(target.parent / 'CliOptions.lean', render_options(repo))
    return text


def injectable_lines(repo):
    """Line numbers of pypyr.cli.main at which a raised exception is 'an error escaping the command'
    in the sense of the property text: every line of every statement of `main` that comes after the
    statement that parses the arguments (the first one calling `get_args`) and is not inside an
    exception handler - whatever its position relative to any `try`. Used by the fault-injection
    family of harness/props/c18.py; deliberately independent of where the `try` is."""
    repo = Path(repo)
    tree = ast.parse((repo / 'pypyr' / 'cli.py').read_text())
    fn = find_main(tree)
    out = []
    seen_args = False

    def stmt_lines(stmts):
        for s in stmts:
            if isinstance(s, ast.Try):
                stmt_lines(s.body)
                stmt_lines(s.orelse)
                stmt_lines(s.finalbody)
            elif isinstance(s, (ast.If, ast.For, ast.While, ast.With)):
                out.append((s.lineno, ast.unparse(s).split('\n')[0]))
                stmt_lines(s.body)
                stmt_lines(getattr(s, 'orelse', []))
            else:
                first = ast.unparse(s).split('\n')[0]
                for ln in range(s.lineno, (s.end_lineno or s.lineno) + 1):
                    out.append((ln, first))
    for s in fn.body:
        if not seen_args:
            if any(isinstance(n, ast.Call) and dotted(n.func).endswith('get_args') for n in ast.walk(s)):
                seen_args = True
            continue
        stmt_lines([s])
    if not seen_args:
        raise Shape('pypyr.cli.main does not call get_args')
    return out


if __name__ == '__main__':
    import sys
    r = Path(sys.argv[1] if len(sys.argv) > 1 else '/repo')
    print(render(r))
    print(render_options(r))
    print(injectable_lines(r))
