"""Run a flow program (wire form, DESIGN.md appendix E) on the real pypyr and return the
canonical observation; render it to yaml; run it on the Lean model through the driver."""
from __future__ import annotations

import json
import os
import re
import shutil
import sys
import tempfile
from pathlib import Path

from . import common
from .common import dec, enc, py_src

PROBE_DIR = Path(__file__).resolve().parent / 'probe'
MISSING_W = {'missing': 1}


# --------------------------------------------------------------------------
# yaml rendering (flow-style JSON values; records line/col of every step)
# --------------------------------------------------------------------------

class Scalars:
    """How string scalars are written (layout keys `scalars`, `anchors`): the same value as double-quoted JSON
    text (default), single-quoted, plain where yaml reads it back as the same string, a `|-` / `>-` block
    scalar (top-level step keys of block style only), and - `anchors` - with an anchor at the first use of a
    text and an alias at every later use (ruamel's round-trip loader delivers anchored and block scalars as
    SUBCLASSES of str). The value loaded is the same in every style."""
    PLAIN_OK = re.compile(r'^[A-Za-z_][A-Za-z0-9_ .-]*[A-Za-z0-9_]$')
    WORDS = {'true', 'false', 'null', 'yes', 'no', 'on', 'off', 'y', 'n', 'nan', 'inf'}
    PRINTABLE = re.compile(r'^[\x20-\x7e]*$')
    BLOCK_OK = re.compile(r'^[\x21-\x7e]([\x20-\x7e]*[\x21-\x7e])?$')

    def __init__(self, lay):
        self.style = (lay or {}).get('scalars')
        self.anchors = bool((lay or {}).get('anchors'))
        self.seen = {}
        self.n = 0

    def _one(self, s, style):
        if style == 'single' and self.PRINTABLE.match(s):
            return "'" + s.replace("'", "''") + "'"
        if style == 'plain' and self.PLAIN_OK.match(s) and s.lower() not in self.WORDS and '  ' not in s \
                and ' #' not in s and ': ' not in s:
            return s
        if style == 'plain' and self.PRINTABLE.match(s):
            return "'" + s.replace("'", "''") + "'"
        return json.dumps(s, ensure_ascii=True)

    def _style(self):
        if self.style == 'mixed':
            self.n += 1
            return ('single', 'literal', None, 'folded', 'plain')[self.n % 5]
        return self.style

    def inline(self, s):
        """a string anywhere inside a flow collection"""
        if self.anchors and s != '':
            if s in self.seen:
                return '*' + self.seen[s]
            self.seen[s] = f'a{len(self.seen) + 1}'
            st = self._style()
            return f'&{self.seen[s]} ' + self._one(s, st if st in ('single', 'plain') else 'single')
        st = self._style()
        return self._one(s, st if st in ('single', 'plain') else None)

    def top(self, s, indent):
        """the value of a top-level key of a block-style step: block scalars are possible here"""
        st = self._style()
        if st in ('literal', 'folded') and self.BLOCK_OK.match(s):
            head = '|-' if st == 'literal' else '>-'
            if self.anchors:
                if s in self.seen:
                    return '*' + self.seen[s]
                self.seen[s] = f'a{len(self.seen) + 1}'
                head = f'&{self.seen[s]} {head}'
            return head + '\n' + ' ' * (indent + 4) + s
        if self.anchors and s != '':
            if s in self.seen:
                return '*' + self.seen[s]
            self.seen[s] = f'a{len(self.seen) + 1}'
            return f'&{self.seen[s]} ' + self._one(s, st if st in ('single', 'plain') else 'single')
        return self._one(s, st if st in ('single', 'plain') else None)


def yval(w, sty=None) -> str:
    """wire value -> yaml flow text. Only yaml-expressible kinds."""
    if w is None:
        return 'null'
    if w is True:
        return 'true'
    if w is False:
        return 'false'
    if isinstance(w, int):
        return str(w)
    if isinstance(w, str):
        return sty.inline(w) if sty is not None else json.dumps(w, ensure_ascii=True)
    if isinstance(w, list):
        return '[' + ', '.join(yval(x, sty) for x in w) + ']'
    if 'f' in w:
        n, k = w['f']
        return repr(n / (1 << k))
    if 'd' in w:
        return '{' + ', '.join(f'{yval(k)}: {yval(v, sty)}' for k, v in w['d']) + '}'
    if 'sic' in w:
        return '!sic ' + json.dumps(w['sic'], ensure_ascii=True)
    if 'py' in w:
        return '!py ' + json.dumps(py_src(w['py']), ensure_ascii=True)
    if 'pyraw' in w:
        # python source outside the modelled expression language (implementation-only directed cases)
        return '!py ' + json.dumps(w['pyraw'], ensure_ascii=True)
    if 'jsonify' in w:
        return '!jsonify ' + yval(w['jsonify'], sty)
    raise ValueError(f'not expressible in yaml: {w}')


STEP_KEYS = ['name', 'description', 'in', 'run', 'skip', 'swallow', 'foreach', 'while', 'retry', 'onError']


def is_item(st):
    """A sequence item that is neither a step name nor a step mapping: {'item': wire value}."""
    return isinstance(st, dict) and set(st) == {'item'}


def step_pairs(st, sty=None, indent=None, skip=()):
    """[(key, yaml flow text)] of a complex step, in the order the keys are written. `sty`: how string scalars
    are written; `indent` (block style only): column of the step's keys - then `|-` / `>-` are possible for
    the values of the step's own keys."""
    out = []
    for key in STEP_KEYS:
        if key not in st or key in skip:
            continue
        v = st[key]
        if key == 'name':
            # a name that is not a string (a yaml slip) is written as the value it is
            txt = 'null' if v is None else (v if isinstance(v, str) and PLAIN.match(v) else yval(v))
        elif key == 'in':
            if isinstance(v, dict) and set(v) == {'bad'}:
                txt = yval(v['bad'])          # `in:` that is no mapping (a yaml slip)
            else:
                txt = 'null' if v is None else '{' + ', '.join(f'{yval(k)}: {yval(x, sty)}' for k, x in v) + '}'
        elif key in ('while', 'retry'):
            if v is None:
                txt = 'null'
            elif 'bad' in v:
                txt = yval(v['bad'])
            else:
                txt = '{' + ', '.join(f'{k}: {yval(x, sty)}' for k, x in v.items()) + '}'
        elif isinstance(v, str) and sty is not None and indent is not None:
            txt = sty.top(v, indent)
        else:
            txt = yval(v, sty)
        out.append((key, txt))
    if not out and not skip:
        raise ValueError('step without keys')
    return out


MERGEABLE = ('run', 'skip', 'swallow', 'foreach', 'while', 'retry', 'onError')


def merge_defs(pipe, sty):
    """layout `merge`: the decorators of every complex step move into an anchored mapping under the extra
    top-level key `zdefs` and the step pulls them in with a merge key (`<<: *m1`): the common way of giving
    many steps one retry / swallow policy. Identical decorator sets share one anchor."""
    defs, order = {}, []
    for _, steps in pipe['groups']:
        for st in steps_of(steps):
            if isinstance(st, dict) and not is_item(st) and isinstance(st.get('name'), str):
                if any(k in st for k in MERGEABLE) and not any(
                        isinstance(st.get(k), dict) and 'bad' in st[k] for k in ('while', 'retry')) \
                        and not any(k in st and st[k] is None for k in ('while', 'retry')):
                    pairs = step_pairs({k: st[k] for k in MERGEABLE if k in st}, sty)
                    txt = '{' + ', '.join(f'{k}: {t}' for k, t in pairs) + '}'
                    if txt not in defs:
                        defs[txt] = f'm{len(defs) + 1}'
                        order.append(txt)
                    st['_merge'] = defs[txt]
    return [(defs[t], t) for t in order]


PLAIN = re.compile(r'^[A-Za-z_][A-Za-z0-9_.]*$')


def body_scalar(steps):
    """A group body that is not a sequence: {'scalar': wire value} (int, float, bool, str, mapping, tag)."""
    return isinstance(steps, dict) and set(steps) == {'scalar'}


def render_pipe(pipe) -> str:
    """Render one pipeline; fills step['line'], step['col'] (1-based) with the place the renderer itself
    puts the step: the first key of a block mapping, the opening brace of a flow mapping.

    pipe['layout'] (optional) chooses among equivalent ways of writing the same document:
      style   'block' (default) | 'flow' (every group a flow sequence) | 'wrap' (the whole document one flow
              mapping: JSON-style)
      quote   flow/wrap: keys and plain strings in double quotes (JSON)
      perline flow/wrap: True: every step starts on a line of its own; 'rest': every step but the first of
              its group; False: all on the line of the group key
      pad     flow/wrap + perline: indentation of those lines
      indent  block: column offset of the dash (0, 2, 4)
      dashsplit block: the dash alone on its line, the mapping on the next
      lead    number of comment lines before the document; docstart: a '---' line
      scalars how string values are written: absent = double-quoted (JSON), 'single', 'plain' (where yaml reads the
              same string back), 'literal' / 'folded' (`|-` / `>-` for the values of a block-style step's own keys),
              'mixed' (cycling through them)
      anchors every distinct text gets an anchor at its first use and is an alias from then on (the loader
              delivers anchored and block scalars as subclasses of str)
      merge   block: the decorators of every step stand in an anchored mapping under the extra top-level key
              `zdefs` and reach the step through a merge key (`<<: *m1`)
    """
    lay = pipe.get('layout') or {}
    style = lay.get('style', 'block')
    lines = ['# generated'] * int(lay.get('lead', 0))
    if lay.get('docstart'):
        lines.append('---')
    sty = Scalars(lay) if (lay.get('scalars') or lay.get('anchors')) else None
    for _, steps_ in pipe['groups']:
        for st_ in steps_of(steps_):
            if isinstance(st_, dict):
                st_.pop('_merge', None)
    if style == 'block':
        ind = ' ' * int(lay.get('indent', 2))
        if pipe.get('parser'):
            lines.append(f"context_parser: {pipe['parser']}")
        if lay.get('merge'):
            mdefs = merge_defs(pipe, sty)
            if mdefs:
                lines.append('zdefs:')
                for nm, txt in mdefs:
                    lines.append(f'{ind}- &{nm} {txt}')
        for gname, steps in pipe['groups']:
            if steps is None:
                lines.append(f'{gname}:')
                continue
            if body_scalar(steps):
                lines.append(f"{gname}: {yval(steps['scalar'])}")
                continue
            if not steps:
                lines.append(f'{gname}: []')
                continue
            lines.append(f'{gname}:')
            for st in steps:
                if isinstance(st, str):
                    lines.append(f'{ind}- {st}' if PLAIN.match(st) else f'{ind}- {yval(st)}')
                    continue
                if is_item(st):
                    lines.append(f"{ind}- {yval(st['item'])}")
                    continue
                mg = st.pop('_merge', None)
                pairs = step_pairs(st, sty, len(ind) + 2, skip=MERGEABLE if mg else ())
                if mg:
                    pairs.insert(1 if pairs and pairs[0][0] == 'name' else 0, ('<<', '*' + mg))
                if lay.get('dashsplit'):
                    lines.append(f'{ind}-')
                    st['line'], st['col'] = len(lines) + 1, len(ind) + 3
                    lines.extend(f'{ind}  {pairs[0][0]}: {pairs[0][1]}'.split('\n'))
                else:
                    st['line'], st['col'] = len(lines) + 1, len(ind) + 3
                    lines.extend(f'{ind}- {pairs[0][0]}: {pairs[0][1]}'.split('\n'))
                for key, txt in pairs[1:]:
                    lines.extend(f'{ind}  {key}: {txt}'.split('\n'))
        return '\n'.join(lines) + '\n'
    # flow styles: the text is built piece by piece so that the position of every opening brace is known
    quote = bool(lay.get('quote'))
    perline = lay.get('perline') or False      # False | True | 'rest' (all but the first step of a group)
    pad = ' ' * int(lay.get('pad', 2))
    buf = []          # finished lines
    cur = ['']        # the line being written

    def emit(txt):
        cur[0] += txt

    def newline():
        buf.append(cur[0])
        cur[0] = ''

    def here():
        return len(lines) + len(buf) + 1, len(cur[0]) + 1

    def key(k):
        return json.dumps(k) if quote else k

    def scalar(s):
        return s if (not quote and PLAIN.match(s)) else json.dumps(s, ensure_ascii=True)

    def seq(steps):
        emit('[')
        for n, st in enumerate(steps):
            if n:
                emit(',' if (perline is True or perline == 'rest') else ', ')
            if perline is True or (perline == 'rest' and n):
                newline()
                emit(pad)
            if isinstance(st, str):
                emit(scalar(st))
            elif is_item(st):
                emit(yval(st['item']))
            else:
                st['line'], st['col'] = here()
                pairs = step_pairs(st, sty)
                emit('{' + ', '.join(
                    f'{key(k)}: ' + (scalar(st['name']) if k == 'name' and isinstance(st['name'], str) else t)
                    for k, t in pairs) + '}')
        emit(']')

    def body(steps):
        if steps is None:
            emit('null')
        elif body_scalar(steps):
            emit(yval(steps['scalar']))
        else:
            seq(steps)

    entries = []
    if pipe.get('parser'):
        entries.append(('context_parser', pipe['parser']))
    for gname, steps in pipe['groups']:
        entries.append((gname, ('body', steps)))
    if style == 'wrap':
        emit('{')
        for n, (k, v) in enumerate(entries):
            if n:
                emit(',')
                if perline:
                    newline()
                    emit(pad[:-1] if len(pad) > 1 else pad)
                else:
                    emit(' ')
            emit(key(k) + ': ')
            if isinstance(v, tuple):
                body(v[1])
            else:
                emit(scalar(v))
        emit('}')
        newline()
    else:
        for k, v in entries:
            emit(key(k) + ': ')
            if isinstance(v, tuple):
                body(v[1])
            else:
                emit(scalar(v))
            newline()
    return '\n'.join(lines + buf) + '\n'


def steps_of(body):
    """The entries of a group body that is a sequence ([] for null / a body that is not a sequence)."""
    return body if isinstance(body, list) else []


def strip_for_model(prog):
    """The model takes the same program; `None` while/retry mean absent."""
    out = json.loads(json.dumps(prog))
    for pipe in out['pipes']:
        pipe.pop('layout', None)       # where the text stands reaches the model as line/col of every step
        for _, steps in pipe['groups']:
            for st in steps_of(steps):
                if isinstance(st, dict) and not is_item(st):
                    for k in ('while', 'retry'):
                        if k in st and st[k] is None:
                            del st[k]
    return out


# --------------------------------------------------------------------------
# canonical observations
# --------------------------------------------------------------------------

def renumber(obs):
    """Map opaque object ids to first-appearance order (ctx first, then outcome)."""
    m = {}

    def walk(x):
        if isinstance(x, list):
            return [walk(y) for y in x]
        if isinstance(x, dict):
            if set(x.keys()) == {'o'}:
                return {'o': m.setdefault(x['o'], len(m))}
            return {k: walk(v) for k, v in x.items()}
        return x
    out = dict(obs)
    out['ctx'] = walk(obs.get('ctx'))
    oc = obs.get('outcome')
    if isinstance(oc, dict) and 'err' in oc:
        e = dict(oc['err'])
        e['id'] = m.setdefault(e['id'], len(m))
        e.pop('handled', None)
        out['outcome'] = {'err': e}
    out['trace'] = walk(obs.get('trace'))
    return out


def num(w):
    if isinstance(w, dict) and 'f' in w:
        try:
            return w['f'][0] / (1 << w['f'][1])
        except OverflowError:        # an exact number beyond the float range (an unbounded exponential back-off)
            return float('inf') if w['f'][0] > 0 else float('-inf')
    return w


def as_float(x):
    """float(x), saturating: the model's exact numbers (and Python ints) can exceed the float range"""
    try:
        return float(x) + 0.0        # -0.0 (0 * a negative jrc) is the zero sleep: the exact model has one zero
    except OverflowError:
        return float('inf') if x > 0 else float('-inf')


BUILTIN_TEXT = {'TypeError', 'AttributeError', 'IndexError', 'KeyError', 'NameError'}


PROBE_TEXTS = ('bad thing', "it's", 'x {k1} y')


def probe_msg(m):
    """a message text the probe step chose (also as str(KeyError(text)) = repr(text))"""
    if not isinstance(m, str):
        return False
    return m.startswith('boom ') or m in PROBE_TEXTS or m.startswith("'boom ") or m in tuple(repr(x) for x in PROBE_TEXTS)


def builtin_text(entry):
    """CPython's own message texts for these classes are not claimed by the model."""
    return entry.get('name') in BUILTIN_TEXT and not probe_msg(entry.get('msg', entry.get('description')))


def norm_msgs(model, impl):
    """Messages the model marks with a leading '~' are not claimed: copy the implementation's text."""
    def fix_entry(me, ie, key):
        if isinstance(me.get(key), str) and (me[key].startswith('~') or builtin_text(me)):
            me[key] = ie.get(key)
    mo, io = model.get('outcome'), impl.get('outcome')
    if isinstance(mo, dict) and isinstance(io, dict) and 'err' in mo and 'err' in io:
        fix_entry(mo['err'], io['err'], 'msg')
    mre, ire = run_errors(model.get('ctx')), run_errors(impl.get('ctx'))
    if mre is not None and ire is not None and len(mre) == len(ire):
        for a, b in zip(mre, ire):
            da, db = dict((canon_key(k), i) for i, (k, _) in enumerate(a['d'])), dict(
                (canon_key(k), i) for i, (k, _) in enumerate(b['d']))
            if 'description' in da and 'description' in db:
                va = a['d'][da['description']][1]
                nm = a['d'][da['name']][1] if 'name' in da else None
                if isinstance(va, str) and (va.startswith('~') or (nm in BUILTIN_TEXT and not probe_msg(va))):
                    a['d'][da['description']][1] = b['d'][db['description']][1]


def canon_key(k):
    return k if isinstance(k, str) else json.dumps(k, sort_keys=True)


def run_errors(ctxw):
    if not ctxw or 'd' not in ctxw:
        return None
    for k, v in ctxw['d']:
        if k == 'runErrors' and isinstance(v, list) and all(isinstance(x, dict) and 'd' in x for x in v):
            return v
    return None


# --------------------------------------------------------------------------
# the implementation side
# --------------------------------------------------------------------------

class CaseBudget(BaseException):
    """The implementation did not finish one case within the wall-clock budget."""


class Impl:
    """Runs wire programs on the real pypyr in this process."""

    def __init__(self):
        self.root = Path(tempfile.mkdtemp(prefix='vflow_'))
        for f in ('vprobe.py', 'vparser.py', 'built.py', 'main.py'):
            shutil.copy(PROBE_DIR / f, self.root / f)
        sys.path.insert(0, str(self.root))
        self.n = 0
        common.use_repo()
        import pypyr.pipelinerunner as pr
        import pypyr.retries as retries
        import pypyr.utils.poll as poll
        from pypyr.context import Context
        import vprobe
        self.pr, self.vprobe = pr, vprobe
        impl = self

        class Clock:
            """virtual clock with time.sleep's own argument checks (CPython: a non-number is a TypeError, a
            negative or NaN duration a ValueError - nothing is slept then)"""
            def sleep(self, d):
                if not isinstance(d, (int, float)):
                    raise TypeError(f"'{type(d).__name__}' object cannot be interpreted as an integer")
                if d != d:
                    raise ValueError('Invalid value NaN (not a number)')
                if d < 0:
                    raise ValueError('sleep length must be non-negative')
                impl.sleeps.append(d)

        class Rnd:
            def uniform(self, a, b):
                # random.uniform is `a + (b - a) * self.random()`: the span is computed (and can raise)
                # before a random number is drawn
                span = b - a
                r = impl.rnd.pop(0) if impl.rnd else 0
                return a + span * r
        self._orig = (poll.time, retries.random, pr.Context)
        poll.time = Clock()
        retries.random = Rnd()

        class RecContext(Context):
            def __init__(self, *a, **k):
                super().__init__(*a, **k)
                impl.last_ctx = self
        pr.Context = RecContext
        self.poll, self.retries = poll, retries
        self.sleeps, self.rnd, self.last_ctx = [], [], None

    def close(self):
        self.poll.time, self.retries.random, self.pr.Context = self._orig
        shutil.rmtree(self.root, ignore_errors=True)
        if str(self.root) in sys.path:
            sys.path.remove(str(self.root))

    def write(self, prog):
        self.n += 1
        d = self.root / f'c{self.n}'
        d.mkdir()
        for pipe in prog['pipes']:
            (d / (pipe['name'] + '.yaml')).write_text(render_pipe(pipe))
        return d

    def run(self, prog, keep=False, reuse=1):
        """reuse >= 2: build ONE Pipeline object the way pipelinerunner.run does and run it `reuse` times,
        each time on a fresh, equal context; the observation is that of the last run (a Pipeline instance is
        re-usable API: every run of it must behave like the first)."""
        d = self.write(prog)
        run = prog['run']
        self.vprobe.TRACE.clear()
        self.sleeps, self.last_ctx = [], None
        self.rnd = [n / (1 << k) for n, k in prog.get('rnd', [])]
        objs = {}
        kwargs = {}
        if run.get('args_in') is not None:
            kwargs['args_in'] = list(run['args_in'])
        if run.get('dict_in') is not None:
            kwargs['dict_in'] = dec(run['dict_in'])
        if run.get('parse_args') is not None:
            kwargs['parse_args'] = run['parse_args']
        for a, b in (('groups', 'groups'), ('success', 'success_group'), ('failure', 'failure_group')):
            if run.get(a) is not None:
                kwargs[b] = run[a]
        root_name = str(d / run['name'])
        ret = None
        # global configuration as it stands WHILE the run executes (a config file merged by config.init(), an API
        # assignment): set after pypyr's modules were imported, put back afterwards
        from pypyr.config import config as _config
        _old_backoff = _config.default_backoff
        if isinstance(run.get('default_backoff'), str):
            _config.default_backoff = run['default_backoff']
        # wall-clock budget per case: an implementation that never returns (a retry that re-attempts an
        # instruction for ever, a loop that lost its exit) is an observation ('outOfFuel'), not a hang
        import signal
        import logging

        budget = {'active': True}

        def _alarm(signum, frame):
            # raised again every quarter of a second until it gets through: library code with a bare `except:`
            # (ruamel's CommentedMap.get, which the probe step calls on its configuration) swallows the first one
            if budget['active']:
                raise CaseBudget()
        # the log level is part of the input: prog['log'] = 10 (DEBUG) / 20 (INFO) / 25 (NOTIFY) runs the case with
        # logging switched on at that level on the root logger and a sink that drops every record (what
        # `pypyr --log 10` or an embedding application's logging configuration does); absent = logging disabled.
        # What a pipeline does must not depend on it.
        log_level = prog.get('log')
        log_state = None
        if isinstance(log_level, int) and log_level > 0:
            root = logging.getLogger()
            log_state = (logging.root.manager.disable, root.level, root.handlers[:])
            logging.disable(logging.NOTSET)
            root.handlers = [logging.NullHandler()]
            root.setLevel(log_level)
        try:
            old_handler = signal.signal(signal.SIGALRM, _alarm)
            signal.setitimer(signal.ITIMER_REAL, float(prog.get('budget_s') or os.environ.get('VERIF_FLOW_CASE_S', '20')), 0.25)
            armed = True
        except ValueError:      # not in the main thread
            armed = False
        try:
            if reuse >= 2:
                import copy
                from pypyr.pipeline import Pipeline
                pipeline, args = Pipeline.new_pipe_and_args(
                    name=root_name, context_args=kwargs.get('args_in'), parse_input=kwargs.get('parse_args'),
                    dict_in=kwargs.get('dict_in'), groups=kwargs.get('groups'),
                    success_group=kwargs.get('success_group'), failure_group=kwargs.get('failure_group'))
                rnd0 = list(self.rnd)
                for k in range(reuse):
                    self.vprobe.TRACE.clear()
                    self.sleeps, self.last_ctx, self.rnd = [], None, list(rnd0)
                    context = self.pr.Context(copy.deepcopy(args)) if args else self.pr.Context()
                    if k < reuse - 1:
                        try:
                            pipeline.run(context)
                        except RecursionError:
                            raise
                        except Exception:  # noqa
                            pass
                    else:
                        pipeline.run(context)
                        ret = context
            else:
                ret = self.pr.run(root_name, **kwargs)
            outcome = 'ok'
        except (RecursionError, CaseBudget):
            budget['active'] = False
            outcome = 'outOfFuel'
        except Exception as e:  # noqa
            outcome = {'err': {'id': objs.setdefault(id(e), len(objs) + 1000), 'name': canonical_error_name(e),
                               'msg': str(e)}}
            self._keep = e
        finally:
            budget['active'] = False
            if armed:
                signal.setitimer(signal.ITIMER_REAL, 0)
                signal.signal(signal.SIGALRM, old_handler)
            _config.default_backoff = _old_backoff
            if log_state is not None:
                root = logging.getLogger()
                root.handlers = log_state[2]
                root.setLevel(log_state[1])
                logging.disable(log_state[0])
        ctx = ret if ret is not None else self.last_ctx
        try:
            ctxw = enc(dict(ctx), objs) if ctx is not None else None
        except ValueError as e:
            # key by key: a value outside the wire language (a `!py` string of an implementation-only case left
            # behind by an instruction, an iterator) is named as such, the other keys stay judgeable
            pairs = []
            for k_, v_ in dict(ctx).items():
                try:
                    pairs.append([enc(k_, objs), enc(v_, objs)])
                except ValueError:
                    pairs.append([k_ if isinstance(k_, str) else repr(k_), {'unencodable': type(v_).__name__}])
            ctxw = {'d': pairs} if all(isinstance(k_, str) for k_ in dict(ctx)) else {'unencodable': str(e)}
        trace = []
        if outcome == 'outOfFuel':
            # a run that was cut off (recursion limit, wall-clock budget) may have produced millions of events:
            # the first few hundred say what it was doing
            del self.vprobe.TRACE[400:]
            del self.sleeps[400:]
        for ev in self.vprobe.TRACE:
            def ov(x):
                return MISSING_W if x is self.vprobe.MISSING else enc(x, objs)
            pipe = ev['pipe']
            if isinstance(pipe, str) and pipe.startswith(str(d)):
                pipe = pipe[len(str(d)) + 1:]
            trace.append({'tag': ev['tag'], 'i': ov(ev['i']), 'w': ov(ev['w']), 'r': ov(ev['r']),
                          'nerr': ev['nerr'], 'pipe': pipe, 'depth': ev['depth'],
                          'keys': [[k, ov(v)] for k, v in ev['keys']]})
        obs = {'trace': trace, 'sleeps': [as_float(x) if isinstance(x, (int, float)) else repr(x) for x in self.sleeps], 'outcome': outcome, 'ctx': ctxw,
               'returned_ctx': ret is not None,
               'stack': [p.name for p in ctx._stack] if ctx is not None else []}
        if not keep:
            shutil.rmtree(d, ignore_errors=True)
        # the pipeline cache would otherwise grow without bound
        from pypyr.cache.loadercache import loader_cache
        loader_cache.clear()
        return renumber(obs)


def prepare(prog):
    """Assign line/col to every complex step (idempotent)."""
    for pipe in prog['pipes']:
        render_pipe(pipe)
    return prog


def model_run(driver, prog, fuel=3000):
    prepare(prog)
    fuel = int(prog.get('fuel', fuel))      # directed cases with long loops ask for more
    req = strip_for_model(prog)
    obs = driver.ask('flow.run', pipes=req['pipes'], run=req['run'], rnd=req.get('rnd', []), fuel=fuel)
    obs['sleeps'] = [as_float(num(x)) for x in obs['sleeps']]
    return renumber(obs)


def canonical_error_name(e):
    """The canonical name of an error as the property texts give it (C06/C07): the bare class name for classes of
    module `builtins` / `__main__`, else `modulename.ClassName` - computed here from the class itself, NOT through
    the pypyr.errors.get_error_name of the tree under test."""
    t = type(e)
    return t.__name__ if t.__module__ in ('__main__', 'builtins') else f'{t.__module__}.{t.__name__}'


def compare(model, impl):
    """Return a list of differing observables (empty = agree)."""
    model = json.loads(json.dumps(model))
    impl = json.loads(json.dumps(impl))
    norm_msgs(model, impl)
    diffs = []
    for k in ('trace', 'sleeps', 'outcome', 'ctx', 'stack'):
        if common.canon(model.get(k)) != common.canon(impl.get(k)):
            diffs.append(k)
    return diffs
