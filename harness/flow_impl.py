"""Run a flow program (wire form, DESIGN.md appendix E) on the real pypyr and return the
canonical observation; render it to yaml; run it on the Lean model through the driver."""
from __future__ import annotations

import json
import os
import shutil
import sys
import tempfile
from pathlib import Path

from . import common
from .common import dec, enc, py_src

PROBE_DIR = Path(__file__).resolve().parent / 'probe'
MISSING_W = {'missing': 1}


# --------------------------------------------------------------------------
# yaml rendering (flow-style JSON values; records line/col of every step)
# --------------------------------------------------------------------------

def yval(w) -> str:
    """wire value -> yaml flow text. Only yaml-expressible kinds."""
    if w is None:
        return 'null'
    if w is True:
        return 'true'
    if w is False:
        return 'false'
    if isinstance(w, int):
        return str(w)
    if isinstance(w, str):
        return json.dumps(w, ensure_ascii=True)
    if isinstance(w, list):
        return '[' + ', '.join(yval(x) for x in w) + ']'
    if 'f' in w:
        n, k = w['f']
        return repr(n / (1 << k))
    if 'd' in w:
        return '{' + ', '.join(f'{yval(k)}: {yval(v)}' for k, v in w['d']) + '}'
    if 'sic' in w:
        return '!sic ' + json.dumps(w['sic'], ensure_ascii=True)
    if 'py' in w:
        return '!py ' + json.dumps(py_src(w['py']), ensure_ascii=True)
    if 'jsonify' in w:
        return '!jsonify ' + yval(w['jsonify'])
    raise ValueError(f'not expressible in yaml: {w}')


def render_pipe(pipe) -> str:
    """Render one pipeline; fills step['line'], step['col'] (1-based, as Step computes them)."""
    lines = []
    if pipe.get('parser'):
        lines.append(f"context_parser: {pipe['parser']}")
    for gname, steps in pipe['groups']:
        if steps is None:
            lines.append(f'{gname}:')
            continue
        if not steps:
            lines.append(f'{gname}: []')
            continue
        lines.append(f'{gname}:')
        for st in steps:
            if isinstance(st, str):
                lines.append(f'  - {st}')
                continue
            first = True
            order = ['name', 'description', 'in', 'run', 'skip', 'swallow', 'foreach', 'while', 'retry', 'onError']
            for key in order:
                if key not in st:
                    continue
                v = st[key]
                if key == 'name':
                    txt = 'null' if v is None else v
                elif key == 'in':
                    txt = 'null' if v is None else '{' + ', '.join(f'{yval(k)}: {yval(x)}' for k, x in v) + '}'
                elif key in ('while', 'retry'):
                    if v is None:
                        txt = 'null'
                    elif 'bad' in v:
                        txt = yval(v['bad'])
                    else:
                        txt = '{' + ', '.join(f'{k}: {yval(x)}' for k, x in v.items()) + '}'
                else:
                    txt = yval(v)
                if first:
                    st['line'] = len(lines) + 1
                    st['col'] = 5
                    lines.append(f'  - {key}: {txt}')
                    first = False
                else:
                    lines.append(f'    {key}: {txt}')
            if first:
                raise ValueError('step without keys')
    return '\n'.join(lines) + '\n'


def strip_for_model(prog):
    """The model takes the same program; `None` while/retry mean absent."""
    out = json.loads(json.dumps(prog))
    for pipe in out['pipes']:
        for _, steps in pipe['groups']:
            for st in steps or []:
                if isinstance(st, dict):
                    for k in ('while', 'retry'):
                        if k in st and st[k] is None:
                            del st[k]
                    # a description only words the step's notification (directed cases keep its up-front
                    # evaluation of run/skip free of errors): not part of the model's step
                    st.pop('description', None)
    return out


# --------------------------------------------------------------------------
# canonical observations
# --------------------------------------------------------------------------

def renumber(obs):
    """Map opaque object ids to first-appearance order (ctx first, then outcome)."""
    m = {}

    def walk(x):
        if isinstance(x, list):
            return [walk(y) for y in x]
        if isinstance(x, dict):
            if set(x.keys()) == {'o'}:
                return {'o': m.setdefault(x['o'], len(m))}
            return {k: walk(v) for k, v in x.items()}
        return x
    out = dict(obs)
    out['ctx'] = walk(obs.get('ctx'))
    oc = obs.get('outcome')
    if isinstance(oc, dict) and 'err' in oc:
        e = dict(oc['err'])
        e['id'] = m.setdefault(e['id'], len(m))
        e.pop('handled', None)
        out['outcome'] = {'err': e}
    out['trace'] = walk(obs.get('trace'))
    return out


def num(w):
    if isinstance(w, dict) and 'f' in w:
        return w['f'][0] / (1 << w['f'][1])
    return w


BUILTIN_TEXT = {'TypeError', 'AttributeError', 'IndexError', 'KeyError', 'NameError'}


def probe_msg(m):
    return isinstance(m, str) and (m.startswith('boom ') or m in ('bad thing', "it's", 'x {k1} y'))


def builtin_text(entry):
    """CPython's own message texts for these classes are not claimed by the model."""
    return entry.get('name') in BUILTIN_TEXT and not probe_msg(entry.get('msg', entry.get('description')))


def norm_msgs(model, impl):
    """Messages the model marks with a leading '~' are not claimed: copy the implementation's text."""
    def fix_entry(me, ie, key):
        if isinstance(me.get(key), str) and (me[key].startswith('~') or builtin_text(me)):
            me[key] = ie.get(key)
    mo, io = model.get('outcome'), impl.get('outcome')
    if isinstance(mo, dict) and isinstance(io, dict) and 'err' in mo and 'err' in io:
        fix_entry(mo['err'], io['err'], 'msg')
    mre, ire = run_errors(model.get('ctx')), run_errors(impl.get('ctx'))
    if mre is not None and ire is not None and len(mre) == len(ire):
        for a, b in zip(mre, ire):
            da, db = dict((canon_key(k), i) for i, (k, _) in enumerate(a['d'])), dict(
                (canon_key(k), i) for i, (k, _) in enumerate(b['d']))
            if 'description' in da and 'description' in db:
                va = a['d'][da['description']][1]
                nm = a['d'][da['name']][1] if 'name' in da else None
                if isinstance(va, str) and (va.startswith('~') or (nm in BUILTIN_TEXT and not probe_msg(va))):
                    a['d'][da['description']][1] = b['d'][db['description']][1]


def canon_key(k):
    return k if isinstance(k, str) else json.dumps(k, sort_keys=True)


def run_errors(ctxw):
    if not ctxw or 'd' not in ctxw:
        return None
    for k, v in ctxw['d']:
        if k == 'runErrors' and isinstance(v, list) and all(isinstance(x, dict) and 'd' in x for x in v):
            return v
    return None


# --------------------------------------------------------------------------
# the implementation side
# --------------------------------------------------------------------------

class Impl:
    """Runs wire programs on the real pypyr in this process."""

    def __init__(self):
        self.root = Path(tempfile.mkdtemp(prefix='vflow_'))
        for f in ('vprobe.py', 'vparser.py'):
            shutil.copy(PROBE_DIR / f, self.root / f)
        sys.path.insert(0, str(self.root))
        self.n = 0
        common.use_repo()
        import pypyr.pipelinerunner as pr
        import pypyr.retries as retries
        import pypyr.utils.poll as poll
        from pypyr.context import Context
        import vprobe
        self.pr, self.vprobe = pr, vprobe
        impl = self

        class Clock:
            def sleep(self, d):
                impl.sleeps.append(d)

        class Rnd:
            def uniform(self, a, b):
                r = impl.rnd.pop(0) if impl.rnd else 0
                return a + (b - a) * r
        self._orig = (poll.time, retries.random, pr.Context)
        poll.time = Clock()
        retries.random = Rnd()

        class RecContext(Context):
            def __init__(self, *a, **k):
                super().__init__(*a, **k)
                impl.last_ctx = self
        pr.Context = RecContext
        self.poll, self.retries = poll, retries
        self.sleeps, self.rnd, self.last_ctx = [], [], None

    def close(self):
        self.poll.time, self.retries.random, self.pr.Context = self._orig
        shutil.rmtree(self.root, ignore_errors=True)
        if str(self.root) in sys.path:
            sys.path.remove(str(self.root))

    def write(self, prog):
        self.n += 1
        d = self.root / f'c{self.n}'
        d.mkdir()
        for pipe in prog['pipes']:
            (d / (pipe['name'] + '.yaml')).write_text(render_pipe(pipe))
        return d

    def run(self, prog, keep=False, reuse=1):
        """reuse >= 2: build ONE Pipeline object the way pipelinerunner.run does and run it `reuse` times,
        each time on a fresh, equal context; the observation is that of the last run (a Pipeline instance is
        re-usable API: every run of it must behave like the first)."""
        d = self.write(prog)
        run = prog['run']
        self.vprobe.TRACE.clear()
        self.sleeps, self.last_ctx = [], None
        self.rnd = [n / (1 << k) for n, k in prog.get('rnd', [])]
        objs = {}
        kwargs = {}
        if run.get('args_in') is not None:
            kwargs['args_in'] = list(run['args_in'])
        if run.get('dict_in') is not None:
            kwargs['dict_in'] = dec(run['dict_in'])
        if run.get('parse_args') is not None:
            kwargs['parse_args'] = run['parse_args']
        for a, b in (('groups', 'groups'), ('success', 'success_group'), ('failure', 'failure_group')):
            if run.get(a) is not None:
                kwargs[b] = run[a]
        root_name = str(d / run['name'])
        ret = None
        try:
            if reuse >= 2:
                import copy
                from pypyr.pipeline import Pipeline
                pipeline, args = Pipeline.new_pipe_and_args(
                    name=root_name, context_args=kwargs.get('args_in'), parse_input=kwargs.get('parse_args'),
                    dict_in=kwargs.get('dict_in'), groups=kwargs.get('groups'),
                    success_group=kwargs.get('success_group'), failure_group=kwargs.get('failure_group'))
                rnd0 = list(self.rnd)
                for k in range(reuse):
                    self.vprobe.TRACE.clear()
                    self.sleeps, self.last_ctx, self.rnd = [], None, list(rnd0)
                    context = self.pr.Context(copy.deepcopy(args)) if args else self.pr.Context()
                    if k < reuse - 1:
                        try:
                            pipeline.run(context)
                        except RecursionError:
                            raise
                        except Exception:  # noqa
                            pass
                    else:
                        pipeline.run(context)
                        ret = context
            else:
                ret = self.pr.run(root_name, **kwargs)
            outcome = 'ok'
        except RecursionError:
            outcome = 'outOfFuel'
        except Exception as e:  # noqa
            outcome = {'err': {'id': objs.setdefault(id(e), len(objs) + 1000), 'name': common.exc_name(e),
                               'msg': str(e)}}
            self._keep = e
        ctx = ret if ret is not None else self.last_ctx
        try:
            ctxw = enc(dict(ctx), objs) if ctx is not None else None
        except ValueError as e:
            ctxw = {'unencodable': str(e)}
        trace = []
        for ev in self.vprobe.TRACE:
            def ov(x):
                return MISSING_W if x is self.vprobe.MISSING else enc(x, objs)
            pipe = ev['pipe']
            if isinstance(pipe, str) and pipe.startswith(str(d)):
                pipe = pipe[len(str(d)) + 1:]
            trace.append({'tag': ev['tag'], 'i': ov(ev['i']), 'w': ov(ev['w']), 'r': ov(ev['r']),
                          'nerr': ev['nerr'], 'pipe': pipe, 'depth': ev['depth'],
                          'keys': [[k, ov(v)] for k, v in ev['keys']]})
        obs = {'trace': trace, 'sleeps': [float(x) if isinstance(x, (int, float)) else repr(x) for x in self.sleeps], 'outcome': outcome, 'ctx': ctxw,
               'returned_ctx': ret is not None,
               'stack': [p.name for p in ctx._stack] if ctx is not None else []}
        if not keep:
            shutil.rmtree(d, ignore_errors=True)
        # the pipeline cache would otherwise grow without bound
        from pypyr.cache.loadercache import loader_cache
        loader_cache.clear()
        return renumber(obs)


def prepare(prog):
    """Assign line/col to every complex step (idempotent)."""
    for pipe in prog['pipes']:
        render_pipe(pipe)
    return prog


def model_run(driver, prog, fuel=3000):
    prepare(prog)
    req = strip_for_model(prog)
    obs = driver.ask('flow.run', pipes=req['pipes'], run=req['run'], rnd=req.get('rnd', []), fuel=fuel)
    obs['sleeps'] = [float(num(x)) for x in obs['sleeps']]
    return renumber(obs)


def compare(model, impl):
    """Return a list of differing observables (empty = agree)."""
    model = json.loads(json.dumps(model))
    impl = json.loads(json.dumps(impl))
    norm_msgs(model, impl)
    diffs = []
    for k in ('trace', 'sleeps', 'outcome', 'ctx', 'stack'):
        if common.canon(model.get(k)) != common.canon(impl.get(k)):
            diffs.append(k)
    return diffs
