"""Dynamic sanity check of harness/translate.py + lean/PypyrModel/PyRt.lean (both are trusted by the
`translated_*_eq_model` theorems): evaluate the GENERATED Lean definitions and the REAL Python
functions of the tree under test on the same random inputs and compare.

    /venv/bin/python -m harness.translate_selftest [C06 C04 C07 C18] [--n 200]

For each family it (re)generates lean/Generated/Translated*.lean from $PYPYR_REPO, writes
lean/.audit/Selftest_<family>.lean (one Lean expression per case, printed by a single `#eval`),
runs it with `lake env lean`, runs the real functions in-process, and compares line by line:
numbers as exact rationals + int/float-ness, values through the wire encoding of harness/common.py,
exceptions by `get_error_name`. Exit status 1 on any difference (or if the Lean side does not
evaluate), 0 otherwise. `check(families, seed, n)` is the same as a function (raises `Mismatch`).
"""
from __future__ import annotations

import json
import os
import random
import sys
from fractions import Fraction

from . import common
from . import translate
from .translate import lean_str

SELFTEST = common.LEAN / '.audit'      # scratch directory of the checks (git-ignored)


class Mismatch(Exception):
    pass


# ---------------------------------------------------------------------------------------------
# Python value -> Lean literal
# ---------------------------------------------------------------------------------------------

def lnum(x):
    if isinstance(x, bool):
        raise ValueError('bool is not a number here')
    if isinstance(x, int):
        return f'(⟨{x}, 0, false⟩ : Num)'
    n, k = common.dyadic(x)
    return f'(⟨{n}, {k}, true⟩ : Num)'


def lopt(x, f):
    return 'none' if x is None else f'(some {f(x)})'


def llist(xs, f):
    return '[' + ', '.join(f(x) for x in xs) + ']'


def lval(v):
    if v is None:
        return 'Val.none'
    if isinstance(v, bool):
        return f'(Val.bool {"true" if v else "false"})'
    if isinstance(v, int):
        return f'(Val.int ({v}))'
    if isinstance(v, float):
        n, k = common.dyadic(v)
        return f'(Val.flt ({n}) {k})'
    if isinstance(v, str):
        return f'(Val.str {lean_str(v)})'
    if isinstance(v, bytes):
        return f'(Val.bytes {lean_str(v.hex())})'
    if isinstance(v, list):
        return f'(Val.list {llist(v, lval)})'
    if isinstance(v, tuple):
        return f'(Val.tuple {llist(list(v), lval)})'
    if isinstance(v, dict):
        return '(Val.dict [' + ', '.join(f'({lval(k)}, {lval(x)})' for k, x in v.items()) + '])'
    if isinstance(v, (set, frozenset)):
        return f'(Val.set {llist(sorted(v, key=repr), lval)})'
    raise ValueError(v)


def show_num(v):
    """Python number -> the text the Lean side prints for an equal Num (compared after parsing)."""
    if isinstance(v, bool) or not isinstance(v, (int, float)):
        return f'notnum:{type(v).__name__}'
    fr = Fraction(v)
    return f'{fr.numerator}/{fr.denominator}:{"f" if isinstance(v, float) else "i"}'


def norm_lean_num(tok):
    n, k, fl = tok.split(':')
    fr = Fraction(int(n), 1 << int(k))
    return f'{fr.numerator}/{fr.denominator}:{"f" if fl == "true" else "i"}'


PREAMBLE = '''
open Pypyr
def stNum (x : Num) : String := s!"{x.n}:{x.k}:{x.isFloat}"
def stNums (xs : List Num) : String := " ".intercalate (xs.map stNum)
def stR (r : Except Exc String) : String := match r with
  | .ok s => "ok " ++ s
  | .error e => "err " ++ e.name
def stBool (b : Bool) : String := if b then "true" else "false"
/-- scripted stand-in for `json.loads` (C18, the json parser): what it does depends on the first character. -/
def selftestLoads (s : String) : Except Exc Val :=
  if s.startsWith "D" then .ok (Val.dict [(Val.str "t", Val.str s)])
  else if s.startsWith "E" then .error ⟨"json.decoder.JSONDecodeError", s⟩
  else if s.startsWith "L" then .ok (Val.list [Val.str s])
  else if s.startsWith "N" then .ok Val.none
  else .ok (Val.str s)
'''


# ---------------------------------------------------------------------------------------------
# families
# ---------------------------------------------------------------------------------------------

class ScriptedRandom(random.Random):
    """the real `random.Random.uniform`, with `random()` scripted."""

    def __init__(self, rs):
        super().__init__(0)
        self.rs = list(rs)

    def random(self):
        return self.rs.pop(0)


SLEEPS = [0, 1, 2, 3, 7, 0.5, 1.5, 0.25, 2.75]
MAXES = [None, None, 0, 0.0, 1, 2, 2.5, 7, 1000]
JRCS = [0, 0.25, 0.5, 1, 1.5]
BASES = [None, {}, {'base': 2}, {'base': 3}, {'base': 1.5}, {'base': 0.5}, {'other': 5}, {'other': 1, 'base': 4}]
FRACS = [k / 16 for k in range(17)]


def cases_c06(rng, n, mods):
    mt = mods['retries']
    out = []
    Q = 'Pypyr.Translated.Retries.'
    classes = list(translate.TARGETS['retries']['classes'])
    per = max(n // len(classes), 8)
    for cname in classes:
        init = mt.infos[('init', cname)]
        call = mt.infos[('m', cname, mt.resolve_method(cname, '__call__', None), '__call__')]
        for i in range(per):
            listy = cname in ('fixed', 'jitter') and rng.random() < 0.6
            if listy:
                sleep = [rng.choice(SLEEPS) for _ in range(rng.choice([0, 1, 1, 2, 3, 4, 5]) if i % 9 == 0
                                                           else rng.randint(1, 5))]
                lsleep = f'(.seq {llist(sleep, lnum)})'
            else:
                sleep = rng.choice(SLEEPS)
                lsleep = f'(.num {lnum(sleep)})' if cname in ('fixed', 'jitter') else lnum(sleep)
            mx, jrc, kw = rng.choice(MAXES), rng.choice(JRCS), rng.choice(BASES)
            ncalls = rng.randint(1, 6 if cname.startswith('exponential') else 9)
            rs = [rng.choice(FRACS) for _ in range(ncalls)]
            lkw = lopt(kw, lambda d: '[' + ', '.join(f'({lean_str(k)}, {lnum(v)})' for k, v in d.items()) + ']')
            ini = f'{Q}{init.lean} {lsleep} {lopt(mx, lnum)} {lnum(jrc)} {lkw}'
            steps = [f'let o ← {ini}' if init.exc else f'let o ← (pure ({ini}) : Except Exc _)']
            for k in range(1, ncalls + 1):
                c = f'{Q}{call.lean} o {k}' + (f' {lnum(rs[k - 1])}' if call.draw else '')
                pat = f'(v{k}, o)' if call.mut else f'v{k}'
                steps.append(f'let {pat} ← {c}' if call.exc else f'let {pat} := {c}')
            steps.append('pure (stNums [' + ', '.join(f'v{k}' for k in range(1, ncalls + 1)) + '])')
            lean = 'stR (do ' + '; '.join(steps) + ')'

            def py(cname=cname, sleep=sleep, mx=mx, jrc=jrc, kw=kw, ncalls=ncalls, rs=rs):
                import pypyr.retries as retries
                saved = retries.random
                retries.random = ScriptedRandom(rs)
                try:
                    obj = retries.builtin_backoffs[cname](sleep=sleep, max_sleep=mx, jrc=jrc, kwargs=kw)
                    return 'ok ' + ' '.join(show_num(obj(k)) for k in range(1, ncalls + 1))
                except Exception as e:
                    return 'err ' + common.exc_name(e)
                finally:
                    retries.random = saved
            out.append({'what': f'{cname}(sleep={sleep}, max_sleep={mx}, jrc={jrc}, kwargs={kw}) x{ncalls} rnd={rs}',
                        'lean': lean, 'py': py, 'kind': 'nums'})
        # BackoffBase.min / randomize directly on a scalar object
        for i in range(max(per // 3, 4)):
            mx, jrc, d, r = rng.choice(MAXES), rng.choice(JRCS), rng.choice(SLEEPS + [1000, 2.5]), rng.choice(FRACS)
            sleep = 1
            lsleep = f'(.num {lnum(sleep)})' if cname in ('fixed', 'jitter') else lnum(sleep)
            ini = f'{Q}{init.lean} {lsleep} {lopt(mx, lnum)} {lnum(jrc)} none'
            first = f'let o ← {ini}' if init.exc else f'let o ← (pure ({ini}) : Except Exc _)'
            meths = [('min', '', lambda o, d=d: o.min(d))]
            if ('m', cname, 'BackoffBase', 'randomize') in mt.infos or any(
                    k[0] == 'm' and k[1] == cname and k[3] == 'randomize' for k in mt.infos):
                meths.append(('randomize', f' {lnum(r)}', lambda o, d=d: o.randomize(d)))
            for mname, extra, f in meths:
                key = [k for k in mt.infos if k[0] == 'm' and k[1] == cname and k[3] == mname][0]
                info = mt.infos[key]
                lean = f'stR (do {first}; pure (stNums [{Q}{info.lean} o {lnum(d)}{extra}]))'

                def py(cname=cname, mx=mx, jrc=jrc, f=f, r=r):
                    import pypyr.retries as retries
                    saved = retries.random
                    retries.random = ScriptedRandom([r])
                    try:
                        obj = retries.builtin_backoffs[cname](sleep=1, max_sleep=mx, jrc=jrc, kwargs=None)
                        return 'ok ' + show_num(f(obj))
                    except Exception as e:
                        return 'err ' + common.exc_name(e)
                    finally:
                        retries.random = saved
                out.append({'what': f'{cname}(max_sleep={mx}, jrc={jrc}).{mname}({d}) rnd={r}', 'lean': lean,
                            'py': py, 'kind': 'nums'})
    # the name table
    table = mt.tables['builtin_backoffs']
    lean = '" ".intercalate (Pypyr.Translated.Retries.builtin_backoffs.map fun p => p.1 ++ "=" ++ p.2)'

    def py_table():
        import pypyr.retries as retries
        return ' '.join(f'{k}={v.__name__}' for k, v in retries.builtin_backoffs.items())
    out.append({'what': 'builtin_backoffs', 'lean': lean, 'py': py_table, 'kind': 'text'})
    assert table
    return out, ['Generated.TranslatedRetries']


STRS = ['true', 'True', 'TRUE', 'tRuE', '1', '1.0', 'false', 'False', '0', '', ' true', 'true ', 'yes', 'YES', 'y',
        '1.00', '01', 'on', 'truе', 'ＴＲＵＥ', 'trüe', 'İ', 'TRUE\n', 't', 'None', '1.0 ', '١', 'ｔｒｕｅ', 'K']


def rand_str(rng):
    if rng.random() < 0.5:
        return rng.choice(STRS)
    base = rng.choice(['true', '1', '1.0', 'yes', 'false'])
    s = ''.join(c.upper() if rng.random() < 0.5 else c for c in base)
    if rng.random() < 0.3:
        s = rng.choice([' ', '', 'x', 'é']) + s + rng.choice([' ', '', '\t', 'İ'])
    return s


def rand_val(rng, depth=0):
    r = rng.random()
    if r < 0.35:
        return rand_str(rng)
    if r < 0.5:
        return rng.choice([0, 1, -1, 2, 10 ** 20])
    if r < 0.6:
        return rng.choice([0.0, 1.0, 0.5, -2.25])
    if r < 0.7:
        return rng.choice([None, True, False])
    if r < 0.75:
        return rng.choice([b'', b'a', b'true'])
    if depth >= 2:
        return rng.choice([[], {}, ()])
    if r < 0.85:
        return [rand_val(rng, depth + 1) for _ in range(rng.randint(0, 3))]
    if r < 0.92:
        return tuple(rand_val(rng, depth + 1) for _ in range(rng.randint(0, 2)))
    if r < 0.96:
        return {rand_str(rng): rand_val(rng, depth + 1) for _ in range(rng.randint(0, 2))}
    return set(rng.sample([1, 2, 'a', 'true'], rng.randint(0, 2)))


def cases_c04(rng, n, mods):
    out = []
    Q = 'Pypyr.Translated.Types.'
    for i in range(n):
        s = STRS[i] if i < len(STRS) else rand_str(rng)

        def py(s=s):
            from pypyr.utils.types import cast_str_to_bool
            return 'true' if cast_str_to_bool(s) is True else ('false' if cast_str_to_bool(s) is False else 'other')
        out.append({'what': f'cast_str_to_bool({s!r})', 'lean': f'stBool ({Q}cast_str_to_bool {lean_str(s)})',
                    'py': py, 'kind': 'text'})
    for i in range(n):
        v = rand_val(rng)

        def py(v=v):
            from pypyr.utils.types import cast_to_bool
            r = cast_to_bool(v)
            return 'true' if r is True else ('false' if r is False else 'other')
        out.append({'what': f'cast_to_bool({v!r})', 'lean': f'stBool ({Q}cast_to_bool {lval(v)})', 'py': py,
                    'kind': 'text'})
    return out, ['Generated.TranslatedTypes']


def cases_c07(rng, n, mods):
    out = []
    mods_ = ['builtins', '__main__', 'pypyr.errors', 'a.b', 'x', 'vprobe', 'builtins2', '_main__', 'Builtins']
    names = ['ValueError', 'KeyNotInContextError', 'MyError', 'E', 'Stop', 'x_y', 'Error']
    import builtins
    for i in range(n):
        m, nm = rng.choice(mods_), rng.choice(names)

        def py(m=m, nm=nm):
            from pypyr.errors import get_error_name
            if m == 'builtins' and isinstance(getattr(builtins, nm, None), type):
                cls = getattr(builtins, nm)
            else:
                cls = type(nm, (Exception,), {})
                cls.__module__ = m
            return get_error_name(cls('boom'))
        out.append({'what': f'get_error_name({m}.{nm})',
                    'lean': f'Pypyr.Translated.Errors.get_error_name ⟨⟨{lean_str(m)}, {lean_str(nm)}⟩⟩', 'py': py,
                    'kind': 'text'})
    return out, ['Generated.TranslatedErrors']


ARG_ATOMS = ['a', 'b', 'k', '=', '==', 'a=b', 'a=', '=b', 'a=b=c', 'k=v w', '', ' ', 'é=ü', 'a = b', 'argList=x',
             'argList', 'k=1', 'k=2', 'x', 'True']


def cases_c18(rng, n, mods):
    out = []
    parsers = ['keyvaluepairs', 'list', 'string', 'keys', 'dict', 'argskwargs']
    per = max(n // len(parsers), 10)
    for p in parsers:
        Q = f'Pypyr.Translated.Parser{p.capitalize()}.'
        for i in range(per):
            if i == 0:
                args = None
            elif i == 1:
                args = []
            else:
                args = [rng.choice(ARG_ATOMS) if rng.random() < 0.8 else
                        ''.join(rng.choice('ab= ') for _ in range(rng.randint(0, 5)))
                        for _ in range(rng.randint(1, 5))]
            largs = lopt(args, lambda xs: llist(xs, lean_str))

            def py(p=p, args=args):
                import importlib
                mod = importlib.import_module(f'pypyr.parser.{p}')
                r = mod.get_parsed_context(None if args is None else list(args))
                return common.canon(common.enc(r))
            out.append({'what': f'{p}.get_parsed_context({args!r})',
                        'lean': f'(Val.toJson ({Q}get_parsed_context {largs})).compress', 'py': py, 'kind': 'json'})
    # the json parser: `json.loads` of the module is replaced by a scripted function of ONE positional argument
    # (the translated definition takes the same function as its parameter `loads`)
    class ScriptedJson:
        JSONDecodeError = json.JSONDecodeError

        @staticmethod
        def loads(s, /):
            if s.startswith('D'):
                return {'t': s}
            if s.startswith('E'):
                raise json.JSONDecodeError(s, s, 0)
            if s.startswith('L'):
                return [s]
            return None if s.startswith('N') else s
    for i in range(per):
        args = None if i == 0 else [] if i == 1 else \
            [rng.choice(['D', 'E', 'L', 'N', 'x', '']) + rng.choice(ARG_ATOMS)] + \
            [rng.choice(ARG_ATOMS + ['l1\nl2', '\x01', 'ü']) for _ in range(rng.randint(0, 3))]
        largs = lopt(args, lambda xs: llist(xs, lean_str))

        def pyj(args=args):
            import importlib
            mod = importlib.import_module('pypyr.parser.json')
            saved = mod.json
            mod.json = ScriptedJson
            try:
                r = mod.get_parsed_context(None if args is None else list(args))
                return 'ok ' + common.canon(common.enc(r))
            except Exception as e:
                return 'err ' + common.exc_name(e)
            finally:
                mod.json = saved
        out.append({'what': f'json.get_parsed_context({args!r}) [scripted loads]',
                    'lean': 'stR ((Pypyr.Translated.ParserJson.get_parsed_context ' + largs +
                            ' selftestLoads).map (fun v => (Val.toJson v).compress))', 'py': pyj, 'kind': 'okjson'})
    return out, [f'Generated.TranslatedParser{p.capitalize()}' for p in parsers + ['json']]


FAMILIES = {'C06': cases_c06, 'C04': cases_c04, 'C07': cases_c07, 'C18': cases_c18}


# ---------------------------------------------------------------------------------------------
# running
# ---------------------------------------------------------------------------------------------

def normalise(kind, text, side):
    text = text.rstrip('\n')
    if kind == 'json':
        if side == 'lean':
            return common.canon(json.loads(text))
        return text
    if kind == 'okjson':
        return 'ok ' + common.canon(json.loads(text[3:])) if side == 'lean' and text.startswith('ok ') else text
    if kind == 'nums' and side == 'lean' and text.startswith('ok'):
        return ('ok ' + ' '.join(norm_lean_num(t) for t in text.split()[1:])).rstrip()
    return text.rstrip() if kind == 'nums' else text


def run_family(fam, seed, n):
    """-> (number of cases, list of mismatch descriptions). Raises Mismatch if the Lean side cannot run."""
    rng = random.Random(seed * 7919 + sum(map(ord, fam)))
    translate.generate([fam])
    mods = {t: translate.translate(t)[1] for t in translate.FAMILIES[fam]}
    cases, lean_mods = FAMILIES[fam](rng, n, mods)
    ok, log = common.lake_build(lean_mods)
    if not ok:
        raise Mismatch(f'{fam}: generated modules do not build: ' + log[-1500:])
    SELFTEST.mkdir(exist_ok=True)
    src = SELFTEST / f'Selftest_{fam}.lean'
    lines = [f'import {m}' for m in lean_mods] + ['import PypyrModel.Json', PREAMBLE,
                                                   'def selftestCases : List (Unit → String) := [']
    lines += [f'  (fun (_ : Unit) => {c["lean"]}),' for c in cases]
    lines[-1] = lines[-1].rstrip(',')
    lines += [']', '', '#eval do', '  for f in selftestCases do', '    IO.println ("CASE " ++ (f ()).replace "\\n" "\\\\n")']
    src.write_text('\n'.join(lines) + '\n')
    rc, outp = common.sh(['lake', 'env', 'lean', str(src)], cwd=common.LEAN)
    got = [ln[5:] for ln in outp.splitlines() if ln.startswith('CASE ')]
    if rc != 0 or len(got) != len(cases):
        raise Mismatch(f'{fam}: the Lean side did not evaluate ({len(got)}/{len(cases)} results): ' + outp[-1500:])
    common.use_repo()
    bad = []
    for c, g in zip(cases, got):
        want = normalise(c['kind'], c['py']().replace('\n', '\\n'), 'py')
        have = normalise(c['kind'], g, 'lean')
        if want != have:
            bad.append(f'{c["what"]}: python {want!r} / translated {have!r}')
    return len(cases), bad


def check(families, seed=1, n=200):
    total = 0
    for fam in families:
        k, bad = run_family(fam, seed, n)
        total += k
        if bad:
            raise Mismatch(f'{fam}: translated Lean and real Python differ on {len(bad)} of {k} inputs; first: '
                           + bad[0])
    return total


def main():
    args = [a for a in sys.argv[1:]]
    n = 200
    if '--n' in args:
        i = args.index('--n')
        n = int(args[i + 1])
        del args[i:i + 2]
    fams = [a.upper() for a in args] or list(FAMILIES)
    seed = int(os.environ.get('VERIF_SEED', '1'))
    rc = 0
    for fam in fams:
        try:
            k, bad = run_family(fam, seed, n)
        except (Mismatch, translate.TranslateError) as e:
            print(f'{fam}: SELFTEST CANNOT RUN: {e}')
            rc = 1
            continue
        print(f'{fam}: {k} inputs, {len(bad)} differences')
        for b in bad[:5]:
            print('   ' + b)
        if bad:
            rc = 1
    sys.exit(rc)


if __name__ == '__main__':
    main()
