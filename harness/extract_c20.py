"""ast-based extractor for C20: reads pypyr/config.py and pypyr/platform.py under the tree under
test WITHOUT importing them and regenerates lean/Generated/ConfigProps.lean:

  * `Config.all_writable_props`, `Config.dict_props` (sorted), the shape of `scalar_props`;
  * the defaults assigned to the writable attributes in `Config.__init__`, in source order, as
    `DefaultSrc` (literal / os.getenv(NAME, None) / cast_str_to_bool(os.getenv(NAME, d)) / {});
  * the `handle_path` calls of `Config.init` in source order (guard, loop, path kind, handler,
    raise_not_found) and the `os.getenv` calls of `init` (name, default);
  * the body of `Config.update` statement by statement, the expression assigned to `difference` (the unknown-setting
    test), its `if difference: raise ConfigError` shape;
  * `Xdg` / `MacOs` `common_config_base_dir_default`, the env names `Xdg.get_config_user` /
    `get_config_common` read, the `expanduser` argument, the `get_platform_paths(...)` arguments.

`Props/Lemmas/C20_Agree.lean` proves (by `decide`/`rfl`) these equal what the model uses, so an
edit of the tables breaks a proof obligation. A source that no longer has the expected shape
raises (-> "extractor failed" proof problem). The file is rewritten only when it changes.
"""
from __future__ import annotations

import ast
from pathlib import Path


class Shape(Exception):
    pass


def lean_str(s: str) -> str:
    out = '"'
    for ch in s:
        if ch == '"':
            out += '\\"'
        elif ch == '\\':
            out += '\\\\'
        elif ch == '\n':
            out += '\\n'
        elif 32 <= ord(ch) < 127:
            out += ch
        else:
            raise Shape(f'non-printable character in literal {s!r}')
    return out + '"'


def find_class(tree, name):
    for n in tree.body:
        if isinstance(n, ast.ClassDef) and n.name == name:
            return n
    raise Shape(f'class {name} not found')


def find_def(cls, name):
    for n in cls.body:
        if isinstance(n, ast.FunctionDef) and n.name == name:
            return n
    raise Shape(f'{cls.name}.{name} not found')


def str_set(node, what):
    if not (isinstance(node, ast.Set) and all(isinstance(e, ast.Constant) and isinstance(e.value, str) for e in node.elts)):
        raise Shape(f'{what} is not a set of string literals')
    vals = [e.value for e in node.elts]
    if len(set(vals)) != len(vals):
        raise Shape(f'{what} lists a name twice')
    return sorted(vals)


def getenv_call(node):
    """os.getenv(NAME[, default]) -> (name, default literal or None) else None."""
    if (isinstance(node, ast.Call) and isinstance(node.func, ast.Attribute) and node.func.attr == 'getenv'
            and isinstance(node.func.value, ast.Name) and node.func.value.id == 'os' and node.args
            and isinstance(node.args[0], ast.Constant) and isinstance(node.args[0].value, str)):
        d = node.args[1] if len(node.args) > 1 else ast.Constant(None)
        if not isinstance(d, ast.Constant) or not (d.value is None or isinstance(d.value, str)):
            raise Shape('os.getenv default is not None or a string literal')
        return node.args[0].value, d.value
    return None


def default_src(value):
    if isinstance(value, ast.Constant):
        v = value.value
        if v is None:
            return '.lit .none'
        if isinstance(v, bool):
            return f'.lit (.bool {"true" if v else "false"})'
        if isinstance(v, int):
            return f'.lit (.int {v})' if v >= 0 else f'.lit (.int ({v}))'
        if isinstance(v, str):
            return f'.lit (.str {lean_str(v)})'
    if isinstance(value, ast.Dict) and not value.keys:
        return '.emptyDict'
    g = getenv_call(value)
    if g:
        if g[1] is not None:
            raise Shape(f'os.getenv({g[0]!r}) with a non-None default as a plain attribute default')
        return f'.env {lean_str(g[0])}'
    if (isinstance(value, ast.Call) and isinstance(value.func, ast.Name) and value.func.id == 'cast_str_to_bool'
            and len(value.args) == 1):
        g = getenv_call(value.args[0])
        if g and g[1] is not None:
            return f'.envBool {lean_str(g[0])} {lean_str(g[1])}'
    raise Shape(f'default expression of unknown shape: {ast.unparse(value)}')


def self_attr_target(stmt):
    if isinstance(stmt, ast.Assign) and len(stmt.targets) == 1:
        t, v = stmt.targets[0], stmt.value
    elif isinstance(stmt, ast.AnnAssign) and stmt.value is not None:
        t, v = stmt.target, stmt.value
    else:
        return None
    if isinstance(t, ast.Attribute) and isinstance(t.value, ast.Name) and t.value.id == 'self':
        return t.attr, v
    return None


def handle_path_calls(fn):
    """Source-order list of descriptors of the self.handle_path(...) calls in Config.init."""
    out = []

    def visit(stmts, guard, loop):
        for s in stmts:
            if isinstance(s, ast.If):
                visit(s.body, 'if:' + ast.unparse(s.test) if guard == 'top' else guard + '&if', loop)
                visit(s.orelse, 'else' if guard == 'top' else guard + '&else', loop)
            elif isinstance(s, ast.For):
                it = s.iter
                rev = (isinstance(it, ast.Call) and isinstance(it.func, ast.Name) and it.func.id == 'reversed')
                src = ast.unparse(it.args[0] if rev else it).split('.')[-1]
                visit(s.body, guard, ('reversed:' if rev else 'forward:') + src)
            elif isinstance(s, ast.Expr) and isinstance(s.value, ast.Call):
                c = s.value
                if isinstance(c.func, ast.Attribute) and c.func.attr == 'handle_path':
                    a0 = c.args[0]
                    if (isinstance(a0, ast.Call) and isinstance(a0.func, ast.Name) and a0.func.id == 'Path'
                            and len(a0.args) == 1 and isinstance(a0.args[0], ast.Constant)):
                        path = 'lit:' + a0.args[0].value
                    elif isinstance(a0, ast.Attribute):
                        path = 'attr:' + a0.attr
                    else:
                        path = 'var'
                    handler = 'yaml'
                    if len(c.args) > 1:
                        handler = ast.unparse(c.args[1]).split('.')[-1]
                    must = any(k.arg == 'raise_not_found' and isinstance(k.value, ast.Constant) and k.value.value is True
                               for k in c.keywords) or (len(c.args) > 2 and ast.unparse(c.args[2]) == 'True')
                    out.append('|'.join([guard.split(':')[0], loop, path, handler, 'must' if must else 'opt']))
            elif isinstance(s, (ast.With, ast.Try)):
                raise Shape('Config.init has grown a with/try block: re-read it')
    visit(fn.body, 'top', 'plain')
    return out


def getenvs(fn):
    calls = [g for n in ast.walk(fn) if (g := getenv_call(n))]
    # ast.walk is breadth-first: order by position instead
    pos = {}
    for n in ast.walk(fn):
        g = getenv_call(n)
        if g:
            pos[(n.lineno, n.col_offset)] = g
    return [pos[k] for k in sorted(pos)]


def class_attr_literal(cls, attr):
    init = find_def(cls, '__init__')
    for s in ast.walk(init):
        t = self_attr_target(s) if isinstance(s, (ast.Assign, ast.AnnAssign)) else None
        if t and t[0] == attr:
            if isinstance(t[1], ast.Constant) and isinstance(t[1].value, str):
                return t[1].value
            raise Shape(f'{cls.name}.{attr} is not a string literal')
    raise Shape(f'{cls.name}.__init__ does not set {attr}')


def opt_str(s):
    return 'none' if s is None else f'(some {lean_str(s)})'


def render(repo: Path) -> str:
    cfg_tree = ast.parse((repo / 'pypyr' / 'config.py').read_text())
    plat_tree = ast.parse((repo / 'pypyr' / 'platform.py').read_text())
    cls = find_class(cfg_tree, 'Config')
    tables = {}
    scalar_shape = None
    for s in cls.body:
        if isinstance(s, ast.Assign) and len(s.targets) == 1 and isinstance(s.targets[0], ast.Name):
            name = s.targets[0].id
            if name in ('all_writable_props', 'dict_props'):
                tables[name] = str_set(s.value, name)
            elif name == 'scalar_props':
                scalar_shape = ast.unparse(s.value)
    if set(tables) != {'all_writable_props', 'dict_props'} or scalar_shape is None:
        raise Shape('Config.all_writable_props / dict_props / scalar_props not all found')
    writable = set(tables['all_writable_props'])
    defaults = []
    for s in find_def(cls, '__init__').body:
        t = self_attr_target(s)
        if t and t[0] in writable:
            defaults.append((t[0], default_src(t[1])))
    init = find_def(cls, 'init')
    calls = handle_path_calls(init)
    envs = getenvs(init)
    ctor_envs = getenvs(find_def(cls, '__init__'))
    # every other read of the environment in pypyr/config.py (module level, other methods, os.environ[...])
    inside = {id(n) for fn in (init, find_def(cls, '__init__')) for n in ast.walk(fn)}
    module_envs = []
    for n in ast.walk(cfg_tree):
        if id(n) in inside:
            continue
        g = getenv_call(n)
        if g:
            module_envs.append(g)
        elif isinstance(n, ast.Attribute) and n.attr in ('environ', 'environb', 'getenvb'):
            module_envs.append((ast.unparse(n), None))
    for fn in (init, find_def(cls, '__init__')):
        for n in ast.walk(fn):
            if isinstance(n, ast.Attribute) and n.attr in ('environ', 'environb', 'getenvb'):
                raise Shape(f'Config.{fn.name} reads the environment through {ast.unparse(n)}: re-read it')
    gpp = [n for n in ast.walk(init) if isinstance(n, ast.Call) and isinstance(n.func, ast.Attribute)
           and n.func.attr == 'get_platform_paths']
    if len(gpp) != 1 or not all(isinstance(a, ast.Constant) and isinstance(a.value, str) for a in gpp[0].args):
        raise Shape('get_platform_paths(<app>, <file>) call not found in Config.init')
    app_args = [a.value for a in gpp[0].args]
    xdg = find_class(plat_tree, 'Xdg')
    mac = find_class(plat_tree, 'MacOs')
    xdg_user_env = getenvs(find_def(xdg, 'get_config_user'))
    xdg_common_env = getenvs(find_def(xdg, 'get_config_common'))
    expand = [n.args[0].value for n in ast.walk(find_def(xdg, 'get_config_user'))
              if isinstance(n, ast.Call) and isinstance(n.func, ast.Attribute) and n.func.attr == 'expanduser'
              and n.args and isinstance(n.args[0], ast.Constant)]
    win = find_class(plat_tree, 'Windows')
    win_env = getenvs(find_def(win, '__init__'))
    # get_platform_dir_finder: the chain of tests, in source order
    finder = next((n for n in plat_tree.body if isinstance(n, ast.FunctionDef) and n.name == 'get_platform_dir_finder'), None)
    if finder is None:
        raise Shape('get_platform_dir_finder not found')
    chain = next((n for n in finder.body if isinstance(n, ast.If)), None)
    if chain is None:
        raise Shape('get_platform_dir_finder has no if chain')
    branches, android_tests = [], []
    node = chain
    while True:
        target = [a.value.id for a in ast.walk(ast.Module(body=node.body, type_ignores=[]))
                  if isinstance(a, (ast.Assign,)) and isinstance(a.value, ast.Name)]
        if len(target) != 1:
            raise Shape('get_platform_dir_finder: a branch does not assign one class')
        test = node.test
        envs_here = []
        for c in ast.walk(test):
            if isinstance(c, ast.Compare) and len(c.ops) == 1 and isinstance(c.ops[0], ast.Eq):
                g = getenv_call(c.left)
                if g and isinstance(c.comparators[0], ast.Constant):
                    envs_here.append((g[0], c.comparators[0].value))
        if envs_here:
            if not (isinstance(test, ast.BoolOp) and isinstance(test.op, ast.And)):
                raise Shape('get_platform_dir_finder: environment tests are not joined by `and`')
            android_tests = envs_here
            branches.append('env:' + target[0])
        elif (isinstance(test, ast.Compare) and isinstance(test.left, ast.Name) and len(test.ops) == 1
              and isinstance(test.ops[0], ast.Eq) and isinstance(test.comparators[0], ast.Constant)):
            branches.append(f'{test.comparators[0].value}:{target[0]}')
        else:
            raise Shape(f'get_platform_dir_finder: test of unknown shape: {ast.unparse(test)}')
        if len(node.orelse) == 1 and isinstance(node.orelse[0], ast.If):
            node = node.orelse[0]
            continue
        target = [a.value.id for a in node.orelse if isinstance(a, ast.Assign) and isinstance(a.value, ast.Name)]
        if len(target) != 1:
            raise Shape('get_platform_dir_finder: the else branch does not assign one class')
        branches.append('else:' + target[0])
        break
    android = find_class(plat_tree, 'Android')
    and_raise = [ast.unparse(n.exc.func) + ':' + n.exc.args[0].value for n in ast.walk(find_def(android, '_get_android_dir'))
                 if isinstance(n, ast.Raise) and isinstance(n.exc, ast.Call) and n.exc.args
                 and isinstance(n.exc.args[0], ast.Constant)]
    and_join = [ast.unparse(n) for n in ast.walk(find_def(android, '__init__'))
                if isinstance(n, ast.Call) and isinstance(n.func, ast.Attribute) and n.func.attr == 'joinpath'
                and any(isinstance(a, ast.Constant) and a.value == 'shared_prefs' for a in n.args)]
    # which exceptions the two loaders turn into "absent" / ConfigError: the except clauses
    def excepts(fn):
        return [ast.unparse(h.type) if h.type is not None else 'BaseException'
                for n in ast.walk(fn) if isinstance(n, ast.Try) for h in n.handlers]
    loader_excepts = [('load_yaml', excepts(find_def(cls, 'load_yaml'))),
                      ('load_pyproject_toml', excepts(find_def(cls, 'load_pyproject_toml'))),
                      ('handle_path', excepts(find_def(cls, 'handle_path'))),
                      ('update', excepts(find_def(cls, 'update'))), ('init', excepts(init))]
    # where the yaml parser object of `load_yaml` comes from: every `<receiver>.load(...)` call of the function - a receiver
    # that is a plain name assigned INSIDE the function gives the assignment(s) (a parser per call), anything else
    # (an attribute of self, a module-level name, a parameter) gives `<not local>: receiver`
    ly = find_def(cls, 'load_yaml')
    yaml_parser_origin = []
    for n in ast.walk(ly):
        if isinstance(n, ast.Call) and isinstance(n.func, ast.Attribute) and n.func.attr in ('load', 'load_all'):
            recv = n.func.value
            local = [ast.unparse(a) for a in ast.walk(ly) if isinstance(a, ast.Assign) and isinstance(recv, ast.Name)
                     and any(isinstance(t, ast.Name) and t.id == recv.id for t in a.targets)]
            yaml_parser_origin += local or ['<not local>: ' + ast.unparse(recv)]
    # Config.update: the whole body (docstring dropped), statement by statement, and every expression assigned to `difference`
    upd = find_def(cls, 'update')
    upd_body = [s for s in upd.body
                if not (isinstance(s, ast.Expr) and isinstance(s.value, ast.Constant) and isinstance(s.value.value, str))]
    update_body = [ast.unparse(s) for s in upd_body]
    update_args = [a.arg for a in upd.args.posonlyargs + upd.args.args + upd.args.kwonlyargs]
    if upd.args.vararg or upd.args.kwarg or upd.decorator_list:
        raise Shape('Config.update has grown *args / **kwargs / a decorator: re-read it')
    update_difference = []
    for n in ast.walk(upd):
        targets = []
        if isinstance(n, ast.Assign):
            targets, val = n.targets, n.value
        elif isinstance(n, (ast.AnnAssign, ast.AugAssign, ast.NamedExpr)):
            targets, val = [n.target], n.value
        for t in targets:
            for leaf in ast.walk(t):
                if isinstance(leaf, ast.Name) and leaf.id == 'difference':
                    update_difference.append(ast.unparse(val) if val is not None else '<no value>')
    # how the "unknown setting" test is wired: `if <test>: raise <Exc>(...)` statements of update, in source order
    update_raises = []
    for n in upd_body:
        if isinstance(n, ast.If):
            for r in n.body:
                if isinstance(r, ast.Raise) and r.exc is not None:
                    exc = r.exc.func if isinstance(r.exc, ast.Call) else r.exc
                    update_raises.append(f'if {ast.unparse(n.test)}: raise {ast.unparse(exc)}' + (' else ...' if n.orelse else ''))
    lines = [
        '/- GENERATED by harness/extract_c20.py from pypyr/config.py and pypyr/platform.py — do not edit. -/',
        'import PypyrModel.Config',
        '',
        'namespace Pypyr.Generated.ConfigProps',
        'open Pypyr.Config',
        '',
        '/-- `Config.all_writable_props`, sorted. -/',
        'def allWritableProps : List String :=\n  [' + ', '.join(lean_str(x) for x in tables['all_writable_props']) + ']',
        '',
        '/-- `Config.dict_props`, sorted. -/',
        'def dictProps : List String := [' + ', '.join(lean_str(x) for x in tables['dict_props']) + ']',
        '',
        '/-- Source text of `Config.scalar_props`. -/',
        f'def scalarPropsExpr : String := {lean_str(scalar_shape)}',
        '',
        '/-- `self.<writable> = …` in `Config.__init__`, source order. -/',
        'def defaultsTable : List (String × DefaultSrc) :=\n  [' + ',\n   '.join(f'({lean_str(k)}, {v})' for k, v in defaults) + ']',
        '',
        '/-- The `handle_path` calls of `Config.init`, source order: guard|loop|path|loader|raise_not_found. -/',
        'def initCalls : List String :=\n  [' + ',\n   '.join(lean_str(c) for c in calls) + ']',
        '',
        '/-- The `os.getenv(name, default)` calls of `Config.init`, source order. -/',
        'def initGetenv : List (String × Option String) :=\n  [' + ', '.join(f'({lean_str(n)}, {opt_str(d)})' for n, d in envs) + ']',
        '',
        '/-- The `os.getenv(name, default)` calls of `Config.__init__`, source order. -/',
        'def ctorGetenv : List (String × Option String) :=\n  [' + ', '.join(f'({lean_str(n)}, {opt_str(d)})' for n, d in ctor_envs) + ']',
        '',
        '/-- Reads of the environment anywhere else in pypyr/config.py (module level = at import). -/',
        'def moduleGetenv : List (String × Option String) :=\n  [' + ', '.join(f'({lean_str(n)}, {opt_str(d)})' for n, d in module_envs) + ']',
        '',
        '/-- `get_platform_paths(app_name, config_file_name)` arguments. -/',
        'def platformArgs : List String := [' + ', '.join(lean_str(a) for a in app_args) + ']',
        '',
        f'def xdgCommonBaseDefault : String := {lean_str(class_attr_literal(xdg, "common_config_base_dir_default"))}',
        f'def macCommonBaseDefault : String := {lean_str(class_attr_literal(mac, "common_config_base_dir_default"))}',
        'def xdgUserGetenv : List (String × Option String) := [' + ', '.join(f'({lean_str(n)}, {opt_str(d)})' for n, d in xdg_user_env) + ']',
        'def xdgCommonGetenv : List (String × Option String) := [' + ', '.join(f'({lean_str(n)}, {opt_str(d)})' for n, d in xdg_common_env) + ']',
        'def xdgUserExpand : List String := [' + ', '.join(lean_str(a) for a in expand) + ']',
        '',
        '/-- `Windows.__init__`: the `os.getenv(name, default)` behind the common default. -/',
        'def winCommonGetenv : List (String × Option String) := [' + ', '.join(f'({lean_str(n)}, {opt_str(d)})' for n, d in win_env) + ']',
        '',
        '/-- `get_platform_dir_finder`: the tests in source order (`env:` = the `$ANDROID_*` test, `<sys.platform>:Class`). -/',
        'def finderBranches : List String := [' + ', '.join(lean_str(b) for b in branches) + ']',
        '/-- the `os.getenv(NAME) == literal` conjuncts of the Android test. -/',
        'def androidTests : List (String × String) := [' + ', '.join(f'({lean_str(n)}, {lean_str(v)})' for n, v in android_tests) + ']',
        '/-- what `Android._get_android_dir` raises when it finds nothing. -/',
        'def androidRaises : List String := [' + ', '.join(lean_str(a) for a in and_raise) + ']',
        '/-- the `joinpath` behind the Android config file. -/',
        'def androidJoin : List String := [' + ', '.join(lean_str(a) for a in and_join) + ']',
        '',
        '/-- the `except` clauses of the loaders, of `handle_path`, `update` and `init`: what is caught at all. -/',
        'def loaderExcepts : List (String × List String) :=\n  [' + ', '.join(f'({lean_str(n)}, [' + ', '.join(lean_str(x) for x in xs) + '])' for n, xs in loader_excepts) + ']',
        '',
        '/-- `Config.update(self, input)`: parameter names. -/',
        'def updateArgs : List String := [' + ', '.join(lean_str(a) for a in update_args) + ']',
        '/-- every expression assigned to the name `difference` anywhere in `Config.update` (the unknown-setting test). -/',
        'def updateDifference : List String := [' + ', '.join(lean_str(a) for a in update_difference) + ']',
        '/-- the `if <test>: raise <Exc>` statements at the top level of `Config.update`, source order. -/',
        'def updateRaises : List String := [' + ', '.join(lean_str(a) for a in update_raises) + ']',
        '/-- the body of `Config.update`, statement by statement (`ast.unparse`; docstring and comments dropped). -/',
        'def updateBody : List String :=\n  [' + ',\n   '.join(lean_str(a) for a in update_body) + ']',
        '',
        '/-- `Config.load_yaml`: where the object whose `.load(file)` parses the file comes from - the assignment(s) to that',
        '    name inside the function (a parser per call), or `<not local>: …` (an object that outlives the call). -/',
        'def yamlParserOrigin : List String := [' + ', '.join(lean_str(a) for a in yaml_parser_origin) + ']',
        '',
        'end Pypyr.Generated.ConfigProps',
        '']
    return '\n'.join(lines)


def generate(repo, target):
    repo, target = Path(repo), Path(target)
    text = render(repo)
    target.parent.mkdir(parents=True, exist_ok=True)
    if not target.exists() or target.read_text() != text:
        target.write_text(text)
    return text


if __name__ == '__main__':
    import sys
    print(render(Path(sys.argv[1] if len(sys.argv) > 1 else '/repo')))
