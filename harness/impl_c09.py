"""C09 helpers: object graphs <-> heap cells, canonical id() graphs, monitors, generators.

A *case* is JSON-able:
  {"stream": s, "cells": [cell...], "ctx": [[key, ref]...], "root": ref}          (generated heaps)
  {"stream": "yaml", "yaml": text}                                                (real yaml text)
  {"stream": "f9", "cls": name}                                                   (ctor-incompatible classes)
Cells use the wire form of lean/Driver/OpHeap.lean:
  {"leaf": wire} {"mbytes": hex} (a bytearray) {"str": s} {"list": [tag, [refs]]} {"tuple": …} {"set": …} {"dict": [tag, [[k, v]…]]}
  {"sic": ref} {"py": name} {"jsonify": ref}
"""
from __future__ import annotations

import collections
import contextlib
import copy
import io
import signal
import threading
from collections.abc import Mapping, Sequence, Set

from . import common
from .common import enc, canon, Opaque


# ---------------------------------------------------------------------------------------------
# container classes and their model tags
# ---------------------------------------------------------------------------------------------

class MyList(list):
    pass


class MyTuple(tuple):
    pass


class MyDict(dict):
    pass


class MySet(set):
    pass


EQ_BASE = 1_000_000


class EqOpaque(Opaque):
    """Arbitrary objects that are DISTINCT (`is`) but compare and hash EQUAL within a group of 8 idents:
    what `==`-keyed bookkeeping confuses and `id`-keyed bookkeeping keeps apart. Wire: {"o": ident >= EQ_BASE}."""

    def __init__(self, ident):
        super().__init__(ident)
        self.group = ident // 8

    def __eq__(self, other):
        return isinstance(other, EqOpaque) and other.group == self.group

    def __ne__(self, other):
        return not self.__eq__(other)

    def __hash__(self):
        return hash(('EqOpaque', self.group))


TRUTH_BASE = 2_000_000
TRUTH_KINDS = ('bool-raises', 'len-effect', 'bool-false', 'len-raises', 'bool-effect')


class TruthOpaque(Opaque):
    """Arbitrary leaf objects with a non-trivial TRUTH VALUE (wire: {"o": ident >= TRUTH_BASE}, kind = ident % 5):
      bool-raises  __bool__ raises ValueError (numpy array / DataFrame: "truth value is ambiguous")
      len-effect   __len__ fetches (a lazy query result: measuring it changes its state), length 0, no __bool__
      bool-false   __bool__ is False (an empty custom collection, a zero-like number)
      len-raises   __len__ raises TypeError, no __bool__
      bool-effect  __bool__ has a side effect and is True
    Every evaluation is counted in `touched`: a formatter that passes leaves through as the identical objects has
    no business evaluating them, and one that does changes the value it formats (the harness itself never
    truth-tests or measures a leaf: is / isinstance / repr only). Build with `truth_opaque(ident)`."""

    def __init__(self, ident):
        super().__init__(ident)
        self.kind = TRUTH_KINDS[ident % 5]
        self.touched = 0
        self.fetched = None


class TruthBool(TruthOpaque):
    def __bool__(self):
        self.touched += 1
        if self.kind == 'bool-raises':
            raise ValueError('The truth value of an object with more than one element is ambiguous.')
        if self.kind == 'bool-effect':
            self.fetched = []
        return self.kind == 'bool-effect'


class TruthLen(TruthOpaque):
    def __len__(self):
        self.touched += 1
        if self.kind == 'len-raises':
            raise TypeError('len() of unsized object')
        self.fetched = []
        return 0


def truth_opaque(ident):
    return (TruthLen if TRUTH_KINDS[ident % 5].startswith('len') else TruthBool)(ident)


def truth_opaques(*roots):
    out = {}
    for r in roots:
        for i, o in opaques_in(r).items():
            if isinstance(o, TruthOpaque):
                out[i] = o
    return list(out.values())


def _classes():
    from ruamel.yaml.comments import CommentedMap, CommentedSeq
    return {
        'list': {0: list, 2: CommentedSeq, 3: MyList},
        'tuple': {0: tuple, 3: MyTuple},
        'dict': {0: dict, 2: CommentedMap, 3: collections.OrderedDict, 4: MyDict},
        'set': {0: set, 1: frozenset, 3: MySet},
    }


_CLS = None
_TAG = None


def classes():
    global _CLS, _TAG
    if _CLS is None:
        _CLS = _classes()
        _TAG = {cls: (kind, tag) for kind, m in _CLS.items() for tag, cls in m.items()}
    return _CLS


def classify(o):
    """(kind, tag) of a container object, or None when its class is not one the model numbers."""
    classes()
    return _TAG.get(type(o))


def is_special(o):
    from pypyr.dsl import SpecialTagDirective
    return isinstance(o, SpecialTagDirective)


def is_leaf(o):
    """Non-string leaf: what the formatter must return as the identical object."""
    if isinstance(o, (str, Mapping, Sequence, Set)) and not isinstance(o, (bytes, bytearray)):
        return False
    return not is_special(o)


class CaseTimeout(BaseException):
    """One case took longer than its time limit (BaseException: no `except Exception` of the code under test
    swallows it)."""


@contextlib.contextmanager
def time_limit(seconds):
    """Per-case wall-clock limit (SIGALRM, main thread only): an implementation that never returns becomes a
    CaseTimeout at the call site instead of a hang of the check."""
    if threading.current_thread() is not threading.main_thread() or not hasattr(signal, 'setitimer'):
        yield
        return

    def on_alarm(signum, frame):
        raise CaseTimeout()
    old = signal.signal(signal.SIGALRM, on_alarm)
    signal.setitimer(signal.ITIMER_REAL, seconds)
    try:
        yield
    finally:
        signal.setitimer(signal.ITIMER_REAL, 0)
        signal.signal(signal.SIGALRM, old)


CASE_SECONDS = 10.0


def fresh_str(s):
    """A str object that is not shared with any other (len >= 2)."""
    return ''.join(list(s)) if len(s) >= 2 else s


# ---------------------------------------------------------------------------------------------
# cells -> objects, objects -> cells
# ---------------------------------------------------------------------------------------------

def build_objects(cells):
    """One Python object per cell, in index order (cells refer to lower indices only)."""
    from pypyr.dsl import Jsonify, PyString, SicString
    cls = classes()
    objs = []
    for c in cells:
        if 'leaf' in c:
            w = c['leaf']
            if isinstance(w, dict) and 'o' in w and w['o'] >= TRUTH_BASE:
                o = truth_opaque(w['o'])
            elif isinstance(w, dict) and 'o' in w and w['o'] >= EQ_BASE:
                o = EqOpaque(w['o'])
            else:
                o = common.dec(w)
        elif 'mbytes' in c:
            o = bytearray.fromhex(c['mbytes'])
        elif 'str' in c:
            o = fresh_str(c['str'])
        elif 'list' in c:
            tag, rs = c['list']
            o = cls['list'][tag]([objs[r] for r in rs])
        elif 'tuple' in c:
            tag, rs = c['tuple']
            o = cls['tuple'][tag]([objs[r] for r in rs])
        elif 'set' in c:
            tag, rs = c['set']
            o = cls['set'][tag]([objs[r] for r in rs])
        elif 'dict' in c:
            tag, kvs = c['dict']
            o = cls['dict'][tag]([(objs[k], objs[v]) for k, v in kvs])
        elif 'sic' in c:
            o = SicString(objs[c['sic']])
        elif 'py' in c:
            o = PyString(c['py'])
        elif 'jsonify' in c:
            o = Jsonify(objs[c['jsonify']])
        else:
            raise ValueError(c)
        objs.append(o)
    return objs


class NotModelled(Exception):
    pass


def identity_bearing(o):
    """Objects whose id() the comparison trusts: containers, special tags, opaque objects, every bytearray
    (mutable: its identity is observable by a later write), strs and bytes of length >= 2 (shorter ones and
    numbers may be CPython singletons)."""
    if isinstance(o, (str, bytes)):
        return len(o) >= 2
    if isinstance(o, (Opaque, bytearray)):
        return True
    if type(o) in (tuple, frozenset) and len(o) == 0:
        return False                      # CPython singletons
    return not is_leaf(o)


def graph_to_cells(roots):
    """Encode the object graph reachable from `roots` (list of objects) as cells.
    Returns (cells, refs of roots, objs list parallel to cells)."""
    from pypyr.dsl import Jsonify, PyString, SicString
    cells, objs, memo = [], [], {}

    def add(c, o):
        cells.append(c)
        objs.append(o)
        return len(cells) - 1

    def walk(o):
        if identity_bearing(o) and id(o) in memo:
            return memo[id(o)]
        if isinstance(o, str):
            if type(o) is not str:
                raise NotModelled(f'str subclass {type(o).__name__}')
            r = add({'str': o}, o)
        elif isinstance(o, SicString):
            if type(o.value) is not str:
                raise NotModelled('sic payload')
            r = add({'sic': walk(o.value)}, o)
        elif isinstance(o, PyString):
            if not (isinstance(o.value, str) and o.value.isidentifier()):
                raise NotModelled('py expression is not a bare name')
            r = add({'py': o.value}, o)
        elif isinstance(o, Jsonify):
            r = add({'jsonify': walk(o.value)}, o)
        elif isinstance(o, bytearray):
            r = add({'mbytes': bytes(o).hex()}, o)
        elif is_leaf(o):
            r = add({'leaf': enc(o)}, o)
        else:
            kt = classify(o)
            if kt is None:
                raise NotModelled(f'container class {type(o).__name__}')
            kind, tag = kt
            if kind == 'dict':
                r = add({'dict': [tag, [[walk(k), walk(v)] for k, v in o.items()]]}, o)
            elif kind == 'set':
                members = [(canon(enc(x)), x) for x in o]
                members.sort(key=lambda p: p[0])
                r = add({'set': [tag, [walk(x) for _, x in members]]}, o)
            else:
                r = add({kind: [tag, [walk(x) for x in o]]}, o)
        if identity_bearing(o):
            memo[id(o)] = r
        return r

    refs = [walk(o) for o in roots]
    return cells, refs, objs


# ---------------------------------------------------------------------------------------------
# canonical id() graphs
# ---------------------------------------------------------------------------------------------

def impl_graph(result, id2old):
    """Canonical graph of the implementation's result: nodes labelled `old<i>` when they are the
    input object of cell i, `new<k>` (first appearance, DFS pre-order) otherwise."""
    from pypyr.dsl import Jsonify, PyString, SicString
    seen, fresh = {}, [0]

    def label(o):
        i = id2old.get(id(o))
        if i is not None:
            return f'old{i}'
        fresh[0] += 1
        return f'new{fresh[0] - 1}'

    def walk(o, in_set):
        if isinstance(o, str):
            if len(o) < 2 or in_set:
                return {'str': o}
            if id(o) in seen:
                return {'ref': seen[id(o)]}
            seen[id(o)] = lb = label(o)
            return {'id': lb, 'str': o}
        if is_leaf(o):
            # binary leaves carry their identity: bytearray always, bytes when not a CPython singleton
            node = {'mbytes': bytes(o).hex()} if isinstance(o, bytearray) else {'leaf': enc(o)}
            if isinstance(o, (bytes, bytearray)) and not in_set and identity_bearing(o):
                if id(o) in seen:
                    return {'ref': seen[id(o)]}
                seen[id(o)] = node['id'] = label(o)
            return node
        ident = not in_set and identity_bearing(o)
        if ident and id(o) in seen:
            return {'ref': seen[id(o)]}
        node = {}
        if ident:
            seen[id(o)] = node['id'] = label(o)
        if isinstance(o, SicString):
            node['sic'] = walk(o.value, in_set)
        elif isinstance(o, PyString):
            node['py'] = o.value
        elif isinstance(o, Jsonify):
            node['jsonify'] = walk(o.value, in_set)
        else:
            kt = classify(o)
            if kt is None:
                node['class'] = type(o).__name__
                kt = ('dict' if isinstance(o, Mapping) else 'set' if isinstance(o, Set) else 'list', -1)
            kind, tag = kt
            node['kind'], node['tag'] = kind, tag
            if kind == 'dict':
                node['items'] = [[walk(k, in_set), walk(v, in_set)] for k, v in o.items()]
            elif kind == 'set':
                ms = [walk(x, True) for x in o]
                ms.sort(key=canon)
                node['items'] = ms
            else:
                node['items'] = [walk(x, in_set) for x in o]
        return node

    return walk(result, False)


def model_graph(cells, root, n0):
    """The same canonical graph, read from the model's heap after formatting."""
    seen, fresh = {}, [0]

    def label(r):
        if r < n0:
            return f'old{r}'
        fresh[0] += 1
        return f'new{fresh[0] - 1}'

    def walk(r, in_set):
        c = cells[r]
        if 'str' in c:
            s = c['str']
            if len(s) < 2 or in_set:
                return {'str': s}
            if r in seen:
                return {'ref': seen[r]}
            seen[r] = lb = label(r)
            return {'id': lb, 'str': s}
        if 'leaf' in c or 'mbytes' in c:
            node = dict(c)
            w = c.get('leaf')
            binary = 'mbytes' in c or (isinstance(w, dict) and 'b' in w and len(w['b']) >= 4)
            if binary and not in_set:
                if r in seen:
                    return {'ref': seen[r]}
                seen[r] = node['id'] = label(r)
            return node
        ident = not in_set and not (('tuple' in c and c['tuple'] == [0, []]) or ('set' in c and c['set'] == [1, []]))
        if ident and r in seen:
            return {'ref': seen[r]}
        node = {}
        if ident:
            seen[r] = node['id'] = label(r)
        if 'sic' in c:
            node['sic'] = walk(c['sic'], in_set)
        elif 'py' in c:
            node['py'] = c['py']
        elif 'jsonify' in c:
            node['jsonify'] = walk(c['jsonify'], in_set)
        elif 'dict' in c:
            tag, kvs = c['dict']
            node['kind'], node['tag'] = 'dict', tag
            node['items'] = [[walk(k, in_set), walk(v, in_set)] for k, v in kvs]
        else:
            kind = 'list' if 'list' in c else 'tuple' if 'tuple' in c else 'set'
            tag, rs = c[kind]
            node['kind'], node['tag'] = kind, tag
            if kind == 'set':
                ms = [walk(x, True) for x in rs]
                ms.sort(key=canon)
                node['items'] = ms
            else:
                node['items'] = [walk(x, in_set) for x in rs]
        return node

    return walk(root, False)


def erase_member_classes(g, in_set=False):
    """the canonical graph with the class tag of tuples that are set members erased: of two ==-equal members
    (`()` and `MyTuple()`) the one that survives depends on CPython's per-process set iteration order"""
    if isinstance(g, list):
        return [erase_member_classes(x, in_set) for x in g]
    if isinstance(g, dict):
        inner = in_set or g.get('kind') == 'set'
        out = {k: erase_member_classes(v, inner) for k, v in g.items()}
        if in_set and g.get('kind') == 'tuple':
            out['tag'] = None
        return out
    return g


def cells_to_wire(cells, r):
    """Tree reading of the heap at `r` as a wire value (what FmtHeap.readVal computes)."""
    c = cells[r]
    if 'leaf' in c:
        return c['leaf']
    if 'mbytes' in c:
        return {'b': c['mbytes']}          # the tree reading has one kind of binary leaf
    if 'str' in c:
        return c['str']
    if 'list' in c:
        return [cells_to_wire(cells, x) for x in c['list'][1]]
    if 'tuple' in c:
        return {'t': [cells_to_wire(cells, x) for x in c['tuple'][1]]}
    if 'set' in c:
        return {'set': [cells_to_wire(cells, x) for x in c['set'][1]]}
    if 'dict' in c:
        return {'d': [[cells_to_wire(cells, k), cells_to_wire(cells, v)] for k, v in c['dict'][1]]}
    if 'sic' in c:
        return {'sic': cells[c['sic']]['str']}
    if 'py' in c:
        return {'py': {'n': c['py']}}
    if 'jsonify' in c:
        return {'jsonify': cells_to_wire(cells, c['jsonify'])}
    raise ValueError(c)


def enc9(o):
    """Python value -> wire, like common.enc, plus PyString(bare name) and container subclasses."""
    from pypyr.dsl import Jsonify, PyString, SicString
    if isinstance(o, PyString):
        e = getattr(o, '_vexpr', None) or common.PY_REGISTRY.get(o.value)
        return {'py': e if e is not None else {'n': o.value}}
    if isinstance(o, SicString):
        return {'sic': o.value}
    if isinstance(o, Jsonify):
        return {'jsonify': enc9(o.value)}
    if isinstance(o, (str, bytes, bytearray)) or is_leaf(o):
        return enc(o)
    if isinstance(o, tuple):
        return {'t': [enc9(x) for x in o]}
    if isinstance(o, Mapping):
        return {'d': [[enc9(k), enc9(v)] for k, v in o.items()]}
    if isinstance(o, Set):
        return {'set': [enc9(x) for x in o]}
    return [enc9(x) for x in o]


def py_equal_wire(a, b):
    """the two wire values are equal as Python values (True == 1 == 1.0; sets as sets)"""
    try:
        return common.dec(a) == common.dec(b)
    except TypeError:
        return False


def canon_wire(w):
    """Wire value with every set sorted canonically (the model's set order is arbitrary)."""
    if isinstance(w, list):
        return [canon_wire(x) for x in w]
    if isinstance(w, dict):
        if 'set' in w:
            xs = [canon_wire(x) for x in w['set']]
            xs.sort(key=canon)
            return {'set': xs}
        if 't' in w:
            return {'t': [canon_wire(x) for x in w['t']]}
        if 'd' in w:
            return {'d': [[canon_wire(k), canon_wire(v)] for k, v in w['d']]}
        if 'jsonify' in w:
            return {'jsonify': canon_wire(w['jsonify'])}
    return w


# ---------------------------------------------------------------------------------------------
# snapshots and monitors (judged on the implementation alone)
# ---------------------------------------------------------------------------------------------

def opaques_in(o, acc=None, seen=None):
    acc = {} if acc is None else acc
    seen = set() if seen is None else seen
    if id(o) in seen:
        return acc
    seen.add(id(o))
    if isinstance(o, (str, bytes, bytearray)):
        return acc
    if is_special(o):
        opaques_in(o.value, acc, seen)
    elif isinstance(o, Mapping):
        for k, v in o.items():
            opaques_in(k, acc, seen)
            opaques_in(v, acc, seen)
    elif isinstance(o, (Sequence, Set)):
        for x in o:
            opaques_in(x, acc, seen)
    elif not isinstance(o, (int, float, type(None))):
        acc[id(o)] = o
    return acc


def skel(o, depth=0):
    """Type skeleton: class names of every node (sets sorted), for exact type comparison."""
    if depth > 60:
        return '...'
    if isinstance(o, (str, bytes, bytearray)):
        return type(o).__name__
    if is_special(o):
        return [type(o).__name__, skel(o.value, depth + 1)]
    if isinstance(o, Mapping):
        return [type(o).__name__, [[skel(k, depth + 1), skel(v, depth + 1)] for k, v in o.items()]]
    if isinstance(o, Set):
        return [type(o).__name__, sorted(canon(skel(x, depth + 1)) for x in o)]
    if isinstance(o, Sequence):
        return [type(o).__name__, [skel(x, depth + 1) for x in o]]
    return type(o).__name__


def stable_repr(o, depth=0):
    """repr with class names and with set members sorted (set order is not an observable)."""
    if depth > 60:
        return '...'
    if isinstance(o, (str, bytes, bytearray)):
        return repr(o)
    if is_special(o):
        return f'{type(o).__name__}({stable_repr(o.value, depth + 1)})'
    if isinstance(o, Mapping):
        return type(o).__name__ + '{' + ', '.join(
            stable_repr(k, depth + 1) + ': ' + stable_repr(v, depth + 1) for k, v in o.items()) + '}'
    if isinstance(o, Set):
        return type(o).__name__ + '{' + ', '.join(sorted(stable_repr(x, depth + 1) for x in o)) + '}'
    if isinstance(o, Sequence):
        return type(o).__name__ + '[' + ', '.join(stable_repr(x, depth + 1) for x in o) + ']'
    return repr(o)


def deep_equal(a, b, depth=0):
    """Structural equality: same classes, same shape, leaves equal with equal type
    (1 is not True is not 1.0), opaque objects by identity, sets as sets."""
    if depth > 60:
        return True
    if type(a) is not type(b):
        return False
    if isinstance(a, (str, bytes, bytearray)):
        return a == b
    if is_special(a):
        return deep_equal(a.value, b.value, depth + 1)
    if isinstance(a, Mapping):
        return len(a) == len(b) and all(
            deep_equal(k1, k2, depth + 1) and deep_equal(v1, v2, depth + 1)
            for (k1, v1), (k2, v2) in zip(a.items(), b.items()))
    if isinstance(a, Set):
        if len(a) != len(b):
            return False
        return sorted(stable_repr(x) for x in a) == sorted(stable_repr(x) for x in b)
    if isinstance(a, Sequence):
        return len(a) == len(b) and all(deep_equal(x, y, depth + 1) for x, y in zip(a, b))
    if isinstance(a, (int, float, type(None))):
        return a == b
    return a is b


def has_cycle(o, stack=None, done=None):
    """The object graph below `o` contains itself (followed through mappings, sequences, sets, special tags)."""
    stack = set() if stack is None else stack
    done = set() if done is None else done
    if isinstance(o, (str, bytes, bytearray)) or id(o) in done:
        return False
    if id(o) in stack:
        return True
    if is_special(o):
        kids = [o.value]
    elif isinstance(o, Mapping):
        kids = [x for kv in o.items() for x in kv]
    elif isinstance(o, (Sequence, Set)):
        kids = list(o)
    else:
        return False
    stack.add(id(o))
    try:
        if len(stack) > 900:
            return True
        return any(has_cycle(x, stack, done) for x in kids)
    finally:
        stack.discard(id(o))
        done.add(id(o))


class Snapshot:
    """Deep snapshot of an object graph: deepcopy (opaque objects kept by reference so `==` is
    meaningful), repr text, type skeleton. A self-referential graph is only recorded as such."""

    def __init__(self, o):
        self.cyclic = has_cycle(o)
        if self.cyclic:
            self.copy, self.repr, self.skel, self.ids = None, '<self-referential>', None, None
            return
        memo = dict(opaques_in(o))
        try:
            self.copy = copy.deepcopy(o, memo)
        except Exception:            # not copyable (mappingproxy, dict views): repr + skeleton only
            self.copy = None
        self.repr = stable_repr(o)
        self.skel = skel(o)
        self.ids = node_ids(o)

    def same(self, o, ids=False):
        """`ids=True`: `o` is the snapshotted object itself, later — also its parts must be the same objects"""
        if has_cycle(o):
            return None if self.cyclic else 'it has become self-referential (it contains itself)'
        if self.cyclic:
            return 'it was self-referential and is not any more'
        if self.copy is not None:
            if not deep_equal(o, self.copy):
                return 'value differs from its deep copy'
            plain = not any(isinstance(x, Set) or is_special(x) for x in iter_nodes(o))
            if plain and type(o) in STD_EQ and not (o == self.copy):
                return 'value differs (==)'
        if stable_repr(o) != self.repr:
            return 'repr differs'
        if skel(o) != self.skel:
            return 'container types differ'
        if ids and node_ids(o) != self.ids:
            return 'object identities differ (an object in it was replaced by another one)'
        return None


STD_EQ = (dict, list, tuple)


def node_ids(o):
    """id() of every identity-bearing object below the root, in traversal order (the root itself is excluded:
    callers may hand in a fresh `dict(context)` each time)."""
    it = iter_nodes(o)
    next(it)
    return [id(x) for x in it if identity_bearing(x)]


def iter_nodes(o, depth=0):
    yield o
    if depth > 60 or isinstance(o, (str, bytes, bytearray)):
        return
    if is_special(o):
        yield from iter_nodes(o.value, depth + 1)
    elif isinstance(o, Mapping):
        for k, v in o.items():
            yield from iter_nodes(k, depth + 1)
            yield from iter_nodes(v, depth + 1)
    elif isinstance(o, (Sequence, Set)):
        for x in o:
            yield from iter_nodes(x, depth + 1)


def py_brace_free(o, seen=None):
    """No '{' / '}' in any string of `o` and no special tag in `o` (the property's "no braces")."""
    seen = set() if seen is None else seen
    if isinstance(o, str):
        return '{' not in o and '}' not in o
    if isinstance(o, (bytes, bytearray)):
        return True
    if is_special(o):
        return False
    if isinstance(o, Mapping):
        return all(py_brace_free(k) and py_brace_free(v) for k, v in o.items())
    if isinstance(o, (Sequence, Set)):
        return all(py_brace_free(x) for x in o)
    return True


import re as _re

_SINGLE = _re.compile(r'^\{([A-Za-z_][A-Za-z0-9_]*)(:ff|:rf)?\}$')


def leaf_reference(inp, ctx):
    """(True, obj) when `inp` is a string that is exactly one expression '{key}' / '{key:ff}' / '{key:rf}' whose key
    holds a non-string leaf `obj` in the context: formatting it hands back that very object."""
    if type(inp) is str and ctx is not None:
        m = _SINGLE.match(inp)
        if m and m.group(1) in ctx and is_leaf(ctx[m.group(1)]):
            return True, ctx[m.group(1)]
    return False, None


def shape_monitor(inp, res, path='$', fmt=None, ctx=None):
    """The property's second sentence, judged position by position on the implementation's result alone:
      * a non-string leaf of the input IS (`is`) the object at the same position of the result, same type;
      * a container comes back as the same class with the same shape, its members formatted element-wise: the
        string / special tag at a position of the input became what formatting THAT element on its own gives
        (`fmt`, the same context), sub-containers are judged recursively at their own position — so two
        equal-but-distinct hashable siblings are each held to their own members;
      * set members have no position: every non-string leaf member must be in the result as the identical
        object, every container member must have a counterpart that passes this monitor, every string member's
        own formatting must be in the result.
    Returns a failure text or None."""
    if isinstance(inp, str) or is_special(inp):
        isref, obj = leaf_reference(inp, ctx)
        if isref and res is not obj:
            return (f'{path}: {inp!r} refers to the non-string leaf {obj!r} ({type(obj).__name__}) of the context, '
                    f'which came back as a different object {res!r} ({type(res).__name__})')
        if is_special(inp) and ctx is not None:
            # a special tag is a formattable like any other, WHATEVER its payload (empty / zero / false / null:
            # SpecialTagDirective.__bool__ is falsy then): at its position the result holds what the tag itself
            # evaluates to - asked of the tag directly, not of the formatter
            try:
                own = ('ok', inp.get_value(ctx))
            except RecursionError:
                own = None
            except Exception as e:
                own = ('err', e)
            if own is not None and own[0] == 'err':
                return (f'{path}: the special tag {inp!r} itself raises {type(own[1]).__name__} when evaluated, but '
                        f'formatting gave {res!r} ({type(res).__name__}) at its position')
            if own is not None and not deep_equal(own[1], res):
                return (f'{path}: the special tag {inp!r} evaluates to {own[1]!r} ({type(own[1]).__name__}) but the '
                        f'formatted result holds {res!r} ({type(res).__name__}) at its position (special tag not formatted)')
        if fmt is None or path == '$':
            return None                               # the top-level formattable: any result
        try:
            alone = fmt(inp)
        except RecursionError:
            return None                               # unbounded recursion on its own: no element-wise claim
        except Exception as e:
            return (f'{path}: formatting the element {inp!r} on its own raises {type(e).__name__} although formatting '
                    f'the container gave {res!r} at its position')
        if not deep_equal(alone, res):
            return (f'{path}: element {inp!r} formats to {alone!r} on its own but the container\'s result holds '
                    f'{res!r} at its position (not formatted element-wise)')
        return None
    if isinstance(inp, (bytes, bytearray)) or is_leaf(inp):
        if res is inp:
            return None
        return (f'{path}: non-string leaf {inp!r} ({type(inp).__name__}) came back as a different object '
                f'{res!r} ({type(res).__name__})')
    if type(res) is not type(inp):
        return f'{path}: container type {type(inp).__name__} became {type(res).__name__}'
    if isinstance(inp, Mapping):
        if len(res) > len(inp):
            return f'{path}: mapping grew'
        if len(res) == len(inp):
            for i, ((k, v), (k2, v2)) in enumerate(zip(inp.items(), res.items())):
                f = (shape_monitor(k, k2, f'{path}.key{i}', fmt, ctx)
                     or shape_monitor(v, v2, f'{path}[{k!r}]', fmt, ctx))
                if f:
                    return f
        return None
    if isinstance(inp, Set):
        if len(res) > len(inp):
            return f'{path}: set grew'
        if len(res) != len(inp):
            return None                               # members collided after formatting: no counterpart claim
        for x in inp:
            if isinstance(x, str) or is_special(x):
                if fmt is None:
                    continue
                try:
                    alone = fmt(x)
                except Exception:
                    continue
                if not any(deep_equal(alone, y) for y in res):
                    return f'{path}: set member {x!r} formats to {alone!r} on its own, which is not in the result {res!r}'
            elif is_leaf(x):
                if not any(x is y for y in res):
                    return f'{path}: set member {x!r} is not in the result as the identical object'
            elif not any(type(y) is type(x) and shape_monitor(x, y, f'{path}{{}}', fmt, ctx) is None for y in res):
                return f'{path}: set member {x!r} has no element-wise formatted counterpart in the result {res!r}'
        return None
    if len(res) != len(inp):
        return f'{path}: sequence length {len(inp)} became {len(res)}'
    for i, (x, y) in enumerate(zip(inp, res)):
        f = shape_monitor(x, y, f'{path}[{i}]', fmt, ctx)
        if f:
            return f
    return None


STANDARD = None


def incompatible_classes(o, acc=None, seen=None):
    """Names of container classes in `o` whose constructor does not rebuild them from one iterable
    (the known open finding F9)."""
    global STANDARD
    classes()
    if STANDARD is None:
        STANDARD = set(_TAG)
    acc = [] if acc is None else acc
    seen = set() if seen is None else seen
    if id(o) in seen or isinstance(o, (str, bytes, bytearray)):
        return acc
    seen.add(id(o))
    if is_special(o):
        return incompatible_classes(o.value, acc, seen)
    if isinstance(o, Mapping):
        kids = [x for kv in o.items() for x in kv]
        src = lambda: iter(list(o.items()))
    elif isinstance(o, (Sequence, Set)):
        kids = list(o)
        src = lambda: iter(list(o))
    else:
        return acc
    if type(o) not in STANDARD:
        try:
            again = type(o)(src())
            ok = type(again) is type(o) and again == o
        except Exception:
            ok = False
        if not ok and type(o).__name__ not in acc:
            acc.append(type(o).__name__)
    for x in kids:
        incompatible_classes(x, acc, seen)
    return acc


# ---------------------------------------------------------------------------------------------
# running one case on the implementation
# ---------------------------------------------------------------------------------------------

def exc_name(e):
    return common.exc_name(e)


ENTRIES = ('context', 'formatter', 'plain')


def formatter_of(ctx, entry):
    """The formatting entry point under test, as a function of the value:
      context   - Context.get_formatted_value (what every step uses);
      formatter - a RecursiveFormatter configured like Context's, called directly (vformat with the context as
                  kwargs): the generic formatter owns the property, not the way Context happens to configure it;
      plain     - RecursiveFormatter() with no special / passthrough types at all (for values and contexts
                  without special tags)."""
    if entry == 'context':
        return ctx.get_formatted_value
    from pypyr.dsl import SpecialTagDirective
    from pypyr.formatting import RecursiveFormatter
    f = RecursiveFormatter(special_types=SpecialTagDirective) if entry == 'formatter' else RecursiveFormatter()
    return lambda v: f.vformat(v, None, ctx)


def has_special(o):
    return any(is_special(x) for x in iter_nodes(o))


def run_impl(value, ctxdict, id2old, entry='context'):
    """Format `value` against Context(ctxdict) through `entry`. Returns (obs, monitor_failures).
    obs: {"ok": {"graph": …, "val": wire}} or {"err": name}. Never raises for what the implementation does:
    an unexpected exception, unbounded recursion or a call that does not return within CASE_SECONDS is an
    observation (and, where the property says something about it, a monitor failure)."""
    try:
        with time_limit(CASE_SECONDS):
            return _run_impl(value, ctxdict, id2old, entry)
    except CaseTimeout:
        return ({'err': 'Timeout', 'msg': f'no result within {CASE_SECONDS}s'},
                [('hang', f'formatting did not return within {CASE_SECONDS}s')])


def _run_impl(value, ctxdict, id2old, entry):
    from pypyr.context import Context
    ctx = Context(ctxdict)
    fmtcall = formatter_of(ctx, entry)
    snap_v, snap_c = Snapshot(value), Snapshot(dict(ctx))
    fails = []
    bf = py_brace_free(value)
    truthy = truth_opaques(value, dict(ctx))
    try:
        res = fmtcall(value)
        err = None
    except Exception as e:  # the formatter's own error, RecursionError included
        res, err = None, e
    for o in truthy:
        if o.touched:
            # "non-string leaves (arbitrary objects) come through as the identical objects" / "never mutates the
            # value being formatted": a leaf is handed on, not truth-tested or measured
            fails.append(('leaf-evaluated',
                          f'formatting evaluated the truth value / length of the leaf object {o!r} ({o.kind}) '
                          f'{o.touched} time(s): '
                          + (f'its state changed (fetched={o.fetched!r}) - the value being formatted was mutated'
                             if o.kind in ('len-effect', 'bool-effect') else
                             f'formatting raised {type(err).__name__}: {err}' if err is not None and o.kind.endswith('raises')
                             else 'a leaf is passed through as the identical object, whatever it is')))
            o.touched, o.fetched = 0, None
    f = snap_v.same(value, ids=True)
    if f:
        fails.append(('input-mutated', f'the formatted value changed: {f}'))
    f = snap_c.same(dict(ctx), ids=True)
    if f:
        fails.append(('context-mutated', f'the context changed: {f}; keys {list(snap_c.copy) if snap_c.copy is not None else "?"} '
                      f'-> {list(ctx)}'))
    if err is not None:
        if bf:
            fails.append(('bracefree-raises', f'formatting a brace-free value raised {type(err).__name__}: {err}'))
        return {'err': exc_name(err), 'msg': str(err)[:200]}, fails
    try:
        f = shape_monitor(value, res, fmt=fmtcall, ctx=ctx)
    except RecursionError:
        f = None            # formatting an element on its own recursed without bound: no element-wise claim
    if f:
        fails.append(('shape', f))
    f = snap_v.same(value, ids=True) or snap_c.same(dict(ctx), ids=True)
    if f and not any(m in ('input-mutated', 'context-mutated') for m, _ in fails):
        fails.append(('element-formatting-mutates', f'formatting single elements of the value changed input or context: {f}'))
    if bf:
        f = snap_v.same(res)
        if f:
            fails.append(('bracefree-not-equal', f'brace-free value came back different: {f}'))
    if py_brace_free(res):
        try:
            again = fmtcall(res)
            f = Snapshot(res).same(again)
            if f:
                fails.append(('idempotence', f'formatting the brace-free result again changed it: {f}'))
        except Exception as e:
            fails.append(('idempotence', f'formatting the brace-free result again raised {type(e).__name__}: {e}'))
    fails += history_monitor(value, ctx, res, snap_v, snap_c, entry)
    try:
        val = canon_wire(enc9(res))
    except Exception:
        val = {'unencodable': repr(res)[:200]}
    obs = {'ok': {'graph': impl_graph(res, id2old), 'val': val}}
    return obs, fails


def fresh_result(value_copy, ctx_copy, entry):
    """Format a copy of the value against a copy of the context through a fresh Context (and, for the direct
    entries, a fresh RecursiveFormatter): nothing any earlier call may have left anywhere applies to these."""
    from pypyr.context import Context
    c = Context(ctx_copy)
    try:
        return None, formatter_of(c, entry)(value_copy)
    except Exception as e:
        return e, None


def history_monitor(value, ctx, res, snap_v, snap_c, entry):
    """"Pure": the result is a function of the value and the context as they are NOW - not of what was formatted
    before. (1) the result on the live objects equals the result on deep copies of them; (2) the very same value
    object formatted again through the very same entry point after the context changed (every brace-free string
    value of the context gets a suffix) equals what a fresh formatting of copies gives for the changed context."""
    if snap_v.copy is None or snap_c.copy is None:
        return []
    e, expected = fresh_result(Snapshot(value).copy, Snapshot(dict(ctx)).copy, entry)
    if e is not None or not deep_equal(res, expected):
        return [('history', 'the result depends on more than value and context: on the live objects '
                            f'{stable_repr(res)[:120]}, on deep copies of the same value and context '
                            f'{"raised " + type(e).__name__ if e else stable_repr(expected)[:120]}')]
    changed = {k: v for k, v in ctx.items() if type(v) is str and len(v) >= 1 and py_brace_free(v)}
    if not changed:
        return []
    fmtcall = formatter_of(ctx, entry)
    try:
        for k, v in changed.items():
            ctx[k] = v + '#2'
        e2, exp2 = fresh_result(Snapshot(value).copy, Snapshot(dict(ctx)).copy, entry)
        try:
            res2, err2 = fmtcall(value), None
        except Exception as ex:
            res2, err2 = None, ex
        if (err2 is None) != (e2 is None) or (err2 is None and not deep_equal(res2, exp2)):
            return [('history', 'formatting the same value object again after the context changed gave '
                                f'{"raised " + type(err2).__name__ if err2 else stable_repr(res2)[:120]}; a fresh '
                                f'formatting of copies against the changed context gives '
                                f'{"raised " + type(e2).__name__ if e2 else stable_repr(exp2)[:120]}')]
    finally:
        for k, v in changed.items():
            ctx[k] = v
    return []


def materialise(case):
    """case -> (cells, ctx pairs [[key, ref]], root ref, objs). Raises NotModelled."""
    if case.get('stream') == 'yaml':
        import pypyr.yaml
        doc = pypyr.yaml.get_pipeline_yaml(io.StringIO(case['yaml']))
        ctxmap, value = doc['ctx'], doc['value']
        for o in iter_nodes(doc):
            # a scalar `!jsonify 0` keeps the loader's TaggedScalar for to_yaml; it shows in repr() only
            # (Jsonify(0, TaggedScalar(...)) when a container holding the tag is stringified): not modelled, dropped
            if is_special(o) and getattr(o, 'scalar', None) is not None:
                o.scalar = None
        keys = list(ctxmap.keys())
        cells, refs, objs = graph_to_cells([ctxmap[k] for k in keys] + [value])
        return cells, [[str(k), r] for k, r in zip(keys, refs[:-1])], refs[-1], objs
    cells = case['cells']
    objs = build_objects(cells)
    return cells, case['ctx'], case['root'], objs


def id_map(objs):
    return {id(o): i for i, o in enumerate(objs) if identity_bearing(o)}


# ---------------------------------------------------------------------------------------------
# generators
# ---------------------------------------------------------------------------------------------

class HeapBuilder:
    """Builds a cell list bottom-up; keeps the tree value of every cell so that dict keys and
    set members can be kept value-distinct and hashable."""

    def __init__(self):
        self.cells = []
        self.vals = []        # canonical text of the tree value of each cell
        self.hashable = []
        self.strable = []     # str() of the (formatted) value is inside the compared domain:
                              # no bytes (repr not modelled), no set (iteration order not an observable)

    def add(self, cell, val, hashable, strable=True):
        self.cells.append(cell)
        self.vals.append(val)
        self.hashable.append(hashable)
        self.strable.append(strable)
        return len(self.cells) - 1

    def all_strable(self, rs):
        return all(self.strable[r] for r in rs)

    def leaf(self, v):
        if isinstance(v, bytearray):       # mutable, unhashable: never a dict key / set member
            return self.add({'mbytes': bytes(v).hex()}, 'MB' + bytes(v).hex(), False, False)
        w = enc(v)
        return self.add({'leaf': w}, canon(w), True, not isinstance(v, (bytes, bytearray)))

    def str(self, s, strable=True):
        return self.add({'str': s}, canon(s), True, strable)

    def list(self, rs, tag=0):
        return self.add({'list': [tag, list(rs)]}, 'L[' + ','.join(self.vals[r] for r in rs) + ']', False,
                        self.all_strable(rs))

    def tuple(self, rs, tag=0):
        return self.add({'tuple': [tag, list(rs)]}, 'T[' + ','.join(self.vals[r] for r in rs) + ']',
                        all(self.hashable[r] for r in rs), self.all_strable(rs))

    def set(self, rs, tag=0):
        rs = self._distinct([r for r in rs if self.hashable[r]])
        rs.sort(key=lambda r: self.vals[r])
        return self.add({'set': [tag, rs]}, 'S[' + ','.join(self.vals[r] for r in rs) + ']', tag == 1, False)

    def dict(self, kvs, tag=0):
        ks = self._distinct([k for k, _ in kvs if self.hashable[k]])
        first = {}
        for k, v in kvs:
            if k in ks and k not in first:
                first[k] = v
        kvs = [[k, first[k]] for k in ks]
        return self.add({'dict': [tag, kvs]},
                        'D[' + ','.join(self.vals[k] + ':' + self.vals[v] for k, v in kvs) + ']', False,
                        tag != 3 and self.all_strable([x for kv in kvs for x in kv]))   # OrderedDict repr

    def sic(self, s):
        p = self.str(s)
        return self.add({'sic': p}, 'sic' + self.vals[p], False)

    def py(self, name, strable=True):
        return self.add({'py': name}, 'py:' + name, False, strable)

    def jsonify(self, r):
        return self.add({'jsonify': r}, 'J' + self.vals[r], False, self.strable[r])

    def _distinct(self, rs):
        seen, out = set(), []
        for r in rs:
            if self.vals[r] not in seen:
                seen.add(self.vals[r])
                out.append(r)
        return out


LEAVES = [None, True, False, 0, 1, -7, 2 ** 70, 0.5, -2.25, b'', b'\x00{x}', 12345678901234567890,
          bytearray(), bytearray(b'{a}'), bytearray(b'buf {x} \x00\x01'), b'raw {a} bytes']


def directed_cases():
    """Hand-written cases: every container kind x leaf kind x expression kind, sharing, memo."""
    out = []

    def case(name, build):
        b = HeapBuilder()
        ctx, root = build(b)
        out.append({'stream': 'directed:' + name, 'cells': b.cells, 'ctx': ctx, 'root': root})

    def std_ctx(b):
        a = b.str('hello')
        n = b.leaf(None)
        i = b.leaf(42)
        o = b.leaf(Opaque(1))
        inner = b.list([b.leaf(1), b.str('{a}'), o])
        d = b.dict([[b.str('x'), b.str('{a} there')], [b.str('{a}'), inner]])
        ref = b.str('{a}')
        s = b.sic('sic {a}')
        return [['a', a], ['n', n], ['i', i], ['o', o], ['inner', inner], ['d', d], ['ref', ref], ['s', s],
                ['k', b.str('x')]]

    # leaves on their own and inside each container kind
    for li, lv in enumerate(LEAVES + [Opaque(7)]):
        case(f'leaf{li}', lambda b, lv=lv: (std_ctx(b), b.leaf(lv)))
        for kind in ('list', 'tuple', 'set', 'fset', 'dictval', 'dictkey'):
            def build(b, lv=lv, kind=kind):
                ctx = std_ctx(b)
                x = b.leaf(lv)
                s = b.str('{a}')
                if kind == 'list':
                    r = b.list([x, s, x])
                elif kind == 'tuple':
                    r = b.tuple([x, s])
                elif kind == 'set':
                    r = b.set([x, s])
                elif kind == 'fset':
                    r = b.set([x, s], 1)
                elif kind == 'dictval':
                    r = b.dict([[b.str('p'), x], [s, x]])
                else:
                    r = b.dict([[x, s]])
                return ctx, r
            case(f'leaf{li}-{kind}', build)
    # strings
    for si, s in enumerate(['', 'x', 'plain text', '{a}', 'pre {a} post', '{a}{i}', '{{', '}}', 'a{{b}}c', '{{{a}}}',
                            '{n}', '{i}', '{o}', '{inner}', '{d}', '{ref}', '{ref:ff}', '{ref:rf}', '{inner:ff}',
                            '{inner:rf}', '{d:ff}', '{s}', '{s:ff}', 'x{s}y', 'x{inner}y', 'x{d}', '{missing}',
                            'a {missing} b', '{', '}', 'a}b', '{a', '{a.b}', '{0}', '{}', '{a!r}', '{a:>10}',
                            'x{o}', 'x{n}{i}', '{k}']):
        case(f'str{si}', lambda b, s=s: (std_ctx(b), b.str(s)))
        case(f'str{si}-inlist', lambda b, s=s: (std_ctx(b), b.list([b.str(s), b.leaf(1)])))
    # container classes
    for kind, tags in (('list', (0, 2, 3)), ('tuple', (0, 3)), ('dict', (0, 2, 3, 4)), ('set', (0, 1, 3))):
        for tag in tags:
            def build(b, kind=kind, tag=tag):
                ctx = std_ctx(b)
                kids = [b.str('{a}'), b.leaf(3), b.str('lit'), b.leaf(Opaque(9))]
                if kind == 'dict':
                    r = b.dict([[b.str('k1'), kids[0]], [b.str('{k}'), kids[1]], [b.leaf(5), kids[2]],
                                [b.tuple([b.leaf(1), b.str('{a}')]), kids[3]]], tag)
                else:
                    r = getattr(b, kind)(kids, tag)
                outer = b.list([r, b.tuple([r]), b.dict([[b.str('same'), r]])])
                return ctx, outer
            case(f'class-{kind}{tag}', build)
    # sharing and the memo
    def shared_container(b):
        ctx = std_ctx(b)
        x = b.list([b.str('{a}'), b.leaf(1)])
        return ctx, b.list([x, x, b.dict([[b.str('p'), x], [b.str('q'), b.tuple([x, x])]])])
    case('shared-list', shared_container)

    def shared_str(b):
        ctx = std_ctx(b)
        s = b.str('{inner}')
        t = b.str('{inner}')
        return ctx, b.list([s, s, t, b.tuple([s, t])])
    case('shared-str-object', shared_str)

    def shared_none(b):
        ctx = std_ctx(b)
        s = b.str('{n}')
        return ctx, b.list([s, s])
    case('memo-none-result', shared_none)

    # binary leaves: bytes and the MUTABLE bytearray come through as the identical objects, wherever they sit
    # (container member, mapping value under a formatted key, the same object at several positions, the
    # target of a single expression '{buf}' / '{buf:ff}' / '{buf:rf}', inside a context list reached by '{bl}')
    def bin_ctx(b):
        ctx = std_ctx(b)
        buf, raw, ebuf = b.leaf(bytearray(b'buffer {a} \x00\x01')), b.leaf(b'raw {a} bytes'), b.leaf(bytearray())
        bl = b.list([buf, raw, b.str('{a}'), b.tuple([buf, ebuf])])
        return ctx + [['buf', buf], ['raw', raw], ['ebuf', ebuf], ['bl', bl]], buf, raw, ebuf

    def binary_nested(b):
        ctx, buf, raw, ebuf = bin_ctx(b)
        own = b.leaf(bytearray(b'own {a}'))
        return ctx, b.dict([[b.str('raw'), raw], [b.str('buf'), buf],
                            [b.str('nested'), b.list([b.leaf(1), b.str('text {a}'), b.tuple([buf, raw, own]),
                                                      b.dict([[b.str('k{a}'), ebuf]]), own])]])
    case('binary-nested', binary_nested)
    for si, s in enumerate(['{buf}', '{raw}', '{ebuf}', '{buf:ff}', '{buf:rf}', '{raw:ff}', '{bl}', '{bl:ff}',
                            '{bl:rf}']):
        case(f'binary-expr{si}', lambda b, s=s: (bin_ctx(b)[0], b.str(s)))
        case(f'binary-expr{si}-inlist',
             lambda b, s=s: (bin_ctx(b)[0], b.list([b.str(s), b.tuple([b.str(s)]), b.dict([[b.str('v'), b.str(s)]])])))
    for kind in ('list', 'list2', 'list3', 'tuple', 'tuple3', 'dict', 'dict2', 'dict3', 'dict4'):
        def build(b, kind=kind):
            ctx, buf, raw, ebuf = bin_ctx(b)
            own, own2 = b.leaf(bytearray(b'\x00')), b.leaf(bytearray(b'ab'))
            kids = [own, buf, own, raw, b.str('{a}'), own2, ebuf]
            if kind.startswith('dict'):
                r = b.dict([[b.str(f'k{i}' + ('{a}' if i % 2 else '')), x] for i, x in enumerate(kids)],
                           int(kind[4:] or 0))
            elif kind.startswith('tuple'):
                r = b.tuple(kids, int(kind[5:] or 0))
            else:
                r = b.list(kids, int(kind[4:] or 0))
            return ctx, b.list([r, r, b.tuple([own])])
        case(f'binary-in-{kind}', build)
    case('binary-unhashable-key', lambda b: (bin_ctx(b)[0], b.dict([[b.str('{buf}'), b.leaf(1)]])))
    case('binary-unhashable-member', lambda b: (bin_ctx(b)[0], b.set([b.str('{buf}'), b.str('x')])))
    case('binary-jsonify', lambda b: (bin_ctx(b)[0], b.jsonify(b.list([b.leaf(bytearray(b'ab'))]))))

    def shared_sic(b):
        ctx = std_ctx(b)
        s = b.sic('raw {a}')
        p = b.py('inner')
        j = b.jsonify(b.dict([[b.str('z'), b.str('{a}')], [b.str('w'), b.list([b.leaf(1), b.leaf(None)])]]))
        return ctx, b.list([s, s, p, p, j, j, b.str('{s}'), b.str('{s}')])
    case('shared-special', shared_sic)

    def ctx_object_in_value(b):
        ctx = std_ctx(b)
        inner = dict((k, r) for k, r in ctx)['inner']
        return ctx, b.list([inner, b.str('{inner}'), b.str('{inner:ff}'), inner])
    case('ctx-object-in-value', ctx_object_in_value)

    def key_collision(b):
        ctx = std_ctx(b)
        return ctx, b.dict([[b.str('{k}'), b.leaf(1)], [b.str('x'), b.leaf(2)], [b.str('y'), b.leaf(3)],
                            [b.str('{k:ff}'), b.leaf(4)]])
    case('dict-key-collision', key_collision)

    def set_collision(b):
        ctx = std_ctx(b)
        return ctx, b.list([b.set([b.str('{k}'), b.str('x'), b.leaf(1)]), b.set([b.str('{k}'), b.str('x')], 1)])
    case('set-member-collision', set_collision)

    def unhashable_key(b):
        ctx = std_ctx(b)
        return ctx, b.dict([[b.str('{inner}'), b.leaf(1)]])
    case('unhashable-formatted-key', unhashable_key)

    def unhashable_member(b):
        ctx = std_ctx(b)
        return ctx, b.set([b.str('{inner}')])
    case('unhashable-formatted-member', unhashable_member)

    def jsonify_cases(b):
        ctx = std_ctx(b)
        return ctx, b.list([b.jsonify(b.leaf(1)), b.jsonify(b.str('{a}')), b.jsonify(b.leaf(None)),
                            b.jsonify(b.list([b.str('{inner}')])), b.jsonify(b.tuple([b.leaf(True)]))])
    case('jsonify', jsonify_cases)
    case('jsonify-unserialisable', lambda b: (std_ctx(b), b.jsonify(b.set([b.leaf(1)]))))
    case('py-missing', lambda b: (std_ctx(b), b.py('nosuch')))

    # equal-but-distinct hashable siblings (1 == 1.0 == True, EqOpaque objects): each is formatted on its own;
    # the SAME object twice: the id-keyed memo answers the second occurrence with the first result
    def twins_numbers(b):
        ctx = std_ctx(b)
        big, bigf = 2 ** 70, float(2 ** 70)
        return ctx, b.list([
            b.tuple([b.leaf(1), b.str('v{a}')]), b.tuple([b.leaf(1.0), b.str('v{a}')]),
            b.tuple([b.leaf(True), b.str('v{a}')]),
            b.dict([[b.str('k'), b.tuple([b.leaf(big), b.str('{a}')])], [b.str('j'), b.tuple([b.leaf(bigf), b.str('{a}')])]]),
            b.set([b.tuple([b.leaf(2), b.str('{a}')])], 1), b.set([b.tuple([b.leaf(2.0), b.str('{a}')])], 1)])
    case('twins-numbers', twins_numbers)

    def twins_order(b):
        ctx = std_ctx(b)
        return ctx, b.tuple([b.tuple([b.leaf(False), b.str('{i}')]), b.tuple([b.leaf(0.0), b.str('{i}')]),
                             b.tuple([b.leaf(0), b.str('{i}')]), b.tuple([b.leaf(0), b.str('{i}')])])
    case('twins-zero', twins_order)

    def twins_objects(b):
        ctx = std_ctx(b)
        e1, e2, e3 = b.leaf(EqOpaque(EQ_BASE)), b.leaf(EqOpaque(EQ_BASE + 1)), b.leaf(EqOpaque(EQ_BASE + 2))
        t1 = b.tuple([e1, b.str('{a}')])
        return ctx, b.list([t1, b.tuple([e2, b.str('{a}')]), t1, b.tuple([b.tuple([e3]), b.str('{a}')]),
                            b.tuple([b.tuple([e1]), b.str('{a}')]), b.set([b.tuple([e2, b.str('x{a}')])], 1),
                            b.set([b.tuple([e3, b.str('x{a}')])], 1)])
    case('twins-eq-objects', twins_objects)

    def twins_shared(b):
        ctx = std_ctx(b)
        x = b.tuple([b.leaf(1), b.str('{a}')])
        y = b.tuple([b.leaf(1.0), b.str('{a}')])
        return ctx, b.dict([[b.str('p'), x], [b.str('q'), y], [b.str('r'), x], [b.str('s'), b.list([y, x, y])]])
    case('twins-shared', twins_shared)

    def twins_bracefree(b):
        ctx = std_ctx(b)
        return ctx, b.list([b.tuple([b.leaf(1), b.str('lit')]), b.tuple([b.leaf(1.0), b.str('lit')]),
                            b.tuple([b.leaf(True), b.str('lit')]), b.tuple([b.leaf(1)]), b.tuple([b.leaf(True)]),
                            b.set([b.leaf(1.0)], 1), b.set([b.leaf(1)], 1)])
    case('twins-bracefree', twins_bracefree)

    def twins_strings(b):
        ctx = std_ctx(b)
        return ctx, b.list([b.tuple([b.str('{a}'), b.leaf(1)]), b.tuple([b.str('{a}'), b.leaf(True)]),
                            b.tuple([b.str('{i}'), b.str('{a}')]), b.tuple([b.str('{i}'), b.str('{a}')])])
    case('twins-strings', twins_strings)

    def deep(b):
        ctx = std_ctx(b)
        r = b.str('{a}')
        for i in range(12):
            r = [b.list, b.tuple, lambda rs: b.dict([[b.str('k'), rs[0]]])][i % 3]([r])
        return ctx, r
    case('deep', deep)

    def recursive_ctx(b):
        s1 = b.str('{b}')
        s2 = b.str('{c} and {c}')
        s3 = b.str('end')
        l = b.list([b.str('{a}'), b.str('{b:ff}')])
        return [['a', s1], ['b', s2], ['c', s3], ['l', l]], b.list([b.str('{a}'), b.str('{l}'), b.str('{l:rf}'),
                                                                      b.str('x{l:rf}'), b.str('{a:ff}')])
    case('recursive-ctx', recursive_ctx)

    # SPECIAL TAGS WITH A FALSY PAYLOAD (SpecialTagDirective.__bool__ is falsy then) are formatted like any other,
    # at every position: top level, list / tuple member, dict value, the same tag object twice, inside another
    # tag's payload, as the target of '{k}' / '{k:ff}' / '{k:rf}' / 'x{k}y', inside a context list reached by '{l}'
    FALSY = {'sic-empty': lambda b: b.sic(''), 'json-elist': lambda b: b.jsonify(b.list([])),
             'json-edict': lambda b: b.jsonify(b.dict([])), 'json-zero': lambda b: b.jsonify(b.leaf(0)),
             'json-false': lambda b: b.jsonify(b.leaf(False)), 'json-none': lambda b: b.jsonify(b.leaf(None)),
             'json-estr': lambda b: b.jsonify(b.str('')), 'json-etuple': lambda b: b.jsonify(b.tuple([])),
             'json-fzero': lambda b: b.jsonify(b.leaf(0.0)), 'json-ecseq': lambda b: b.jsonify(b.list([], 2)),
             'json-ecmap': lambda b: b.jsonify(b.dict([], 2))}
    for fname, mk in FALSY.items():
        case(f'falsy-special-{fname}-top', lambda b, mk=mk: (std_ctx(b), mk(b)))

        def members(b, mk=mk):
            ctx = std_ctx(b)
            t = mk(b)
            return ctx, b.list([t, b.str('{a}'), b.tuple([mk(b), b.leaf(1)]), t,
                                b.dict([[b.str('v'), mk(b)], [b.str('k{a}'), t]], 2), b.list([mk(b)], 3)])
        case(f'falsy-special-{fname}-members', members)

        def targets(b, mk=mk):
            ctx = std_ctx(b)
            t = mk(b)
            ctx = ctx + [['ft', t], ['fl', b.list([t, b.str('{a}'), mk(b)])], ['fd', b.dict([[b.str('p'), t]])]]
            return ctx, b.list([b.str('{ft}'), b.str('{ft:ff}'), b.str('{ft:rf}'), b.str('x{ft}y'), b.str('{fl}'),
                                b.str('{fl:rf}'), b.str('{fd}'), b.tuple([b.str('{ft}')]),
                                b.dict([[b.str('v'), b.str('{ft}')]])])
        case(f'falsy-special-{fname}-targets', targets)
        case(f'falsy-special-{fname}-target-top', lambda b, mk=mk: (std_ctx(b) + [['ft', mk(b)]], b.str('{ft}')))
        case(f'falsy-special-{fname}-in-jsonify', lambda b, mk=mk: (std_ctx(b), b.jsonify(b.list([mk(b), b.leaf(1)]))))

    # LEAVES WITH A NON-TRIVIAL TRUTH VALUE (bool() raises / len() has an effect / is False / len() raises / bool() has
    # an effect) come through as the identical objects, untouched: on their own, in every container class, as dict
    # value, shared, owned by the context and reached by '{k}' / '{k:ff}' / '{k:rf}' / a context list
    for kind_i, kname in enumerate(TRUTH_KINDS):
        def mkleaf(b, n, kind_i=kind_i):
            return b.leaf(truth_opaque(TRUTH_BASE + 5 * n + kind_i))
        case(f'truth-leaf-{kname}-top', lambda b, mkleaf=mkleaf: (std_ctx(b), mkleaf(b, 1)))

        def in_containers(b, mkleaf=mkleaf):
            ctx = std_ctx(b)
            x, y = mkleaf(b, 2), mkleaf(b, 3)
            return ctx, b.dict([[b.str('label'), b.str('m-{a}')],
                                [b.str('data'), b.list([x, b.leaf(1), b.leaf(None), b.str('{a}'), x])],
                                [b.str('t'), b.tuple([y, b.str('{a}')], 3)], [b.str('cs'), b.list([y], 2)],
                                [b.str('direct'), x], [b.str('k{a}'), b.dict([[b.str('in'), y]], 3)]], 2)
        case(f'truth-leaf-{kname}-containers', in_containers)

        def as_targets(b, mkleaf=mkleaf):
            ctx = std_ctx(b)
            m = mkleaf(b, 4)
            ctx = ctx + [['m', m], ['ml', b.list([m, b.str('{a}')])], ['md', b.dict([[b.str('p'), m]])]]
            return ctx, b.list([b.str('{m}'), b.str('{m:ff}'), b.str('{m:rf}'), b.str('{ml}'), b.str('{ml:rf}'),
                                b.str('{md}'), b.tuple([b.str('{m}'), m]), b.dict([[b.str('v'), b.str('{m}')]])])
        case(f'truth-leaf-{kname}-targets', as_targets)
        case(f'truth-leaf-{kname}-target-top', lambda b, mkleaf=mkleaf: (std_ctx(b) + [['m', mkleaf(b, 5)]], b.str('{m}')))

        def memoised_target(b, mkleaf=mkleaf):
            # the SAME str object '{m}' several times: its result - the leaf - is what the id-keyed memo answers with
            ctx = std_ctx(b)
            s = b.str('{m}')
            t = b.tuple([s, b.leaf(1)])
            return ctx + [['m', mkleaf(b, 7)]], b.list([s, s, t, t, b.dict([[b.str('p'), s], [b.str('q'), t]])])
        case(f'truth-leaf-{kname}-memoised-target', memoised_target)
        case(f'truth-leaf-{kname}-in-jsonify-sibling',
             lambda b, mkleaf=mkleaf: (std_ctx(b), b.list([mkleaf(b, 6), b.jsonify(b.list([])), b.sic('')])))
    return out


TEXTS = ['', 'x', 'ab', 'plain', 'two words', 'a{{b', '{{}}', 'tail}}']
# a context key's own value may come out of a '{k}' dict-key / set-member expression: no 0/1 (equal to
# False/True as dict keys: Python key equality is outside the modelled domain), no float
# (json.dumps float keys are outside PyRepr.jsonDumps)
CTX_LEAVES = [None, True, False, -7, 2 ** 70, b'', b'\x00{x}', 12345678901234567890, bytearray(b'{k0}\x00'),
              bytearray(), b'raw {k0}']


def random_case(rng, size):
    b = HeapBuilder()
    # context: keys k0..k4; an expression may only refer to lower-numbered keys (no cycles)
    nkeys = rng.randint(1, 5)
    ctx = []

    key_strable = []      # per context key: may it be stringified inside a longer string?

    def pick(maxkey, need_strable):
        ks = [i for i in range(maxkey) if key_strable[i] or not need_strable]
        return rng.choice(ks) if ks else None

    def expr(maxkey, allow_missing=True):
        """Returns (text, strable-after-formatting)."""
        if maxkey <= 0 or rng.random() < 0.25:
            if allow_missing and rng.random() < 0.04:
                return rng.choice(['{zz}', 'a {zz}', '{', 'x}']), True
            return rng.choice(TEXTS), True
        form = rng.random()
        if form < 0.6:
            i = pick(maxkey, False)
            spec = '' if form < 0.45 else rng.choice([':ff', ':rf'])
            return '{' + f'k{i}' + spec + '}', key_strable[i]
        i, j = pick(maxkey, True), pick(maxkey, True)
        if i is None:
            return rng.choice(TEXTS), True
        if form < 0.9:
            return (rng.choice(['pre ', '', '{{']) + '{' + f'k{i}' + rng.choice(['', ':ff', ':rf']) + '}'
                    + rng.choice([' post', '', '{' + f'k{j}' + '}'])), True
        return '{' + f'k{i}' + '}{' + f'k{j}' + '}', True

    ntwins = [0]

    def twins(maxkey, pool):
        """2-3 hashable containers that compare equal but differ in the identity / type of a non-string leaf
        (1 / 1.0 / True, 0 / 0.0 / False, 2 / 2.0, distinct EqOpaque objects of one group, or the very same
        number), sometimes one of them twice (the same object: the memo legitimately answers), inside a list,
        tuple or as dict values."""
        fam = rng.choice(['one', 'one', 'zero', 'two', 'eqobj', 'eqobj', 'same'])
        if fam == 'eqobj':
            base = EQ_BASE + 8 * (len(b.cells) + rng.randrange(1000))
            leaves = [EqOpaque(base + i) for i in range(3)]
        else:
            leaves = {'one': [1, 1.0, True], 'zero': [0, 0.0, False], 'two': [2, 2.0, 2], 'same': [-7, -7, -7]}[fam]
        rng.shuffle(leaves)
        leaves = leaves[:rng.randint(2, 3)]
        text, strable = expr(maxkey, False)
        wrap = rng.choice(['tuple', 'tuple', 'fset', 'nested', 'plain', 'str-first'])
        members = []
        for lv in leaves:
            x = b.leaf(lv)
            if wrap == 'tuple':
                m = b.tuple([x, b.str(text, strable)])
            elif wrap == 'fset':
                m = b.set([b.tuple([x, b.str(text, strable)])], 1)
            elif wrap == 'nested':
                m = b.tuple([b.tuple([x]), b.str(text, strable), b.set([x], 1)])
            elif wrap == 'plain':
                m = b.tuple([x, b.str(rng.choice(TEXTS))])
            else:
                m = b.tuple([b.str(text, strable), x])
            members.append(m)
        if rng.random() < 0.45:
            members.append(rng.choice(members))
        rng.shuffle(members)
        q = rng.random()
        if q < 0.45:
            ref = b.list(members, rng.choice([0, 0, 2, 3]))
        elif q < 0.7:
            ref = b.tuple(members, rng.choice([0, 3]))
        else:
            ref = b.dict([[b.str(k), m] for k, m in zip(['p', 'q', 'r', 'key'], members)], rng.choice([0, 2, 3, 4]))
        pool.extend(members[:2])
        ntwins[0] += 1
        return ref

    def gen_value(depth, maxkey, pool, top=False):
        """Returns a ref. `pool`: refs that may be shared."""
        r = rng.random()
        if pool and r < 0.12 and not top:
            return rng.choice(pool)
        if depth > 0 and not top and rng.random() < 0.07:
            return twins(maxkey, pool)
        if depth <= 0 or r < 0.30:
            q = rng.random()
            if q < 0.45:
                ref = b.str(*expr(maxkey))
            elif q < 0.87:
                ref = b.leaf(rng.choice(CTX_LEAVES if top else LEAVES))
            elif q < 0.93:
                # a leaf object with a non-trivial truth value (bool() raises / is False / has an effect, len() ...)
                ref = b.leaf(truth_opaque(TRUTH_BASE + 5 * (rng.randrange(1000) + 10 * len(b.cells)) + rng.randrange(5)))
            else:
                ref = b.leaf(Opaque(rng.randrange(1000) + 10 * len(b.cells)))
            if rng.random() < 0.3:
                pool.append(ref)
            return ref
        if r < 0.36:
            q = rng.random()
            if rng.random() < 0.3:
                # a special tag whose payload is FALSY (the tag object itself is falsy then)
                ref = rng.choice([lambda: b.sic(''), lambda: b.jsonify(b.list([], rng.choice([0, 2, 3]))),
                                  lambda: b.jsonify(b.dict([], rng.choice([0, 2]))), lambda: b.jsonify(b.str('')),
                                  lambda: b.jsonify(b.leaf(rng.choice([0, False, None]))),
                                  lambda: b.jsonify(b.tuple([]))])()
            elif q < 0.4:
                ref = b.sic(expr(maxkey, False)[0])
            elif q < 0.7 and maxkey > 0:
                i = rng.randrange(maxkey)
                ref = b.py(f'k{i}', key_strable[i])
            else:
                p = gen_value(depth - 1, maxkey, pool)
                if not ('sic' in b.cells[p] or 'py' in b.cells[p] or 'jsonify' in b.cells[p]):
                    ref = b.jsonify(p)      # str(Jsonify(<special tag>)) is mis-modelled by PyRepr.pyStr
                else:
                    ref = p
            pool.append(ref)
            return ref
        n = rng.randint(0, size)
        kind = rng.choice(['list', 'list', 'tuple', 'dict', 'dict', 'set'])
        if kind == 'dict':
            kvs = []
            for _ in range(n):
                kq = rng.random()
                if kq < 0.6:
                    k = (b.str(rng.choice(['p', 'q', 'r', 'key', 'x'])) if rng.random() < 0.6
                         else b.str(*expr(maxkey, False)))
                elif kq < 0.8:
                    k = b.leaf(rng.choice([None, 5, -1, 2 ** 70, b'kb']))
                else:
                    k = b.tuple([b.leaf(rng.randrange(3)), b.str(*expr(maxkey, False))])
                kvs.append([k, gen_value(depth - 1, maxkey, pool)])
            ref = b.dict(kvs, rng.choice([0, 0, 2, 3, 4]))
        elif kind == 'set':
            ms = []
            for _ in range(n):
                mq = rng.random()
                if mq < 0.5:
                    ms.append(b.str(*expr(maxkey, False)))
                elif mq < 0.85:
                    ms.append(b.leaf(rng.choice([None, 5, -1, 2 ** 70, b'kb', 0.5])))
                else:
                    ms.append(b.tuple([b.leaf(rng.randrange(3)), b.str(rng.choice(TEXTS))]))
            ref = b.set(ms, rng.choice([0, 1, 3]))
        elif kind == 'tuple':
            ref = b.tuple([gen_value(depth - 1, maxkey, pool) for _ in range(n)], rng.choice([0, 0, 3]))
        else:
            ref = b.list([gen_value(depth - 1, maxkey, pool) for _ in range(n)], rng.choice([0, 0, 2, 3]))
        pool.append(ref)
        return ref

    pool = []
    for i in range(nkeys):
        r = gen_value(rng.randint(0, 2), i, pool, top=True)
        ctx.append([f'k{i}', r])
        key_strable.append(b.strable[r])
    root = gen_value(rng.randint(1, 4), nkeys, pool)
    case = {'stream': 'random', 'cells': b.cells, 'ctx': ctx, 'root': root}
    if ntwins[0]:
        case['twins'] = ntwins[0]          # groups of equal-but-distinct hashable siblings in this heap
    return case


def random_yaml_case(rng):
    """Real yaml text with anchors/aliases and the three tags; loaded through pypyr.yaml."""
    anchors = []
    counter = [0]

    def scalar(maxkey):
        q = rng.random()
        if q < 0.4:
            k = f'k{rng.randrange(maxkey)}' if maxkey else 'k0'
            s = rng.choice(['{%s}', 'pre {%s} post', '{%s:ff}', 'plain %s', '{{%s}}']) % k if maxkey else 'plain text'
            return "'" + s + "'"
        if q < 0.44:
            return rng.choice(["!sic ''", '!sic', '!jsonify []', '!jsonify {}', '!jsonify 0', '!jsonify false',
                               '!jsonify null', "!jsonify ''"])
        if q < 0.5:
            return "!sic '{raw} text'"
        if q < 0.58 and maxkey:
            return f'!py k{rng.randrange(maxkey)}'
        return rng.choice(['1', '-5', 'true', 'null', '2.5', "'text'", "''", '12345678901234567890'])

    def node(depth, maxkey, indent):
        pad = '  ' * indent
        r = rng.random()
        if anchors and r < 0.15:
            return ' *' + rng.choice(anchors) + '\n'
        if depth <= 0 or r < 0.35:
            return ' ' + scalar(maxkey) + '\n'
        tagtxt = ''
        if rng.random() < 0.08:
            tagtxt = ' !jsonify'
        anchor = ''
        name = None
        if rng.random() < 0.3:
            counter[0] += 1
            name = f'n{counter[0]}'
            anchor = ' &' + name
        n = rng.randint(1, 3)
        if rng.random() < 0.5:
            body = ''.join(f'{pad}-' + node(depth - 1, maxkey, indent + 1) for _ in range(n))
        else:
            keys = rng.sample(['p', 'q', 'r', 'key', 'other'], n)
            body = ''.join(f'{pad}{k}:' + node(depth - 1, maxkey, indent + 1) for k in keys)
        if name:
            anchors.append(name)
        return tagtxt + anchor + '\n' + body

    nkeys = rng.randint(1, 4)
    txt = 'ctx:\n'
    for i in range(nkeys):
        txt += f'  k{i}:' + node(rng.randint(0, 2), i, 2)
    txt += 'value:' + node(rng.randint(1, 4), nkeys, 1)
    return {'stream': 'yaml', 'yaml': txt}


YAML_DIRECTED = [
    "ctx:\n  k0: 5\n  k1: v\nvalue:\n  a: &x\n    k: '{k0}'\n    l: [1, 2, '{k1}']\n  b: *x\n  c: !sic 'he{llo}'\n"
    "  d: !py k0\n  e: !jsonify\n    z: '{k0}'\n  f: [*x, 3]\n",
    "ctx:\n  k0: &s [1, '{k1}']\n  k1: end\nvalue:\n  - *s\n  - '{k0}'\n  - '{k0:ff}'\n  - plain\n",
    "ctx:\n  k0: text\nvalue: &top\n  x: 1\n  y: [a, b, {p: '{k0}', q: null}]\n",
    # special tags with falsy payloads, as a pipeline author writes them
    "ctx:\n  k0: v\n  k1: !jsonify []\n  k2: !sic ''\n  k3: !jsonify 0\nvalue:\n  a: !jsonify []\n  b: !jsonify {}\n"
    "  c: !jsonify 0\n  d: !jsonify false\n  e: !jsonify null\n  f: !jsonify ''\n  g: !sic ''\n  g2: !sic\n"
    "  h: ['{k1}', '{k2}', !jsonify [], '{k3}']\n  i: 'tags={k1} r={k3} n=[{k2}]'\n  j: !jsonify ['{k0}']\n",
    "ctx:\n  k0: v\nvalue: !jsonify []\n",
    "ctx:\n  k0: v\nvalue: !sic ''\n",
]


# F9: classes whose constructor does not take one iterable of members / pairs
def f9_values():
    import array
    import types
    Pt = collections.namedtuple('Pt', 'x y')
    dd = collections.defaultdict(list)
    dd['a'] = [1]
    return [
        ('Counter', collections.Counter({'a': 2, 'b': 1})),
        ('defaultdict', dd),
        ('Pt', Pt(1, 'two')),
        ('range', range(3)),
        ('ChainMap', collections.ChainMap({'a': 1}, {'b': 2})),
        ('mappingproxy', types.MappingProxyType({'a': 1})),
        ('dict_keys', {'a': 1, 'b': 2}.keys()),
        ('array', array.array('i', [1, 2, 3])),
        ('Counter-nested', {'outer': [collections.Counter({'z': 3})]}),
        # controls: compatible library classes, must NOT be reported
        ('OrderedDict', collections.OrderedDict([('a', 1), ('b', [1, 2])])),
        ('deque', collections.deque([1, 'two', None])),
        ('UserList', collections.UserList([1, 'two'])),
        ('UserDict', collections.UserDict({'a': 1})),
    ]


# ---------------------------------------------------------------------------------------------
# IMPLEMENTATION-ONLY stream: values holding arbitrary-Python `!py` strings
# ---------------------------------------------------------------------------------------------
#
# case = {"stream": "implonly-py", "ctx": [[key, wire]…], "v": wire}, wire as common.enc plus {"pysrc": source}.
# The formatter models have `!py` only over PypyrModel/PyEval.lean's sub-language (no assignment expressions inside
# values, no comprehensions, no lambdas), so these cases have NO model side: only the monitors of `run_impl`
# judge them (input and context deep-equal with the same keys, key order and object identities before/after;
# shape; element-wise; non-string leaves identical). No source has a side effect of its own (no method calls
# that mutate, no augmented assignment): what an expression binds with := is its own business and must not
# reach the context.

def dec_py(w):
    from pypyr.dsl import Jsonify, PyString
    if isinstance(w, list):
        return [dec_py(x) for x in w]
    if isinstance(w, dict):
        if 'pysrc' in w:
            return PyString(w['pysrc'])
        if 't' in w:
            return tuple(dec_py(x) for x in w['t'])
        if 'd' in w:
            return {dec_py(k): dec_py(v) for k, v in w['d']}
        if 'set' in w:
            return {dec_py(x) for x in w['set']}
        if 'jsonify' in w:
            return Jsonify(dec_py(w['jsonify']))
    return common.dec(w)


def has_pysrc(w):
    if isinstance(w, list):
        return any(has_pysrc(x) for x in w)
    if isinstance(w, dict):
        if 'pysrc' in w:
            return True
        return any(has_pysrc(x) for x in w.values())
    return False


PY_TARGETS = ['n', 'total', 'tmp', 'acc']

PY_FORMS = [
    # (source template, binds at top level?)      K: int-valued key, L: list-valued key, S: any key, t/u: targets
    ('({t} := len({L})) * 2 + {t}', True), ('({K} := 5)', True), ('({K} := {K} + 1) * 2', True),
    ('({t} := {L})', True), ('({LK} := {L})', True), ('[({t} := {K}), {t}][1]', True),
    ('(({t} := 1), ({u} := {t} + 1))[1]', True), ('{K} if ({t} := {K}) else 0', True),
    ('({t} := sum({L})) * 2', True), ('dict(a=({t} := 1), b={K})', True), ('({t} := {S})', True),
    ('(({t} := {K}) and ({K} := 0)) or {K}', True), ('[i * ({t} := 2) for i in {L}] + [({u} := {K})]', True),
    ('[({t} := i) for i in {L}]', False), ('[{t} for i in {L} if ({t} := i * 2) > 2] or 0', False),
    ('any(({t} := i) > 1 for i in {L})', False), ('{{i: ({K} := i) for i in {L}}}', False),
    ('(lambda: ({t} := 5))()', False), ('(lambda q: ({K} := q) + 1)({K})', False),
    ('[(lambda: ({t} := i))() for i in {L}]', False),
    ('{K}', False), ('{L}', False), ('{S}', False), ('len({L}) + {K}', False), ('[i + {K} for i in {L}]', False),
    ('sorted({L})', False), ('list({L}) + [{K}]', False), ('(lambda: {K} + 1)()', False), ('{L}[:1]', False),
    ('{K} == 1 or {L}', False), ('dict(zip({L}, {L}))', False), ('tuple({L})', False),
]


def random_py_case(rng):
    nk = rng.randint(2, 5)
    ctx, ints, lists = [], [], []
    for i in range(nk):
        k = f'k{i}'
        q = rng.random()
        if q < 0.4 or (i == 0):
            v = rng.choice([0, 1, 3, -7, 2 ** 70, True])
            ints.append(k)
        elif q < 0.75 or (i == 1):
            v = [rng.choice([1, 2, 3, 8, 12]) for _ in range(rng.randint(0, 4))]
            if rng.random() < 0.3:
                v.append([rng.choice([1, 2]), 'x{k0}'])       # a mutable member: must stay the same object
                v = v[-1:] + v[:-1] if rng.random() < 0.5 else v
            lists.append(k)
        elif q < 0.9:
            v = rng.choice(['plain', '', 'ref {k0}', '{k0}', 'a{{b}}'])
        else:
            v = {'d': [['p', rng.choice([1, 'x{k0}'])], ['q', [1, 2]]]}
        ctx.append([k, v])
    # int-only lists for arithmetic forms
    arith_lists = [k for k, v in ctx if k in lists and all(isinstance(x, int) for x in v)] or None

    def py():
        form, _ = rng.choice(PY_FORMS)
        L = rng.choice(arith_lists) if arith_lists else '[1, 2, 3]'
        t, u = rng.sample(PY_TARGETS + [k for k, _ in ctx][:2], 2)
        return {'pysrc': form.format(t=t, u=u, K=rng.choice(ints), L=L, LK=L if arith_lists else t, S=rng.choice(ctx)[0])}

    def val(depth):
        q = rng.random()
        if depth <= 0 or q < 0.35:
            q2 = rng.random()
            if q2 < 0.6:
                return py()
            if q2 < 0.85:
                k = rng.choice(ctx)[0]
                return rng.choice(['{%s}', 'x{%s}', 'lit', '{%s:ff}', '{%s:rf}']).replace('%s', k)
            return rng.choice([1, None, {'f': [5, 1]}, True, {'b': '00'}, {'o': rng.randrange(1000)}])
        n = rng.randint(1, 3)
        if q < 0.6:
            return [val(depth - 1) for _ in range(n)]
        if q < 0.75:
            return {'t': [val(depth - 1) for _ in range(n)]}
        if q < 0.95:
            ks = rng.sample(['p', 'q', 'r', 'x{k0}', 'key'], n)
            return {'d': [[k, val(depth - 1)] for k in ks]}
        inner = val(depth - 1)
        return {'jsonify': inner if not (isinstance(inner, dict) and 'pysrc' in inner) else [inner]}

    v = py() if rng.random() < 0.3 else val(rng.randint(1, 3))
    if not has_pysrc(v):
        v = [v, py()]
    return {'stream': 'implonly-py', 'ctx': ctx, 'v': v}


PY_DIRECTED = [
    # an empty !py cannot be evaluated: formatting it (anywhere) raises, it never comes back as the tag object
    {'ctx': [['k', 1]], 'v': {'pysrc': ''}},
    {'ctx': [['k', 1]], 'v': ['x{k}', {'pysrc': ''}]},
    {'ctx': [['k', 1], ['e', {'pysrc': ''}]], 'v': ['{e}']},
    {'ctx': [['items', [1, 2, 3]], ['total', 10], ['a', 'A']],
     'v': {'d': [['doubled', {'pysrc': '(n := len(items)) * 2 + n'}], ['lit', 'x{a}']]}},
    {'ctx': [['items', [1, 2, 3]], ['total', 10], ['a', 'A']],
     'v': [{'pysrc': '(total := sum(items)) * 2'}, '{total}']},
    {'ctx': [['items', [1, 2, 3]], ['expr', {'pysrc': '(m := max(items))'}]], 'v': '{expr}'},
    {'ctx': [['items', [1, 2, 3]], ['expr', {'pysrc': '(items := items + [4])'}]], 'v': ['{expr}', 'x{expr}', '{items}']},
    {'ctx': [['items', [[1], [2]]], ['k', 1]], 'v': {'pysrc': '(first := items[0])'}},
    {'ctx': [['items', [1, 2, 3]], ['k', 1]],
     'v': {'t': [{'pysrc': '[(y := i) for i in items]'}, {'pysrc': '(lambda: (z := 5))()'},
                 {'pysrc': '[(k := i) for i in items]'}, {'pysrc': '(k := 7) + k'}, '{k}']}},
    {'ctx': [['k', 1]], 'v': {'jsonify': [{'pysrc': '(k := 2)'}, {'pysrc': 'k'}]}},
    {'ctx': [['k', 1], ['s', 'v{k}']], 'v': {'d': [['x{k}', {'pysrc': '(s := k)'}], ['y', '{s}']]}},
]


def run_py_case(case):
    """-> (obs, monitor failures, observations about private state)"""
    ctxdict = {k: dec_py(w) for k, w in case['ctx']}
    value = dec_py(case['v'])
    obs, fails = run_impl(value, ctxdict, {})
    return obs, fails


# ---------------------------------------------------------------------------------------------
# LAZILY MATERIALISING containers: iteration creates the members
# ---------------------------------------------------------------------------------------------
#
# `_get_formatted_iterable` memoises by id(obj). A container that CREATES its members while it is iterated (a
# Sequence whose __iter__ builds each str, a Mapping whose items() builds keys and values, a Set of temporaries)
# hands the formatter objects that nobody else refers to: a member may die right after it was formatted, and the
# next member may get its address. The property's "members formatted element-wise" then reads: EACH MEMBER IS
# FORMATTED AS ITSELF — whatever the allocator does with addresses (FmtFree.lean: the counter-model in which
# an address is re-used while the memo survives; Props/C09.lean `memo_keeps_alive_sound`).
#
# case = {"stream": "lazy", "shape": "seq"|"seqgen"|"map"|"set", "place": "top"|"member"|"ctx"|"ctx-rf",
#         "ctx": [[key, wire]...], "items": [wire...]  (map: [[wire key, wire value]...])}

def refresh(x):
    """An equal-content object that nobody else refers to: a new str (len >= 2) / bytes-free container, members
    refreshed recursively; non-string leaves and special tags are handed out as the identical objects."""
    if type(x) is str:
        return ''.join(list(x)) if len(x) >= 2 else x
    if type(x) is tuple:
        return tuple(refresh(e) for e in x) if x else x
    if type(x) is list:
        return [refresh(e) for e in x]
    if type(x) is dict:
        return {refresh(k): refresh(v) for k, v in x.items()}
    return x


class LazySeq(Sequence):
    """A Sequence that builds every member anew when it is iterated or indexed."""

    def __init__(self, items=()):
        self._items = list(items)

    def __len__(self):
        return len(self._items)

    def __getitem__(self, i):
        if isinstance(i, slice):
            return type(self)(self._items[i])
        return refresh(self._items[i])

    def __iter__(self):
        return _LazyIter(self._items)

    def __eq__(self, other):
        return type(other) is type(self) and self._items == other._items

    def __repr__(self):
        return f'{type(self).__name__}({self._items!r})'


class _LazyIter:
    """iterator protocol by hand: the member exists only between two __next__ calls"""

    def __init__(self, items):
        self._items, self._i = items, 0

    def __iter__(self):
        return self

    def __next__(self):
        if self._i >= len(self._items):
            raise StopIteration
        self._i += 1
        return refresh(self._items[self._i - 1])


class LazyGenSeq(LazySeq):
    """the same with a generator function as __iter__ (a generator of temporaries)"""

    def __iter__(self):
        for x in self._items:
            yield refresh(x)


class LazyMap(Mapping):
    """A Mapping whose keys() / items() build key and value objects anew."""

    def __init__(self, pairs=()):
        self._d = dict(pairs)

    def __len__(self):
        return len(self._d)

    def __iter__(self):
        for k in self._d:
            yield refresh(k)

    def __getitem__(self, k):
        return refresh(self._d[k])

    def __eq__(self, other):
        return type(other) is type(self) and self._d == other._d

    def __repr__(self):
        return f'LazyMap({self._d!r})'


class LazySet(Set):
    """A Set of temporaries."""

    def __init__(self, members=()):
        self._s = list(dict.fromkeys(members))          # insertion-ordered, duplicates dropped

    @classmethod
    def _from_iterable(cls, it):
        return cls(it)

    def __len__(self):
        return len(self._s)

    def __contains__(self, x):
        return x in self._s

    def __iter__(self):
        for x in self._s:
            yield refresh(x)

    def __repr__(self):
        return f'LazySet({self._s!r})'


LAZY_CLASSES = {'seq': LazySeq, 'seqgen': LazyGenSeq, 'map': LazyMap, 'set': LazySet}


def lazy_members(o):
    """the members a lazily materialising container HOLDS (not what iterating it creates), in order"""
    if isinstance(o, LazySeq):
        return list(o._items)
    if isinstance(o, LazyMap):
        return list(o._d.items())
    return list(o._s)


def run_lazy(case, decode=None, entry='context', encode=None):
    """Format a lazily materialising container. Returns (obs, monitor failures).
    obs = {"ok": wire of the result's members as a plain list / dict / set} | {"err": name, "msg": text}.
    Monitor, from the property text alone: the result is a container of the same class whose members are, one by
    one, what formatting THAT member on its own gives (a str / container member: deep-equal to the separate
    formatting of the held member, which stays referenced, so no address can be confused; a non-string leaf
    member: the identical object); the held members and the context are unchanged."""
    try:
        with time_limit(CASE_SECONDS):
            return _run_lazy(case, decode or common.dec, entry, encode or enc9)
    except CaseTimeout:
        return ({'err': 'Timeout', 'msg': f'no result within {CASE_SECONDS}s'},
                [('hang', f'formatting did not return within {CASE_SECONDS}s')])


def _run_lazy(case, decode, entry, encode):
    from pypyr.context import Context
    shape, place = case['shape'], case.get('place', 'top')
    ctxdict = {k: decode(w) for k, w in case['ctx']}
    if shape == 'map':
        lazy = LazyMap([(decode(k), decode(v)) for k, v in case['items']])
    else:
        lazy = LAZY_CLASSES[shape]([decode(w) for w in case['items']])
    held = lazy_members(lazy)
    if place in ('ctx', 'ctx-rf'):
        ctxdict['lz'] = lazy
    ctx = Context(ctxdict)
    fmtcall = formatter_of(ctx, entry)
    value = {'top': lazy, 'member': [lazy, 'tail'], 'ctx': '{lz}', 'ctx-rf': '{lz:rf}'}[place]
    def held_flat():
        m = lazy_members(lazy)
        return [x for kv in m for x in kv] if shape == 'map' else m
    snap_held, snap_c = Snapshot(held_flat()), Snapshot({k: v for k, v in ctx.items() if k != 'lz'})

    # the oracle: every held member formatted on its own, by a top-level call of its own
    def alone(x):
        try:
            if place == 'ctx-rf':
                # '{lz:rf}' formats the container with the recursive flag on: so is the member on its own
                c1 = Context(dict(ctx, one=x))
                return ('ok', formatter_of(c1, entry)('{one:rf}'))
            return ('ok', fmtcall(x))
        except RecursionError:
            return ('rec', None)
        except Exception as e:  # noqa
            return ('err', e)

    def hashable(y):
        try:
            hash(y)
            return True
        except TypeError:
            return False
    flat = [x for kv in held for x in kv] if shape == 'map' else held
    want = [alone(x) for x in flat]
    fails = []
    try:
        res = fmtcall(value)
        err = None
    except Exception as e:  # noqa  (RecursionError included)
        res, err = None, e
    f = snap_held.same(held_flat(), ids=True)
    if f:
        fails.append(('input-mutated', f'the members the container holds changed: {f}'))
    f = snap_c.same({k: v for k, v in ctx.items() if k != 'lz'}, ids=True)
    if f:
        fails.append(('context-mutated', f'the context changed: {f}'))
    if err is not None:
        keyed = want[0::2] if shape == 'map' else want if shape == 'set' else []
        if isinstance(err, TypeError) and any(w[0] == 'ok' and not hashable(w[1]) for w in keyed):
            pass                                        # a formatted key / set member is unhashable: TypeError is right
        elif all(w[0] == 'ok' for w in want):
            fails.append(('lazy-member', f'every member formats on its own, but formatting the {type(lazy).__name__} '
                          f'raised {type(err).__name__}: {err}'))
        return {'err': exc_name(err), 'msg': str(err)[:200]}, fails
    if place == 'member':
        res = res[0] if type(res) is list and len(res) == 2 else res
    if type(res) is not type(lazy):
        fails.append(('shape', f'{type(lazy).__name__} came back as {type(res).__name__}'))
        return {'ok': {'unencodable': repr(res)[:200]}}, fails
    got = lazy_members(res)
    first_bad = next((w for w in want if w[0] != 'ok'), None)
    if first_bad is not None:
        fails.append(('lazy-member', f'a member does not format on its own ({first_bad!r}) but the container came back: {got!r}'[:400]))
    elif shape in ('seq', 'seqgen'):
        if len(got) != len(held):
            fails.append(('shape', f'sequence length {len(held)} became {len(got)}'))
        for i, (x, w, y) in enumerate(zip(held, want, got)):
            if is_leaf(x) and not isinstance(x, (bytes, bytearray)) or isinstance(x, (bytes, bytearray)):
                ok = y is x
            else:
                ok = deep_equal(w[1], y)
            if not ok:
                fails.append(('lazy-member', f'member {i} {x!r} formats to {w[1]!r} on its own, but the result holds '
                              f'{y!r} at its position (each member must be formatted as itself)'))
                break
    elif shape == 'map':
        exp = {}
        try:
            for j in range(0, len(want), 2):
                exp[want[j][1]] = want[j + 1][1]
        except TypeError:
            exp = None                                  # an unhashable formatted key: the call should have raised
        if exp is None:
            fails.append(('lazy-member', f'a formatted key is unhashable but the mapping came back: {got!r}'[:300]))
        elif not deep_equal(dict(got), exp):
            fails.append(('lazy-member', f'pairs format to {exp!r} on their own, but the result holds {dict(got)!r} '
                          '(each key and value must be formatted as itself)'))
    else:
        exp = sorted(stable_repr(w[1]) for w in want)
        try:
            distinct = len({w[1] for w in want}) == len(want)       # Python equality: True == 1 == 1.0 collide
        except TypeError:
            distinct = False
        if distinct and sorted(stable_repr(y) for y in got) != exp:
            fails.append(('lazy-member', f'members format to {exp!r} on their own, but the result holds '
                          f'{sorted(stable_repr(y) for y in got)!r} (each member must be formatted as itself)'))
    try:
        if shape == 'map':
            val = canon_wire(encode(dict(got)))
        elif shape == 'set':
            val = canon_wire({'set': [encode(y) for y in got]})
        else:
            val = canon_wire(encode(list(got)))
    except Exception:
        val = {'unencodable': repr(got)[:200]}
    return {'ok': val}, fails


def lazy_model_value(case):
    """the plain container (wire form) with the same members: what the tree-level models format"""
    if case['shape'] == 'map':
        return {'d': [[k, v] for k, v in case['items']]}
    if case['shape'] == 'set':
        return {'set': list(case['items'])}
    return list(case['items'])


LAZY_CTX = [['k0', 'v0'], ['k1', 'value one'], ['k2', 2], ['k3', 'v3'], ['k4', [4, 'x{k0}']], ['k5', 'v5'],
            ['k6', None], ['k7', 'seven'], ['k8', 'v{k0}'], ['k9', {'t': [9, '{k1}']}]]


def lazy_directed_cases():
    out = []
    exprs = [f'x{{k{i}}}' for i in (0, 1, 2, 3, 5, 6, 7, 0, 3, 5, 1, 7)]
    singles = [f'{{k{i}}}' for i in (0, 1, 2, 3, 4, 5, 6, 7, 8, 9)]
    for shape in ('seq', 'seqgen', 'set'):
        for place in ('top', 'member', 'ctx', 'ctx-rf'):
            for name, items in (('mixed', exprs), ('single', singles), ('two', exprs[:2]), ('empty', []),
                                ('tuples', [{'t': [e, i]} for i, e in enumerate(exprs[:8])]),
                                ('plain+expr', ['plain', 'x{k0}', 'other', 'x{k1}', 'third', 'x{k3}', 'xx', 'x{k5}'])):
                if shape == 'set' and name == 'single':
                    items = [s for s in items if s not in ('{k4}',)]          # a list is not hashable
                out.append({'stream': f'lazy:directed:{name}', 'shape': shape, 'place': place, 'ctx': LAZY_CTX,
                            'items': items})
    for place in ('top', 'member', 'ctx', 'ctx-rf'):
        out.append({'stream': 'lazy:directed:map', 'shape': 'map', 'place': place, 'ctx': LAZY_CTX,
                    'items': [[f'key{i}-{{k{j}}}', f'val {{k{(j + 1) % 8}}}'] for i, j in enumerate((0, 1, 2, 3, 5, 7, 0, 3))]})
        out.append({'stream': 'lazy:directed:map-lists', 'shape': 'map', 'place': place, 'ctx': LAZY_CTX,
                    'items': [[f'k{i}{i}', [f'x{{k{i}}}', i]] for i in (0, 1, 2, 3, 5, 7)]})
    return out


def random_lazy_case(rng):
    nk = rng.randint(3, 8)
    ctx = []
    for i in range(nk):
        q = rng.random()
        if q < 0.55:
            v = rng.choice(['v', 'val', 'value ']) + str(i)
        elif q < 0.7:
            v = rng.choice([i, -i, None, True, 10 ** 12 + i])
        elif q < 0.85 and i:
            v = rng.choice(['{k%d}', 'r{k%d}', '{k%d:ff}']) % rng.randrange(i)
        else:
            v = rng.choice([[i, 'm'], {'t': [i]}, [f'x{i}', 'y']])
        ctx.append([f'k{i}', v])

    def expr():
        i = rng.randrange(nk)
        return rng.choice(['x{k%d}', '{k%d}', 'a {k%d} b', '{k%d}{k%d}', 'lit%d', '{k%d:rf}', 'z{k%d:ff}', '{{%d']) \
            .replace('%d', str(i))
    shape = rng.choice(['seq', 'seq', 'seqgen', 'map', 'set'])
    n = rng.choice([0, 1, 2, 4, 5, 6, 8, 9, 12, 16])
    if shape == 'map':
        items, seen = [], set()
        for j in range(n):
            k = rng.choice(['p%d', 'key %d', 'q{k0}%d']).replace('%d', str(j))
            v = expr() if rng.random() < 0.8 else [expr(), j]
            items.append([k, v])
    elif shape == 'set':
        items = list(dict.fromkeys(expr() for _ in range(n)))
        # a member that formats to a list is unhashable: keep the set stream to members whose value is hashable
        hashable = {k for k, v in ctx if not isinstance(v, list)}
        items = [s for s in items if all(('k' + d) in hashable for d in _digits_after_k(s))]
    else:
        q = rng.random()
        if q < 0.6:
            items = [expr() for _ in range(n)]
        elif q < 0.8:
            items = [{'t': [expr(), j]} for j in range(n)]
        else:
            items = [rng.choice([expr(), [expr()], {'t': [expr()]}, j, None, {'d': [[f'k{j}', expr()]]}]) for j in range(n)]
    return {'stream': 'lazy:random', 'shape': shape, 'place': rng.choice(['top', 'top', 'member', 'ctx', 'ctx-rf']),
            'ctx': ctx, 'items': items}


def _digits_after_k(s):
    return _re.findall(r'\{k(\d+)', s)


# ---------------------------------------------------------------------------------------------
# stream `almost`: leaves that are ALMOST containers
# ---------------------------------------------------------------------------------------------
#
# case = {"stream": "almost", "kind": name, "place": name}. The routing of `_get_formatted_iterable` is by
# `isinstance` against str, bytes / bytearray, the special types, Mapping, Sequence, Set (inheritance or explicit
# registration) - never by what an object can do. `almost_tags` asks the real collections.abc classes (not the
# formatter), the Lean classifier `FmtRoute.route` says which branch that is; for a leaf the monitor is: the
# identical object at its position, at every position, its constructor never called, none of its container-like
# methods called, its state as before, no exception; the strings around it formatted.

ALMOST_METHODS = ('__len__', '__iter__', '__contains__', '__getitem__', 'keys')
ALMOST_CTORS = ('iterable', 'noarg', 'raises')
ALMOST_COUNTS = {'made': 0, 'touched': 0}
_ALMOST_CLASSES = {}


def almost_class(mask, ctor, register=None, base=object):
    """A class defining exactly the subset `mask` of ALMOST_METHODS (all of them when registered with an abc), whose
    constructor takes one optional iterable / takes nothing / raises once armed. Counts constructions and calls."""
    key = (mask, ctor, register, base.__name__)
    if key in _ALMOST_CLASSES:
        return _ALMOST_CLASSES[key]
    C = ALMOST_COUNTS

    def touch():
        C['touched'] += 1

    def init_iterable(self, items=()):
        C['made'] += 1
        self.items_ = list(items)
        self.owner = 'owner-{k0}'

    def init_noarg(self):
        C['made'] += 1
        self.items_ = [1, 'x{k0}', None]
        self.owner = 'owner-{k0}'

    def init_raises(self, *a, **kw):
        C['made'] += 1
        if type(self).armed:
            raise RuntimeError('constructor of a leaf object called')
        self.items_ = [1, 'x{k0}', None]
        self.owner = 'owner-{k0}'

    def m_len(self):
        touch()
        return len(self.items_)

    def m_iter(self):
        touch()
        return iter(self.items_)

    def m_contains(self, x):
        touch()
        return x in self.items_

    def m_getitem(self, i):
        touch()
        return self.items_[i]

    def m_keys(self):
        touch()
        return list(range(len(self.items_)))
    impls = dict(zip(ALMOST_METHODS, (m_len, m_iter, m_contains, m_getitem, m_keys)))
    ns = {'__init__': {'iterable': init_iterable, 'noarg': init_noarg, 'raises': init_raises}[ctor], 'armed': False,
          '__repr__': lambda self: f'<{type(self).__name__}>'}
    for i, name in enumerate(ALMOST_METHODS):
        if mask >> i & 1:
            ns[name] = impls[name]
    if register:
        def m_items(self):
            touch()
            return list(enumerate(self.items_))
        ns['items'] = m_items
        ns['__reversed__'] = lambda self: iter(self.items_[::-1])
    if register == 'Set':
        ns['__eq__'] = lambda self, o: self is o
        ns['__hash__'] = lambda self: id(self) >> 4
    cls = type(f'Almost{mask:02d}{ctor.capitalize()}{register or ""}{"" if base is object else base.__name__.capitalize()}',
               (base,), ns)
    if register:
        getattr(collections.abc, register).register(cls)
    _ALMOST_CLASSES[key] = cls
    return cls


def _almost_new(cls):
    if cls.__init__.__name__ == 'init_iterable':
        o = cls([1, 'x{k0}', None])
    else:
        o = cls()
    if hasattr(cls, 'armed'):
        cls.armed = True
    return o


def _liar(claims):
    class Liar:
        def __init__(self):
            ALMOST_COUNTS['made'] += 1
            self.owner = 'owner-{k0}'

        @property
        def __class__(self):
            return claims

        def __len__(self):
            ALMOST_COUNTS['touched'] += 1
            return 2

        def __iter__(self):
            ALMOST_COUNTS['touched'] += 1
            return iter((1, 2))

        def __contains__(self, x):
            ALMOST_COUNTS['touched'] += 1
            return False
    return Liar()


class _AnswersEverything:
    """hasattr(x, anything) is True"""
    def __getattr__(self, name):
        if name.startswith('__') and name.endswith('__'):
            raise AttributeError(name)
        ALMOST_COUNTS['touched'] += 1
        return lambda *a, **k: None


class _StrSub(str):
    pass


class _BytesSub(bytes):
    pass


class _ByteArraySub(bytearray):
    pass


class _IntSub(int):
    def __len__(self):
        ALMOST_COUNTS['touched'] += 1
        return 1

    def __iter__(self):
        ALMOST_COUNTS['touched'] += 1
        return iter((self,))

    def __contains__(self, x):
        ALMOST_COUNTS['touched'] += 1
        return False


def _gen():
    yield 'x{k0}'
    yield 2


def _library_kinds():
    import array
    import decimal
    import enum
    import fractions
    import functools
    import io
    import pathlib
    import types

    class Colour(enum.Enum):
        RED = 1
        BLUE = 2

    class Num(enum.IntEnum):
        ONE = 1

    class Perm(enum.Flag):
        R = 1
        W = 2
    Pt = collections.namedtuple('Pt', 'x y')
    src = {'one': 'x{k0}', 'two': 2}
    return {
        'dict_values': lambda: src.values(), 'dict_keys': lambda: src.keys(), 'dict_items': lambda: src.items(),
        'odict_values': lambda: collections.OrderedDict(src).values(),
        'range': lambda: range(3), 'range-empty': lambda: range(0), 'memoryview': lambda: memoryview(b'ab{k0}'),
        'array': lambda: array.array('i', [1, 2]), 'deque': lambda: collections.deque([1, 'x{k0}']),
        'ChainMap': lambda: collections.ChainMap({'a': 1}), 'mappingproxy': lambda: types.MappingProxyType({'a': 1}),
        'enum-class': lambda: Colour, 'intenum-class': lambda: Num, 'flag-class': lambda: Perm,
        'enum-member': lambda: Colour.RED, 'intenum-member': lambda: Num.ONE, 'flag-member': lambda: Perm.R | Perm.W,
        'generator': _gen, 'genexpr': lambda: (x for x in ['x{k0}']), 'list-iterator': lambda: iter(['x{k0}', 1]),
        'map-object': lambda: map(str, [1, 2]), 'zip-object': lambda: zip('ab', 'cd'), 'enumerate': lambda: enumerate('ab'),
        'reversed': lambda: reversed([1, 2]), 'dict-iterator': lambda: iter(src),
        'str-subclass': lambda: _StrSub('s{k0}'), 'str-subclass-plain': lambda: _StrSub('plain'),
        'bytes-subclass': lambda: _BytesSub(b'b{k0}'), 'bytearray-subclass': lambda: _ByteArraySub(b'b{k0}'),
        'int-subclass-sized': lambda: _IntSub(7), 'namedtuple': lambda: Pt(1, 'x{k0}'),
        'namedtuple-class': lambda: Pt, 'class-list': lambda: list, 'class-dict': lambda: dict, 'class-str': lambda: str,
        'abc-Sequence': lambda: Sequence, 'abc-Mapping': lambda: Mapping,
        'object': object, 'function': lambda: _gen, 'lambda': lambda: (lambda: 1), 'builtin': lambda: len,
        'partial': lambda: functools.partial(len, 'ab'), 'module': lambda: collections, 'ellipsis': lambda: Ellipsis,
        'notimplemented': lambda: NotImplemented, 'slice': lambda: slice(1, 2), 'complex': lambda: 1 + 2j,
        'decimal': lambda: decimal.Decimal('1.5'), 'fraction': lambda: fractions.Fraction(1, 3),
        'path': lambda: pathlib.PurePosixPath('/a/{k0}'), 'exception': lambda: ValueError('e{k0}'),
        'stringio': lambda: io.StringIO('line{k0}\n'), 'bytesio': lambda: io.BytesIO(b'x'),
        'simplenamespace': lambda: types.SimpleNamespace(a='x{k0}'), 'regex': lambda: _re.compile('a{1}'),
        'answers-everything': _AnswersEverything,
        'liar-int': lambda: _liar(int), 'liar-object': lambda: _liar(object), 'liar-float': lambda: _liar(float),
        'liar-almost': lambda: _liar(almost_class(7, 'iterable')),
    }


_ALMOST_KINDS = None


def almost_kinds():
    """name -> factory of a fresh object"""
    global _ALMOST_KINDS
    if _ALMOST_KINDS is None:
        k = {}
        for mask in range(32):
            for ctor in ALMOST_CTORS:
                k[f'methods:{mask}:{ctor}'] = (lambda m=mask, c=ctor: _almost_new(almost_class(m, c)))
        for reg in ('Sequence', 'Set', 'Mapping', 'Collection', 'Iterable', 'Sized', 'Container', 'Reversible'):
            for ctor in ('iterable', 'noarg'):
                k[f'registered:{reg}:{ctor}'] = (lambda r=reg, c=ctor: _almost_new(almost_class(31, c, register=r)))
        for base in (int, float):
            k[f'methods:7:iterable:{base.__name__}'] = (lambda b=base: _almost_sub(b))
        k.update({'lib:' + n: f for n, f in _library_kinds().items()})
        _ALMOST_KINDS = k
    return _ALMOST_KINDS


def _almost_sub(base):
    """an int / float subclass that is sized, iterable and supports `in`"""
    key = ('sub', base.__name__)
    if key not in _ALMOST_CLASSES:
        def touch_len(self):
            ALMOST_COUNTS['touched'] += 1
            return 1

        def touch_iter(self):
            ALMOST_COUNTS['touched'] += 1
            return iter(())

        def touch_in(self, x):
            ALMOST_COUNTS['touched'] += 1
            return False
        _ALMOST_CLASSES[key] = type('Sized' + base.__name__.capitalize(), (base,),
                                    {'__len__': touch_len, '__iter__': touch_iter, '__contains__': touch_in})
    return _ALMOST_CLASSES[key](3)


ALMOST_PLACES = ('top', 'list', 'tuple', 'dictval', 'deep', 'twice', 'ctx', 'ctx-rf', 'ctx-ff', 'ctx-member', 'setmember',
                 'dictkey', 'frozenset', 'in-jsonify-sibling')


def almost_tags(o):
    """what `isinstance` says about `o` against the classes of the routing table - asked of the real classes here,
    not of the formatter"""
    return {'passthrough': False, 'special': is_special(o), 'str': isinstance(o, str),
            'bytes': isinstance(o, (bytes, bytearray)), 'mapping': isinstance(o, Mapping),
            'sequence': isinstance(o, Sequence), 'set': isinstance(o, Set)}


def almost_place(place, o):
    """(value, context dict, getter: result -> the objects found where `o` was, control: result -> failure text|None)"""
    ctx = {'k0': 'v0'}

    def hashable():
        try:
            hash(o)
            return True
        except Exception:
            return False
    if place == 'top':
        return o, ctx, (lambda r: [r]), (lambda r: None)
    if place == 'list':
        return ['a{k0}', o, 2], ctx, (lambda r: [r[1]]), (lambda r: None if r[0] == 'av0' and r[2] == 2 and type(r) is list and len(r) == 3 else f'list came back as {r!r}')
    if place == 'tuple':
        return (o, 'a{k0}'), ctx, (lambda r: [r[0]]), (lambda r: None if type(r) is tuple and len(r) == 2 and r[1] == 'av0' else f'tuple came back as {r!r}')
    if place == 'dictval':
        return {'k{k0}': o, 'p': 'a{k0}'}, ctx, (lambda r: [r['kv0']]), (lambda r: None if list(r) == ['kv0', 'p'] and r['p'] == 'av0' else f'dict came back as {r!r}')
    if place == 'deep':
        v = {'k{k0}': [o, 'v{k0}', (o, 1.5)], 'plain': o}
        return v, ctx, (lambda r: [r['kv0'][0], r['kv0'][2][0], r['plain']]), (lambda r: None if list(r) == ['kv0', 'plain'] and r['kv0'][1] == 'vv0' and r['kv0'][2][1] == 1.5 else f'came back as {r!r}')
    if place == 'twice':
        inner = [o, 'a{k0}']
        return [inner, inner, o], ctx, (lambda r: [r[0][0], r[1][0], r[2]]), (lambda r: None if r[0][1] == 'av0' and r[0] is r[1] else f'shared list came back as {r!r}')
    if place in ('ctx', 'ctx-rf', 'ctx-ff'):
        ctx['lf'] = o
        return '{lf' + place[3:].replace('-', ':') + '}', ctx, (lambda r: [r]), (lambda r: None)
    if place == 'ctx-member':
        ctx['lf'] = [o, 'a{k0}']
        return ['{lf:rf}', 'b'], ctx, (lambda r: [r[0][0]]), (lambda r: None if r[0][1] == 'av0' and r[1] == 'b' else f'came back as {r!r}')
    if place in ('setmember', 'frozenset', 'dictkey'):
        if not hashable():
            return None
        if place == 'dictkey':
            return {o: 'a{k0}', 'b': 1}, ctx, (lambda r: [k for k in r if k != 'b']), (lambda r: None if len(r) == 2 and r.get('b') == 1 and 'av0' in r.values() else f'dict came back as {r!r}')
        cls = set if place == 'setmember' else frozenset
        return cls([o, 'a{k0}']), ctx, (lambda r: [x for x in r if x != 'av0']), (lambda r: None if type(r) is cls and len(r) == 2 and 'av0' in r else f'set came back as {r!r}')
    if place == 'in-jsonify-sibling':
        from pypyr.dsl import Jsonify
        return [Jsonify({'a': 'x{k0}'}), o], ctx, (lambda r: [r[1]]), (lambda r: None if r[0] == '{"a": "xv0"}' else f'came back as {r!r}')
    raise ValueError(place)


def almost_state(o):
    """what must be the same before and after, read without calling any counted method"""
    import inspect
    import operator
    if inspect.isgenerator(o):
        return ('gen', inspect.getgeneratorstate(o))
    d = getattr(o, '__dict__', None) if not isinstance(o, type) else None
    if isinstance(d, dict) and 'items_' in d:
        return ('almost', [repr(x) for x in d['items_']], d.get('owner'))
    if isinstance(d, dict) and 'owner' in d:
        return ('owner', d['owner'])
    if type(o).__name__.endswith('iterator') or type(o) in (map, zip, enumerate, reversed):
        try:
            return ('hint', operator.length_hint(o, -1))
        except Exception:
            return None
    return None


def run_almost(case, branch, entry='context'):
    """-> (obs, fails). `branch`: what the Lean routing table says for almost_tags of the object."""
    try:
        with time_limit(CASE_SECONDS):
            return _run_almost(case, branch, entry)
    except CaseTimeout:
        return ({'err': 'Timeout'}, [('hang', f'formatting did not return within {CASE_SECONDS}s')])


def _run_almost(case, branch, entry):
    from pypyr.context import Context
    o = almost_kinds()[case['kind']]()
    placed = almost_place(case['place'], o)
    if placed is None:
        return None, []
    value, ctxd, getter, control = placed
    ctx = Context(ctxd)
    fmtcall = formatter_of(ctx, entry)
    state = almost_state(o)
    ident = f'{type(o).__name__} object ({case["kind"]})'
    ALMOST_COUNTS['made'] = ALMOST_COUNTS['touched'] = 0
    try:
        res, err = fmtcall(value), None
    except Exception as e:
        res, err = None, e
    made, touched = ALMOST_COUNTS['made'], ALMOST_COUNTS['touched']
    for c in _ALMOST_CLASSES.values():
        if hasattr(c, 'armed'):
            c.armed = False
    fails = []
    leafy = branch in ('leaf', 'bytesLeaf', 'passthrough')
    if leafy:
        # "non-string leaves (numbers, booleans, None, bytes, arbitrary objects) come through as the identical objects"
        if err is not None:
            fails.append(('leaf-raises', f'formatting a value holding the non-string leaf {ident} at `{case["place"]}` raised '
                                         f'{type(err).__name__}: {err}'))
        else:
            got = getter(res)
            bad = [g for g in got if g is not o]
            if bad or not got:
                fails.append(('leaf-replaced', f'the non-string leaf {ident} at `{case["place"]}` did not come through as the '
                                               f'identical object: got {[type(g).__name__ for g in got]} '
                                               f'{[repr(g)[:60] for g in bad]}'))
            f = control(res)
            if f:
                fails.append(('shape', f'around the leaf {ident}: {f}'))
        if made:
            fails.append(('leaf-constructor-called', f'formatting called the constructor of the leaf {ident} {made} time(s)'))
        if touched:
            fails.append(('leaf-evaluated', f'formatting called {touched} container-like method(s) (__len__ / __iter__ / '
                                            f'__contains__ / __getitem__ / keys) of the leaf {ident}'))
        if almost_state(o) != state:
            fails.append(('leaf-mutated', f'the state of the leaf {ident} changed: {state} -> {almost_state(o)}'))
        obs = {'err': exc_name(err)} if err is not None else {'same': not fails or all(m not in ('leaf-replaced',) for m, _ in fails)}
        return obs, fails
    # routed to a container / string / special branch: the general monitors judge it
    if err is not None:
        if py_brace_free(value):
            fails.append(('bracefree-raises', f'formatting a brace-free value raised {type(err).__name__}: {err}'))
        return {'err': exc_name(err)}, fails
    try:
        f = shape_monitor(value, res, fmt=fmtcall, ctx=ctx)
    except RecursionError:
        f = None
    if f:
        fails.append(('shape', f))
    got = getter(res)
    return {'same': bool(got) and all(g is o for g in got)}, fails


def almost_directed_cases():
    return [{'stream': 'almost', 'kind': k, 'place': p} for k in almost_kinds() for p in ALMOST_PLACES]
