"""Directed families of flow programs with expectations computed *from the property text*,
independently of the Lean interpreter model (closed forms / tiny special-purpose oracles).

Each family yields (prog, expect, meta). `expect` names only the observables the property
fixes for that program:
  tags      [tag]                       probe events in order (by tag)
  events    [(tag, i, w, r)]            events with counters (None = don't care, MISSING = absent)
  outcome   'ok' | ('err', name)        how the run ends for the API caller
  err_msg   str                         message of the escaping error
  nerr      int                         len(runErrors) in the final context (0 = absent or empty)
  entries   [dict]                      expected runErrors entries (subset of fields)
  sleeps    [float]                     durations slept, in order
  ctx_has   {k: wire}  ctx_lacks [k]    final context assertions
`judge(expect, obs)` returns a list of human-readable breaches.
"""
from __future__ import annotations

import itertools
import json

from .flowgen import D, LAYOUTS, P, pycmp, pyname

MISSING = {'missing': 1}
ANY = object()


def probe(tag, **kw):
    return {'name': 'vprobe', 'in': [['p', P(tag, **kw)]]}


def prog_of(groups, run=None, children=None, ctx=None, **runkw):
    pipes = [{'name': 'main', 'groups': groups}]
    for name, g in (children or {}).items():
        pipes.append({'name': name, 'groups': g} if isinstance(g, list) else dict(g, name=name))
    r = {'name': 'main'}
    if ctx is not None:
        r['dict_in'] = D(**ctx)
    r.update(run or {})
    r.update(runkw)
    return {'pipes': pipes, 'run': r, 'rnd': []}


def cover_first(cases, *keys):
    """Reorder (stable): cases that show a not-yet-seen value of one of the key functions come first, so
    that a short prefix of a shuffled family already covers every value of every listed dimension."""
    seen, head, tail = set(), [], []
    for c in cases:
        ks = [(n, json.dumps(k(c), sort_keys=True, default=str)) for n, k in enumerate(keys)]
        if any(x not in seen for x in ks):
            seen.update(ks)
            head.append(c)
        else:
            tail.append(c)
    return head + tail


def with_layout(prog, lay):
    if lay is not None:
        for pipe in prog['pipes']:
            pipe['layout'] = dict(lay)
    return prog


# --------------------------------------------------------------------------
# judge
# --------------------------------------------------------------------------

def run_errors_of(obs):
    ctx = obs.get('ctx')
    if not ctx or 'd' not in ctx:
        return []
    for k, v in ctx['d']:
        if k == 'runErrors' and isinstance(v, list):
            return [dict((a, b) for a, b in e['d']) if isinstance(e, dict) and 'd' in e else e for e in v]
    return []


def ctx_get(obs, key):
    ctx = obs.get('ctx')
    if not ctx or 'd' not in ctx:
        return MISSING
    for k, v in ctx['d']:
        if k == key:
            return v
    return MISSING


def judge(expect, obs):
    out = []
    trace = obs.get('trace', [])
    if 'tags' in expect:
        got = [e['tag'] for e in trace]
        if got != expect['tags']:
            out.append(f"probe events {got} but the property requires {expect['tags']}")
    if 'events' in expect:
        got = [(e['tag'], e['i'], e['w'], e['r']) for e in trace]
        exp = expect['events']
        ok = len(got) == len(exp) and all(
            g[0] == x[0] and all(x[j] is ANY or g[j] == x[j] for j in (1, 2, 3)) for g, x in zip(got, exp))
        if not ok:
            out.append(f'events (tag,i,w,r) {got} but the property requires '
                       f'{[tuple("*" if y is ANY else y for y in x) for x in exp]}')
    if 'events_of' in expect:
        tg = expect['events_of']['tag']
        got = [(e['tag'], e['i'], e['w'], e['r']) for e in trace if e['tag'] == tg]
        exp = expect['events_of']['events']
        ok = len(got) == len(exp) and all(
            g[0] == x[0] and all(x[j] is ANY or g[j] == x[j] for j in (1, 2, 3)) for g, x in zip(got, exp))
        if not ok:
            out.append(f'events (tag,i,w,r) of {tg} are {got} but the property requires '
                       f'{[tuple("*" if y is ANY else y for y in x) for x in exp]}')
    if 'outcome' in expect:
        oc = obs.get('outcome')
        exp = expect['outcome']
        if exp == 'ok':
            if oc != 'ok':
                out.append(f'run must report success but ended with {oc}')
            elif obs.get('returned_ctx') is False:
                out.append('run reported success but did not return the context')
        else:
            name = oc['err']['name'] if isinstance(oc, dict) and 'err' in oc else None
            if exp[1] is ANY:
                if name is None:
                    out.append(f'caller must receive an error but got {oc}')
            elif name != exp[1]:
                out.append(f'caller must receive {exp[1]} but got {oc}')
            elif 'err_msg' in expect and oc['err'].get('msg') != expect['err_msg']:
                out.append(f"caller must receive the original error '{expect['err_msg']}' but got "
                           f"'{oc['err'].get('msg')}'")
    res = run_errors_of(obs)
    if 'nerr' in expect and len(res) != expect['nerr']:
        out.append(f"runErrors has {len(res)} entries but the property requires {expect['nerr']}")
    if 'entries' in expect:
        exp = expect['entries']
        if len(res) != len(exp):
            out.append(f'runErrors has {len(res)} entries, expected {len(exp)}')
        else:
            for n, (g, x) in enumerate(zip(res, exp)):
                for k, v in x.items():
                    if g.get(k) != v:
                        out.append(f'runErrors[{n}].{k} = {g.get(k)!r}, expected {v!r}')
            ids = [json.dumps(g.get('exception')) for g in res]
            if len(set(ids)) != len(ids):
                out.append('an exception object is recorded twice in runErrors')
    if 'sleeps' in expect and list(obs.get('sleeps', [])) != [float(x) for x in expect['sleeps']]:
        out.append(f"slept {obs.get('sleeps')} but the property requires {expect['sleeps']}")
    if 'sleep_bounds' in expect:
        got = list(obs.get('sleeps', []))
        b = expect['sleep_bounds']
        if len(got) != len(b) or any(not (lo <= g <= hi) for g, (lo, hi) in zip(got, b)):
            out.append(f'slept {got}, outside the required bounds {b}')
    if 'after_event' in expect:
        x = expect['after_event']
        last = next((e for e in reversed(trace) if e['tag'] == x[0]), None)
        if last is None:
            out.append(f'step {x[0]} after the call never ran')
        else:
            g = (last['tag'], last['i'], last['w'], last['r'])
            if any(x[j] is not ANY and g[j] != x[j] for j in (1, 2, 3)):
                out.append(f'after the call step the counters (i, whileCounter, retryCounter) are {g[1:]}, '
                           f'the caller\'s are {tuple("*" if y is ANY else y for y in x[1:])}')
            kk = dict((k, v) for k, v in last['keys'])
            if 'call' in kk and kk['call'] == MISSING and False:
                out.append('call configuration missing after the call')
    if 'first_keys' in expect and trace:
        kk = dict((k, v) for k, v in trace[0]['keys'])
        for k, v in expect['first_keys'].items():
            if kk.get(k) != v:
                out.append(f'in-argument {k!r} seen by the body as {kk.get(k)!r}, expected {v!r}')
    if 'after_keys_missing' in expect:
        last = next((e for e in reversed(trace) if e['tag'] == 'AFTER'), None)
        if last is not None:
            kk = dict((k, v) for k, v in last['keys'])
            for k in expect['after_keys_missing']:
                if kk.get(k) != MISSING:
                    out.append(f'in-argument {k!r} still in context after the step completed: {kk.get(k)!r}')
    for k, v in (expect.get('ctx_has') or {}).items():
        if ctx_get(obs, k) != v:
            out.append(f'final context[{k!r}] = {ctx_get(obs, k)!r}, expected {v!r}')
    for k in expect.get('ctx_lacks') or []:
        if ctx_get(obs, k) != MISSING:
            out.append(f'final context still has key {k!r} = {ctx_get(obs, k)!r}')
    return out


# --------------------------------------------------------------------------
# C01 (+ C02 stop family): straight-line pipelines, independent oracle
# --------------------------------------------------------------------------

def straight_oracle(groups, run):
    """Declarative semantics of C01/C02 for straight-line groups.
    Steps: ('ok', tag) | ('fail', tag, errname, swallow) | ('stop'|'stoppipeline'|'stopstepgroup',) |
           ('skip', tag)  (run: False / skip: True: never executes)."""
    gmap = dict(groups)
    req, succ, fail = run.get('groups'), run.get('success'), run.get('failure')
    if not req:
        req = ['steps']
        if not succ and not fail:
            succ, fail = 'on_success', 'on_failure'
    tags, nerr = [], [0]

    def run_group(name):
        """-> ('ok',) | ('err', name, msg) | ('stop',) | ('stoppipeline',) | ('stopstepgroup',)"""
        for st in gmap.get(name) or []:
            kind = st[0]
            if kind == 'skip':
                continue
            if kind == 'ok':
                tags.append(st[1])
            elif kind == 'fail':
                tags.append(st[1])
                nerr[0] += 1
                if not st[3]:
                    return ('err', st[2], 'boom ' + st[1])
            else:
                return (kind,)
        return ('ok',)

    def main():
        for g in req:
            r = run_group(g)
            if r[0] == 'stopstepgroup':
                continue
            if r[0] != 'ok':
                return r
        if succ:
            r = run_group(succ)
            if r[0] not in ('ok', 'stopstepgroup'):
                return r
        return ('ok',)
    r = main()
    if r[0] == 'err' and fail:
        h = run_group(fail)
        if h[0] == 'stopstepgroup':
            r = ('ok',)
        elif h[0] in ('stop', 'stoppipeline'):
            r = h
    outcome = ('err', r[1]) if r[0] == 'err' else 'ok'
    exp = {'tags': tags, 'outcome': outcome, 'nerr': nerr[0]}
    if r[0] == 'err':
        exp['err_msg'] = r[2]
    return exp


def render_straight(groups):
    out = []
    for name, steps in groups:
        ss = []
        for st in steps:
            if st[0] == 'ok':
                ss.append(probe(st[1]))
            elif st[0] == 'skip':
                s = probe(st[1])
                s.update(st[2])
                ss.append(s)
            elif st[0] == 'fail':
                s = probe(st[1], failRest=st[2])
                if st[3]:
                    s['swallow'] = True
                ss.append(s)
            else:
                ss.append('pypyr.steps.' + st[0])
        out.append([name, ss])
    return out


RUN_PATTERNS = [
    {}, {'groups': ['steps']}, {'groups': ['steps', 'g1']}, {'groups': ['g1', 'steps']},
    {'success': 'on_success'}, {'failure': 'on_failure'}, {'groups': ['steps'], 'failure': 'on_failure'},
    {'groups': ['steps', 'g1'], 'success': 'on_success', 'failure': 'on_failure'},
    {'success': 'g1', 'failure': 'g1'}, {'groups': ['steps'], 'success': 'on_success'},
    {'groups': ['nogroup', 'steps'], 'failure': 'on_failure'},
]


def c01_family(rng, n):
    """Every placement of one event (failure / swallowed failure / stop instruction / skip) in a small
    pipeline x handler variants x argument patterns; then random straight-line pipelines."""
    cases = []
    errs = ['ValueError', 'vprobe.ProbeError', 'RuntimeError']
    handlers = {
        'none': None,
        'ok': [('ok', 'h1'), ('ok', 'h2')],
        'fails': [('ok', 'h1'), ('fail', 'h2', 'TypeError', False), ('ok', 'h3')],
        'stopgroup': [('ok', 'h1'), ('stopstepgroup',), ('ok', 'h3')],
        'stop': [('stop',), ('ok', 'h2')],
        'stoppipeline': [('ok', 'h1'), ('stoppipeline',)],
    }
    specials = [('fail', None, 'E', False), ('fail', None, 'E', True), ('stop',), ('stoppipeline',),
                ('stopstepgroup',), ('skip', None, {'run': False}), ('skip', None, {'skip': True})]
    for gi, si in itertools.product(range(3), range(3)):
        for sp in specials:
            for hname, h in handlers.items():
                groups = {}
                for g, gname in enumerate(['steps', 'g1', 'on_success']):
                    steps = []
                    for k in range(3):
                        tag = f'{gname}{k}'
                        if g == gi and k == si:
                            if sp[0] == 'fail':
                                steps.append(('fail', tag, errs[(gi + si) % 3], sp[3]))
                            elif sp[0] == 'skip':
                                steps.append(('skip', tag, sp[2]))
                            else:
                                steps.append(sp)
                        else:
                            steps.append(('ok', tag))
                    groups[gname] = steps
                if h is not None:
                    groups['on_failure'] = h
                cases.append((list(groups.items()), hname))
    rng.shuffle(cases)
    for idx, (groups, hname) in enumerate(cases[:n]):
        run = RUN_PATTERNS[idx % len(RUN_PATTERNS)]
        yield (prog_of(render_straight(groups), run=dict(run), ctx={'k': 'v'}),
               straight_oracle(groups, run), {'family': 'c01-straight', 'handler': hname})


def c01_random_straight(rng, n):
    errs = ['ValueError', 'vprobe.ProbeError', 'RuntimeError', 'vprobe.OtherError']
    for idx in range(n):
        groups = []
        tagn = 0
        for gname in ['steps', 'g1', 'g2', 'on_success', 'on_failure']:
            if gname != 'steps' and rng.random() < 0.3:
                continue
            steps = []
            for _ in range(rng.randint(0, 5)):
                tagn += 1
                tag = f'{gname}.{tagn}'
                x = rng.random()
                if x < 0.6:
                    steps.append(('ok', tag))
                elif x < 0.78:
                    steps.append(('fail', tag, rng.choice(errs), rng.random() < 0.4))
                elif x < 0.86:
                    steps.append(('skip', tag, rng.choice([{'run': False}, {'skip': True}, {'run': 'false'},
                                                            {'skip': 'TRUE'}, {'run': 0}])))
                else:
                    steps.append((rng.choice(['stop', 'stoppipeline', 'stopstepgroup']),))
            groups.append((gname, steps))
        run = {}
        if rng.random() < 0.5:
            run['groups'] = rng.choice([['steps'], ['steps', 'g1'], ['g1', 'g2', 'steps'], ['g2'], []])
            if not run['groups']:
                del run['groups']
        if rng.random() < 0.4:
            run['success'] = rng.choice(['on_success', 'g1', 'nogroup'])
        if rng.random() < 0.4:
            run['failure'] = rng.choice(['on_failure', 'g2', 'nogroup'])
        yield (prog_of(render_straight(groups), run=dict(run), ctx={'k': 'v'}),
               straight_oracle(groups, run), {'family': 'c01-random-straight'})


# what can stand under a failure group's name instead of a sequence of steps (yaml slips), and sequences
# whose items are no steps. {'scalar': v} = a body that is no sequence; {'item': v} = an item that is
# neither a step name nor a step mapping.
MALFORMED_BODIES = {
    'int': {'scalar': 42}, 'zero': {'scalar': 0}, 'float': {'scalar': {'f': [3, 1]}}, 'true': {'scalar': True},
    'false': {'scalar': False}, 'str': {'scalar': 'zq'}, 'empty-str': {'scalar': ''},
    'mapping': {'scalar': D(nomodule_k=1, other=2)}, 'empty-mapping': {'scalar': D()},
    'int-key-mapping': {'scalar': {'d': [[1, 2]]}}, 'py-scalar': {'scalar': {'py': {'c': 1}}},
    'sic-scalar': {'scalar': {'sic': 'x'}},
    'null': None, 'empty-list': [],
    'item-int': [{'item': 1}], 'item-null': [{'item': None}], 'item-list': [{'item': [1, 2]}],
    'item-float': [{'item': {'f': [1, 1]}}], 'item-bool': [{'item': True}], 'item-empty-str': [''],
    'item-nameless-mapping': [{'in': [['a', 1]]}], 'item-name-int': [{'name': 5}],
    'item-name-list': [{'name': [1]}], 'item-name-zero': [{'name': 0, 'in': [['a', 1]]}],
    'item-unknown-module': ['nomodule.h'],
    'step-then-item': [probe('H1'), {'item': 3}, probe('H2')],
    'step-then-str-step': [probe('H1'), 'nomodule.h', probe('H2')],
}


def c01_malformed_failure_family(rng, n):
    """A step fails; the failure group is malformed in each way. Whatever goes wrong while the failure group
    is looked up or run is an error 'raised inside the failure group': the caller receives the ORIGINAL
    error. Positions: the pipeline's own on_failure, a failure group named by the run arguments, the
    `failure` of a call / jump step, the on_failure of a child pipeline."""
    errs = ['ValueError', 'vprobe.ProbeError', 'RuntimeError']
    cases = []
    for bname in MALFORMED_BODIES:
        for where in ('on_failure', 'run-arg', 'call', 'jump', 'child', 'call-str-name'):
            for at in (0, 1, 2):
                cases.append((bname, where, at))
    rng.shuffle(cases)
    cases = cover_first(cases, lambda c: c[0], lambda c: c[1])
    for idx, (bname, where, at) in enumerate(cases[:n]):
        body = json.loads(json.dumps(MALFORMED_BODIES[bname]))
        handler_tags = ['H1'] if bname.startswith('step-then') else []
        err = errs[idx % 3]
        main = [probe(f's{k}', failRest=err) if k == at else probe(f's{k}') for k in range(3)]
        ran = [f's{k}' for k in range(at + 1)]
        children = {}
        if where == 'on_failure':
            groups = [['steps', main], ['on_success', [probe('OS')]], ['on_failure', body]]
            run, tags = {}, ran + handler_tags
        elif where == 'run-arg':
            groups = [['steps', main], ['on_success', [probe('OS')]], ['hf', body], ['on_failure', [probe('WRONG')]]]
            run, tags = {'failure': 'hf'}, ran + handler_tags
        elif where in ('call', 'jump', 'call-str-name'):
            cfg = D(groups=['sg'], success='sgs', failure='sgf')
            cs = {'name': 'pypyr.steps.' + ('jump' if where == 'jump' else 'call'),
                  'in': [['jump' if where == 'jump' else 'call', cfg]]}
            groups = [['steps', [probe('A'), cs, probe('B')]], ['sg', main], ['sgs', [probe('SGS')]], ['sgf', body],
                      ['on_success', [probe('OS')]], ['on_failure', [probe('OF')]]]
            # the original error then leaves the calling step and reaches the pipeline's own failure group
            run, tags = {}, ['A'] + ran + handler_tags + ['OF']
        else:
            children['child'] = [['steps', main], ['on_success', [probe('COS')]], ['on_failure', body]]
            groups = [['steps', [probe('A'), {'name': 'pypyr.steps.pype', 'in': [['pype', D(name='child')]]},
                                 probe('B')]], ['on_success', [probe('OS')]], ['on_failure', [probe('OF')]]]
            run, tags = {}, ['A'] + ran + handler_tags + ['OF']
        exp = {'tags': tags, 'outcome': ('err', err), 'err_msg': f'boom s{at}'}
        yield (prog_of(groups, run=run, children=children, ctx={'k': 'v'}), exp,
               {'family': 'c01-malformed-failure-group', 'body': bname, 'where': where})


NOOP_BODIES = ('empty-str', 'empty-mapping', 'null', 'empty-list')


def c01_malformed_group_family(rng, n):
    """The same malformed shapes where a requested group, the success group or a called / jumped-to group
    stands. Whatever error the shape provokes is an error of the main phase like any other: nothing after
    it runs, the failure group runs once, the caller receives that error (which error: model = code)."""
    cases = []
    for bname in MALFORMED_BODIES:
        for where in ('requested', 'success', 'call', 'jump'):
            cases.append((bname, where))
    rng.shuffle(cases)
    cases = cover_first(cases, lambda c: c[0], lambda c: c[1])
    for bname, where in cases[:n]:
        body = json.loads(json.dumps(MALFORMED_BODIES[bname]))
        inner = ['H1'] if bname.startswith('step-then') else []
        noop = bname in NOOP_BODIES
        if where == 'requested':
            groups = [['steps', [probe('A')]], ['bad', body], ['post', [probe('P')]], ['on_success', [probe('OS')]],
                      ['on_failure', [probe('OF')]]]
            run = {'groups': ['steps', 'bad', 'post'], 'success': 'on_success', 'failure': 'on_failure'}
            tags = ['A', 'P', 'OS'] if noop else ['A'] + inner + ['OF']
        elif where == 'success':
            groups = [['steps', [probe('A')]], ['on_success', body], ['on_failure', [probe('OF')]]]
            run = {}
            tags = ['A'] if noop else ['A'] + inner + ['OF']
        else:
            cs = {'name': 'pypyr.steps.' + where, 'in': [[where, 'bad']]}
            groups = [['steps', [probe('A'), cs, probe('B')]], ['bad', body], ['on_success', [probe('OS')]],
                      ['on_failure', [probe('OF')]]]
            run = {}
            if noop:
                tags = ['A', 'B', 'OS'] if where == 'call' else ['A', 'OS']
            else:
                tags = ['A'] + inner + ['OF']
        exp = {'tags': tags, 'outcome': 'ok' if noop else ('err', ANY)}
        yield (prog_of(groups, run=run, ctx={'k': 'v'}), exp,
               {'family': 'c01-malformed-group', 'body': bname, 'where': where})


# --------------------------------------------------------------------------
# C02: signal kind x raising position x decorators of the raising step and of the carrier
# --------------------------------------------------------------------------

TRANSPARENT = [('swallow', True), ('retry', {'max': 2}), ('foreach', ['a', 'b']), ('while', {'max': 2}),
               ('run', 'true'), ('skip', False)]
CARRIER_DECOS = [('swallow', True), ('retry', {'max': 3, 'sleep': 1}), ('foreach', ['x', 'y']),
                 ('while', {'max': 2})]


def subsets(xs, maxlen=None):
    for r in range(0, (maxlen if maxlen is not None else len(xs)) + 1):
        for c in itertools.combinations(xs, r):
            yield c


def carrier_iterations(decos):
    n = 1
    for k, _ in decos:
        if k in ('foreach', 'while'):
            n *= 2
    return n


def c02_family(rng, n):
    """position in {direct, success, failure, called1, called2, jumped, child_shared, child_own, grandchild}."""
    cases = []
    signals = ['stop', 'stoppipeline', 'stopstepgroup', 'jump']
    positions = ['direct', 'success', 'failure', 'called1', 'called2', 'jumped', 'child_shared', 'child_own',
                 'grandchild']
    for sig, pos in itertools.product(signals, positions):
        for sd in subsets(TRANSPARENT, 3):
            for cd in subsets(CARRIER_DECOS, 2):
                if pos in ('direct', 'success', 'failure') and cd:
                    continue
                cases.append((sig, pos, sd, cd))
    # two positions that need cooperating sites: the failure handler of a child whose context parser
    # failed, and a child with its own context whose `out` key does not exist yet when the signal is raised
    extra = []
    for sig in ('stop', 'stoppipeline'):
        for sd in subsets(TRANSPARENT, 1):
            for cd in subsets(CARRIER_DECOS, 1):
                extra.append((sig, 'parser_failure_child', sd, cd))
    for sig in signals:
        for sd in subsets(TRANSPARENT, 1):
            for cd in subsets(CARRIER_DECOS, 1):
                extra.append((sig, 'child_own_out', sd, cd))
    rng.shuffle(cases)
    rng.shuffle(extra)
    # the quick slice keeps a share of the cooperating-site positions
    k = min(len(extra), max(n // 6, 0))
    for sig, pos, sd, cd in extra[:k] + cases[:max(n - k, 0)]:
        yield c02_case(sig, pos, sd, cd)


def sigstep(sig, sd, target='jt'):
    st = {'name': 'pypyr.steps.' + sig}
    if sig == 'jump':
        st['in'] = [['jump', target]]
    for k, v in sd:
        st[k] = v
    return st


def c02_case(sig, pos, sd, cd):
    """Expected traces follow from the property: an instruction is never an error (no handler, no
    swallow, no retry, no runErrors) and unwinds exactly its scope."""
    S = sigstep(sig, sd)
    JT = ['jt', [probe('J')]]           # jump target
    iters = carrier_iterations(cd)
    carrier = {}
    for k, v in cd:
        carrier[k] = v
    children = {}
    groups = []
    meta = {'family': 'c02', 'signal': sig, 'position': pos, 'raiser_decorators': [k for k, _ in sd],
            'carrier_decorators': [k for k, _ in cd]}
    if pos == 'direct':
        groups = [['steps', [probe('A'), S, probe('D')]], ['on_success', [probe('OS')]],
                  ['on_failure', [probe('OF')]], JT]
        tags = {'stop': ['A'], 'stoppipeline': ['A'], 'stopstepgroup': ['A', 'OS'], 'jump': ['A', 'J', 'OS']}[sig]
    elif pos == 'success':
        groups = [['steps', [probe('A')]], ['on_success', [probe('B'), S, probe('D')]],
                  ['on_failure', [probe('OF')]], JT]
        tags = {'stop': ['A', 'B'], 'stoppipeline': ['A', 'B'], 'stopstepgroup': ['A', 'B'],
                'jump': ['A', 'B', 'J']}[sig]
    elif pos == 'failure':
        groups = [['steps', [probe('A'), probe('F', failRest='ValueError'), probe('N')]],
                  ['on_success', [probe('OS')]], ['on_failure', [probe('B'), S, probe('D')]], JT]
        tags = {'stop': ['A', 'F', 'B'], 'stoppipeline': ['A', 'F', 'B'], 'stopstepgroup': ['A', 'F', 'B'],
                'jump': ['A', 'F', 'B', 'J']}[sig]
        # only a Stop instruction of the handler turns the failure into a quiet end; a jump does not
        exp = {'tags': tags, 'outcome': ('err', 'ValueError') if sig == 'jump' else 'ok', 'nerr': 1}
        return prog_of(groups), exp, meta
    elif pos in ('called1', 'called2', 'jumped'):
        inner = [probe('C'), S, probe('D')]
        if pos == 'called1':
            cs = dict(carrier, name='pypyr.steps.call')
            cs['in'] = [['call', 'g']]
            groups = [['steps', [probe('A'), cs, probe('B')]], ['g', inner], ['on_success', [probe('OS')]],
                      ['on_failure', [probe('OF')]], JT]
            per = {'stop': ['C'], 'stoppipeline': ['C'], 'stopstepgroup': ['C'], 'jump': ['C', 'J']}[sig]
        elif pos == 'called2':
            cs = dict(carrier, name='pypyr.steps.call')
            cs['in'] = [['call', 'g0']]
            groups = [['steps', [probe('A'), cs, probe('B')]],
                      ['g0', [probe('C0'), {'name': 'pypyr.steps.call', 'in': [['call', 'g']]}, probe('D0')]],
                      ['g', inner], ['on_success', [probe('OS')]], ['on_failure', [probe('OF')]], JT]
            per = {'stop': ['C0', 'C'], 'stoppipeline': ['C0', 'C'], 'stopstepgroup': ['C0', 'C', 'D0'],
                   'jump': ['C0', 'C', 'J', 'D0']}[sig]
        else:
            cs = dict(carrier, name='pypyr.steps.call')
            cs['in'] = [['call', 'g0']]
            groups = [['steps', [probe('A'), cs, probe('B')]],
                      ['g0', [probe('C0'), {'name': 'pypyr.steps.jump', 'in': [['jump', 'g']]}, probe('D0')]],
                      ['g', inner], ['on_success', [probe('OS')]], ['on_failure', [probe('OF')]], JT]
            per = {'stop': ['C0', 'C'], 'stoppipeline': ['C0', 'C'], 'stopstepgroup': ['C0', 'C'],
                   'jump': ['C0', 'C', 'J']}[sig]
        if sig in ('stop', 'stoppipeline'):
            tags = ['A'] + per
        else:
            tags = ['A'] + per * iters + ['B', 'OS']
    elif pos == 'parser_failure_child':
        # the child's context parser fails; its failure handler issues the instruction. stop ends every
        # pipeline; stoppipeline ends only the child: the parent carries on with its next step.
        children['child'] = {'parser': 'vparser',
                             'groups': [['steps', [probe('C')]], ['on_success', [probe('COS')]],
                                        ['on_failure', [probe('CF'), S, probe('D')]]]}
        cs = dict(carrier, name='pypyr.steps.pype')
        cs['in'] = [['pype', D(name='child', pipeArg='FAIL')]]
        groups = [['steps', [probe('A'), cs, probe('B')]], ['on_success', [probe('OS')]],
                  ['on_failure', [probe('OF')]]]
        tags = ['A', 'CF'] if sig == 'stop' else ['A'] + ['CF'] * iters + ['B', 'OS']
    elif pos == 'child_own_out':
        # own context + out: after Stop the child did not complete, nothing is copied and the Stop is still
        # a Stop although the out key does not exist; the other instructions end normally -> out is copied
        first = probe('C') if sig == 'stop' else probe('C', set=D(res='r'))
        children['child'] = [['steps', [first, S, probe('D', set=D(res='late'))]], ['on_success', [probe('COS')]],
                             ['on_failure', [probe('COF')]], JT]
        cs = dict(carrier, name='pypyr.steps.pype')
        cs['in'] = [['pype', D(name='child', useParentContext=False, out='res')]]
        groups = [['steps', [probe('A'), cs, probe('B')]], ['on_success', [probe('OS')]],
                  ['on_failure', [probe('OF')]]]
        per = {'stop': ['C'], 'stoppipeline': ['C'], 'stopstepgroup': ['C', 'COS'], 'jump': ['C', 'J', 'COS']}[sig]
        tags = ['A'] + per if sig == 'stop' else ['A'] + per * iters + ['B', 'OS']
    else:
        inner = [probe('C'), S, probe('D')]
        cfg = {'name': 'child'}
        if pos in ('child_own', 'grandchild'):
            # (a nested pype on a shared context would pop the parent's own `pype` key: in-arguments
            #  are step-scoped, C04 - so the chain uses an own context at the first hop)
            cfg['useParentContext'] = False
        if pos == 'grandchild':
            children['child'] = [['steps', [probe('C0'), {'name': 'pypyr.steps.pype',
                                                          'in': [['pype', D(name='grand')]]}, probe('D0')]],
                                 ['on_success', [probe('COS')]]]
            children['grand'] = [['steps', inner], ['on_success', [probe('GOS')]], JT]
            per = {'stop': ['C0', 'C'], 'stoppipeline': ['C0', 'C', 'D0', 'COS'],
                   'stopstepgroup': ['C0', 'C', 'GOS', 'D0', 'COS'],
                   'jump': ['C0', 'C', 'J', 'GOS', 'D0', 'COS']}[sig]
        else:
            children['child'] = [['steps', inner], ['on_success', [probe('COS')]],
                                 ['on_failure', [probe('COF')]], JT]
            per = {'stop': ['C'], 'stoppipeline': ['C'], 'stopstepgroup': ['C', 'COS'],
                   'jump': ['C', 'J', 'COS']}[sig]
        cs = dict(carrier, name='pypyr.steps.pype')
        cs['in'] = [['pype', D(**cfg)]]
        groups = [['steps', [probe('A'), cs, probe('B')]], ['on_success', [probe('OS')]],
                  ['on_failure', [probe('OF')]]]
        if sig == 'stop':
            tags = ['A'] + per
        else:
            tags = ['A'] + per * iters + ['B', 'OS']
    exp = {'tags': tags, 'outcome': 'ok', 'nerr': 0}
    if not any(k == 'retry' for k, _ in cd):
        exp['sleeps_no_retry'] = True
    return prog_of(groups, children=children), exp, meta


# --------------------------------------------------------------------------
# C03: counters restored after call; jump abandons; switch first true
# --------------------------------------------------------------------------

# foreach item lists of a calling step. The caller's CURRENT item is what must be back in `i` once the call
# returned - whatever that item is: falsy values (None, 0, '', False, [], {}) are items like any other.
C03_ITEM_LISTS = [[10, 20], ['a', None], [None], [None, 'b'], [1, 0], ['x', ''], [True, False], [[1], []],
                  [D(a=1), D()], [0], [False, None, 0, '', [], D()]]


def c03_caller(caller, target):
    if caller == 'call':
        return {'name': 'pypyr.steps.call', 'in': [['call', target]]}
    return {'name': 'pypyr.steps.switch',
            'in': [['switch', [D(case=False, call='nogroup'), D(case=True, call=target), D(default='nogroup')]]]}


def c03_family(rng, n):
    cases = []
    clobbers = {
        'keep': [probe('K')],
        'set': [{'name': 'pypyr.steps.set', 'in': [['set', D(i='clob', whileCounter=99, retryCounter=77,
                                                            call='other', switch='other')]]}, probe('K')],
        'probe_set': [probe('K', set=D(i=[1], whileCounter=True, retryCounter=5))],
        'loops': [dict(probe('K'), foreach=[7, 8], **{'while': {'max': 3}}, retry={'max': 1})],
        'delete': [probe('K'), {'name': 'pypyr.steps.contextclear',
                                'in': [['contextClear', ['i', 'whileCounter', 'retryCounter', 'call', 'switch']]]}],
        'clearall': [probe('K'), 'pypyr.steps.contextclearall'],
        'nested_call': [probe('K'), {'name': 'pypyr.steps.call', 'in': [['call', 'g2']], 'foreach': [5, 6]}],
    }
    decos = [('foreach', None), ('while', {'max': 2, 'stop': pycmp('whileCounter', '>=', 2)}),
             ('retry', {'max': 2})]
    for cname, cl in clobbers.items():
        for dd in subsets(decos):
            if not dd:
                continue
            for depth in (1, 2):
                for caller in ('call', 'switch'):
                    for items in (C03_ITEM_LISTS if any(k == 'foreach' for k, _ in dd) else [None]):
                        cases.append((cname, cl, dd, depth, caller, items))
    rng.shuffle(cases)
    cases = cover_first(cases, lambda c: c[5], lambda c: c[0], lambda c: (c[4], c[3]),
                        lambda c: [k for k, _ in c[2]])
    for cname, cl, dd, depth, caller, items in cases[:n]:
        cs = c03_caller(caller, 'g1' if depth == 1 else 'g0')
        for k, v in dd:
            cs[k] = items if k == 'foreach' else v
        after = probe('AFTER', keys=['call', 'switch'])
        groups = [['steps', [cs, after]], ['g0', [{'name': 'pypyr.steps.call', 'in': [['call', 'g1']]}]],
                  ['g1', json.loads(json.dumps(cl))], ['g2', [probe('K2', set=D(i='deep'))]]]
        has = dict(dd)
        f_items = items if 'foreach' in has else [None]
        w_items = [1, 2] if 'while' in has else [None]
        # one callee entry per (while, foreach) iteration: the stop expression `whileCounter >= 2` is
        # evaluated on the *restored* counter, so exactly two while iterations happen
        entries = len(f_items) * len(w_items)
        k_per_entry = 6 if cname == 'loops' else 1
        tags = []
        for _ in range(entries):
            tags += ['K'] * k_per_entry
            if cname == 'nested_call':
                tags += ['K2', 'K2']
        tags.append('AFTER')
        # after the calling step: `i` is the caller's last item - whatever value that is
        ev_after = ('AFTER', items[-1] if 'foreach' in has else ANY, 2 if 'while' in has else ANY,
                    1 if 'retry' in has else ANY)
        exp = {'tags': tags, 'outcome': 'ok', 'nerr': 0, 'after_event': ev_after}
        yield prog_of(groups, ctx={'k': 'v'}), exp, {'family': 'c03-restore', 'clobber': cname,
                                                      'caller': caller, 'caller_decorators': sorted(has),
                                                      'depth': depth, 'items': json.dumps(items)}


def c03_midloop_family(rng, n):
    """The caller's counters are back after EVERY call, not only after the last iteration: the called group
    overwrites / removes the counters and then fails; the calling step's retry enters the called group a
    second time, whose first probe shows the counters the caller had - per foreach item and while round."""
    E = 'ValueError'
    clobbers = {
        'set': [{'name': 'pypyr.steps.set', 'in': [['set', D(i='clob', whileCounter=99, retryCounter=77)]]}],
        'loops': [dict(probe('L'), foreach=[7, 8], **{'while': {'max': 2}}, retry={'max': 1})],
        'delete': [{'name': 'pypyr.steps.contextclear', 'in': [['contextClear', ['i', 'whileCounter',
                                                                                  'retryCounter']]]}],
    }
    cases = []
    for items in C03_ITEM_LISTS:
        for with_while in (False, True):
            for cname in clobbers:
                for caller in ('call', 'switch'):
                    cases.append((items, with_while, cname, caller))
    rng.shuffle(cases)
    cases = cover_first(cases, lambda c: c[0], lambda c: (c[1], c[2], c[3]))
    for items, with_while, cname, caller in cases[:n]:
        ws = [1, 2] if with_while else [None]
        total = len(items) * len(ws)
        cs = c03_caller(caller, 'g1')
        cs['foreach'] = items
        cs['retry'] = {'max': 2}
        if with_while:
            cs['while'] = {'max': 2}
        callee = [probe('K')] + json.loads(json.dumps(clobbers[cname])) + [probe('X', fails=[E, None] * total)]
        groups = [['steps', [cs, probe('AFTER')]], ['g1', callee]]
        kev = []
        for w in ws:
            for x in items:
                kev += [('K', x, ANY if w is None else w, 1), ('K', x, ANY if w is None else w, 2)]
        exp = {'events_of': {'tag': 'K', 'events': kev}, 'outcome': 'ok', 'nerr': total,
               'after_event': ('AFTER', items[-1], 2 if with_while else ANY, 2)}
        yield prog_of(groups, ctx={'k': 'v'}), exp, {'family': 'c03-restore-midloop', 'clobber': cname,
                                                      'caller': caller, 'while': with_while,
                                                      'items': json.dumps(items)}


def c03_switch_family(rng, n):
    cases = []
    truth = {True: [True, 'true', 1, pyname('t1'), '{t1}'], False: [False, 'no', 0, pyname('f1'), '{f1}', None]}
    for pattern in itertools.product([True, False], repeat=3):
        for default in (False, True):
            for ncase in (1, 2, 3):
                cases.append((pattern[:ncase], default))
    rng.shuffle(cases)
    for pattern, default in cases[:n]:
        sw = []
        for k, t in enumerate(pattern):
            form = rng.choice(['str', 'list', 'dict'])
            call = {'str': f's{k}', 'list': [f's{k}'], 'dict': D(groups=[f's{k}'])}[form]
            sw.append(D(case=rng.choice(truth[t]), call=call))
        if default:
            sw.append(D(default='sd'))
        groups = [['steps', [probe('A'), {'name': 'pypyr.steps.switch', 'in': [['switch', sw]]}, probe('B')]]]
        for k in range(3):
            groups.append([f's{k}', [probe(f'S{k}')]])
        groups.append(['sd', [probe('SD')]])
        first = next((k for k, t in enumerate(pattern) if t), None)
        mid = [f'S{first}'] if first is not None else (['SD'] if default else [])
        yield (prog_of(groups, ctx={'t1': True, 'f1': False}),
               {'tags': ['A'] + mid + ['B'], 'outcome': 'ok', 'nerr': 0},
               {'family': 'c03-switch', 'pattern': list(pattern), 'default': default})


def c03_jump_family(rng, n):
    out = []
    for decos in subsets([('foreach', [1, 2]), ('while', {'max': 2}), ('swallow', True), ('retry', {'max': 2})], 2):
        for where in ('main', 'called'):
            js = {'name': 'pypyr.steps.jump', 'in': [['jump', D(groups=['t1', 't2'], success='ts')]]}
            for k, v in decos:
                js[k] = v
            if where == 'main':
                groups = [['steps', [probe('A'), js, probe('B')]], ['t1', [probe('T1')]], ['t2', [probe('T2')]],
                          ['ts', [probe('TS')]], ['on_success', [probe('OS')]]]
                tags = ['A', 'T1', 'T2', 'TS', 'OS']
            else:
                groups = [['steps', [probe('A'), {'name': 'pypyr.steps.call', 'in': [['call', 'g']]}, probe('B')]],
                          ['g', [probe('C'), js, probe('D')]], ['t1', [probe('T1')]], ['t2', [probe('T2')]],
                          ['ts', [probe('TS')]], ['on_success', [probe('OS')]]]
                tags = ['A', 'C', 'T1', 'T2', 'TS', 'B', 'OS']
            out.append((prog_of(groups), {'tags': tags, 'outcome': 'ok', 'nerr': 0},
                        {'family': 'c03-jump', 'where': where, 'decorators': [k for k, _ in decos]}))
    rng.shuffle(out)
    yield from out[:n]


# --------------------------------------------------------------------------
# C04: per-iteration run/skip/swallow, in-arguments
# --------------------------------------------------------------------------

def c04_family(rng, n):
    out = []
    items = [1, 2, 3, 4]
    for sel in subsets(items):
        sel = list(sel)
        # run true exactly for the selected items, decided per iteration by a !py expression on i
        for mode in ('run', 'skip'):
            expr = {'py': {'op': 'in', 'a': {'n': 'i'}, 'b': {'n': 'sel'}}}
            st = probe('P')
            st['foreach'] = items
            if mode == 'run':
                st['run'] = expr
                ran = [x for x in items if x in sel]
            else:
                st['skip'] = expr
                ran = [x for x in items if x not in sel]
            exp = {'events': [('P', x, ANY, ANY) for x in ran], 'outcome': 'ok', 'nerr': 0}
            out.append((prog_of([['steps', [st]]], ctx={'sel': sel}), exp,
                        {'family': 'c04-per-iteration', 'mode': mode, 'selected': sel}))
    # the same with a `description` on the step (pypyr then evaluates run/skip once up front, only to word its
    # notification): the decision is still taken per iteration. `i` / `whileCounter` are left stale by an
    # earlier loop step, so the up-front value differs from the per-iteration values.
    for sel in ([2, 4], [1], [1, 2, 3, 4], [3]):
        for mode in ('run', 'skip'):
            for loop in ('foreach', 'while'):
                name = 'i' if loop == 'foreach' else 'whileCounter'
                expr = {'py': {'op': 'in', 'a': {'n': name}, 'b': {'n': 'sel'}}}
                pre = probe('PRE')
                pre[loop] = [9] if loop == 'foreach' else {'max': 1}
                st = probe('P')
                st['description'] = 'described step'
                st[loop] = items if loop == 'foreach' else {'max': 4}
                st[mode] = expr
                stale = 9 if loop == 'foreach' else 1
                ran = [x for x in items if (x in sel) == (mode == 'run')]
                if loop == 'foreach':
                    ev = [('PRE', 9, ANY, ANY)] + [('P', x, ANY, ANY) for x in ran]
                else:
                    ev = [('PRE', ANY, 1, ANY)] + [('P', ANY, x, ANY) for x in ran]
                out.append((prog_of([['steps', [pre, st]]], ctx={'sel': sel}),
                            {'events': ev, 'outcome': 'ok', 'nerr': 0},
                            {'family': 'c04-per-iteration-described', 'mode': mode, 'loop': loop, 'selected': sel,
                             'stale': stale}))
    # ... and when the loop variable does not exist at all before the loop (fix c7066aa: the up-front evaluation
    # for the notification must not fail the step)
    for sel in ([2, 4], [1]):
        for mode in ('run', 'skip'):
            for loop in ('foreach', 'while'):
                name = 'i' if loop == 'foreach' else 'whileCounter'
                st = probe('P')
                st['description'] = 'described step'
                st[loop] = items if loop == 'foreach' else {'max': 4}
                st[mode] = {'py': {'op': 'in', 'a': {'n': name}, 'b': {'n': 'sel'}}}
                ran = [x for x in items if (x in sel) == (mode == 'run')]
                ev = [('P', x, ANY, ANY) if loop == 'foreach' else ('P', ANY, x, ANY) for x in ran]
                if loop == 'while':
                    # whileCounter is set to 0 before the loop starts in any case? no: the preview runs first
                    pass
                out.append((prog_of([['steps', [st]]], ctx={'sel': sel}),
                            {'events': ev, 'outcome': 'ok', 'nerr': 0},
                            {'family': 'c04-per-iteration-described', 'mode': mode, 'loop': loop, 'selected': sel,
                             'stale': None, 'site': 'run_step.description-preview'}))
    # the decision changes because the body itself changes the input between iterations
    st = probe('Q', set=D(go=False))
    st['foreach'] = [1, 2, 3]
    st['run'] = '{go}'
    out.append((prog_of([['steps', [st]]], ctx={'go': True}),
                {'events': [('Q', 1, ANY, ANY)], 'outcome': 'ok'}, {'family': 'c04-body-flips-run'}))
    # swallow decided per iteration, after the body
    for swsel in subsets([1, 2, 3]):
        st = probe('F', failRest='ValueError')
        st['foreach'] = [1, 2, 3]
        st['swallow'] = {'py': {'op': 'in', 'a': {'n': 'i'}, 'b': {'n': 'sel'}}}
        ran, outcome = [], 'ok'
        for x in [1, 2, 3]:
            ran.append(x)
            if x not in swsel:
                outcome = ('err', 'ValueError')
                break
        out.append((prog_of([['steps', [st, probe('NEXT')]]], ctx={'sel': list(swsel)}),
                    {'events': [('F', x, ANY, ANY) for x in ran] + ([('NEXT', ANY, ANY, ANY)] if outcome == 'ok' else []),
                     'outcome': outcome, 'nerr': len(ran)},
                    {'family': 'c04-swallow-per-iteration', 'swallowed_items': list(swsel)}))
    # in-arguments: visible, overriding, gone after normal completion
    for decos in subsets([('foreach', [1, 2]), ('while', {'max': 2}), ('retry', {'max': 2}), ('swallow', True)], 3):
        st = probe('I', keys=['k1', 'arg'], set=D(arg='recreated'))
        st['in'].append(['k1', 'inval'])
        st['in'].append(['arg', 'a'])
        st['run'] = '{arg}'          # a decorator expression that only resolves through `in`: 'a' is not true
        st['run'] = pycmp('arg', '!=', 'zzz')
        for k, v in decos:
            st[k] = v
        out.append((prog_of([['steps', [st, probe('AFTER', keys=['k1', 'arg'])]]], ctx={'k1': 'ctxval'}),
                    {'outcome': 'ok', 'ctx_lacks': ['k1', 'arg', 'p'], 'first_keys': {'k1': 'inval', 'arg': 'a'},
                     'after_keys_missing': ['k1', 'arg']},
                    {'family': 'c04-in-args', 'decorators': [k for k, _ in decos]}))
    rng.shuffle(out)
    yield from out[:n]


# --------------------------------------------------------------------------
# C05: loops
# --------------------------------------------------------------------------

def c05_family(rng, n):
    out = []
    iterables = [([], 'empty-expr'), ([5], 'one'), ([1, 2, 3], 'three'), (['a', 'b'], 'strs')]
    for items, _ in iterables:
        for form in ('literal', 'fmt', 'py', 'tuple', 'dict'):
            if form == 'literal' and not items:
                continue       # a literal empty foreach means "not declared" (DESIGN section 6)
            ctx = {'lst': items}
            if form == 'literal':
                fe = items
                seq = items
            elif form == 'fmt':
                fe, seq = '{lst}', items
            elif form == 'py':
                fe, seq = pyname('lst'), items
            elif form == 'tuple':
                ctx = None
                fe, seq = pyname('tup'), items
            else:
                ctx = {'lst': D(**{str(x): 0 for x in items})}
                fe, seq = '{lst}', [str(x) for x in items]
            for m, stop_at, eom in [(None, None, False), (3, None, False), (3, 2, False), (2, None, True),
                                    (0, None, True), (1, None, False), (3, 3, True), (3, 1, True)]:
                st = probe('L', set=D(lst=['changed']))
                st['foreach'] = fe
                if m is not None:
                    w = {'max': m, 'sleep': {'f': [1, 1]}}
                    if stop_at is not None:
                        w['stop'] = pycmp('whileCounter', '>=', stop_at)
                    if eom:
                        w['errorOnMax'] = True
                    st['while'] = w
                run = {}
                if form == 'tuple':
                    run['dict_in'] = {'d': [['tup', {'t': items}]]}
                    prog = prog_of([['steps', [st, probe('Z')]]], run=run)
                else:
                    prog = prog_of([['steps', [st, probe('Z')]]], ctx=ctx)
                if m is None:
                    wseq = [None]
                elif m < 1:
                    wseq = []
                else:
                    wseq = list(range(1, (min(stop_at, m) if stop_at else m) + 1))
                # while > foreach: every while iteration runs the complete foreach sequence. The iterable is
                # evaluated once per foreach_loop call, i.e. once per while iteration: the body's change to
                # `lst` shows from the second while iteration on when the iterable is an expression.
                events = []
                body_ran = False
                for wi, w_ in enumerate(wseq):
                    cur = ['changed'] if (body_ran and form in ('fmt', 'py', 'dict')) else seq
                    for x in cur:
                        events.append(('L', x, MISSING if w_ is None else w_, ANY))
                        body_ran = True
                exhausted = (m is not None and m >= 1 and eom and (stop_at is None or stop_at > m))
                outcome = ('err', 'pypyr.errors.LoopMaxExhaustedError') if exhausted else 'ok'
                if outcome == 'ok':
                    events.append(('Z', ANY, ANY, ANY))
                exp = {'events': events, 'outcome': outcome, 'sleeps': [0.5] * max(len(wseq) - 1, 0)}
                out.append((prog, exp, {'family': 'c05-loops', 'iterable': form, 'len': len(items), 'max': m,
                                        'stop_at': stop_at, 'errorOnMax': eom}))
    # a LITERAL foreach list whose items are expressions: the iterable is evaluated ONCE, before the first
    # iteration - a body that changes what a later item refers to does not change that item; the next while
    # iteration evaluates the list again (then it sees the change).
    for items, vals0, vals1 in [
            (['{x}', '{x}', '{x}'], ['orig', 'orig', 'orig'], ['changed'] * 3),
            (['a', '{x}', 'k-{x}'], ['a', 'orig', 'k-orig'], ['a', 'changed', 'k-changed']),
            ([pyname('x'), 'b', '{x}'], ['orig', 'b', 'orig'], ['changed', 'b', 'changed']),
            (['{x}', ['{x}', 1]], ['orig', ['orig', 1]], ['changed', ['changed', 1]])]:
        for m in (None, 2):
            st = probe('L', set=D(x='changed'))
            st['foreach'] = items
            if m is not None:
                st['while'] = {'max': m}
            events = []
            for w_ in ([None] if m is None else range(1, m + 1)):
                for x in (vals0 if w_ in (None, 1) else vals1):
                    events.append(('L', x, MISSING if w_ is None else w_, ANY))
            events.append(('Z', ANY, ANY, ANY))
            out.append((prog_of([['steps', [st, probe('Z')]]], ctx={'x': 'orig'}),
                        {'events': events, 'outcome': 'ok'},
                        {'family': 'c05-literal-items-evaluated-once', 'items': json.dumps(items), 'max': m}))
    # an unswallowed error ends all loops of the step
    for at in [(1, 'a'), (1, 'b'), (2, 'a'), (2, 'b')]:
        st = probe('E', failIf={'py': {'op': 'and', 'a': {'op': '==', 'a': {'n': 'whileCounter'}, 'b': {'c': at[0]}},
                                      'b': {'op': '==', 'a': {'n': 'i'}, 'b': {'c': at[1]}}}})
        st['foreach'] = ['a', 'b']
        st['while'] = {'max': 3}
        events = []
        for w_ in (1, 2, 3):
            done = False
            for x in ('a', 'b'):
                events.append(('E', x, w_, ANY))
                if (w_, x) == at:
                    done = True
                    break
            if done:
                break
        out.append((prog_of([['steps', [st, probe('Z')]]]),
                    {'events': events, 'outcome': ('err', 'vprobe.ProbeError'), 'nerr': 1},
                    {'family': 'c05-error-ends-loops', 'at': list(at)}))
    rng.shuffle(out)
    yield from out[:n]


# --------------------------------------------------------------------------
# C06: retry schedule
# --------------------------------------------------------------------------

def backoff_value(kind, sleep, n, sleep_max, base):
    if kind in ('fixed', 'jitter'):
        d = sleep[min(n - 1, len(sleep) - 1)] if isinstance(sleep, list) else sleep
    elif kind in ('linear', 'linearjitter'):
        d = n * sleep
    else:
        d = (base ** n) * sleep
    if sleep_max:
        d = min(d, sleep_max)
    return d


def c06_family(rng, n):
    out = []
    E = 'ValueError'
    scripts = [[E], [E, E], [E, E, E], [E, E, E, E, E], [None], [E, None], [E, 'TypeError', None],
               ['TypeError'], [E, 'vprobe.OtherError', E]]
    kinds = ['fixed', 'linear', 'exponential', 'jitter', 'linearjitter', 'exponentialjitter']
    for fails in scripts:
        for mx in (None, 1, 2, 3, 5):
            for kind in kinds:
                sleep = rng.choice([1, 2, {'f': [1, 1]}, [1, 2, 4], [3]]) if kind in ('fixed', 'jitter') \
                    else rng.choice([1, 2, {'f': [1, 1]}])
                sleep_max = rng.choice([None, None, 3, 0, 100])
                base = rng.choice([None, 2, 3])
                jrc = rng.choice([0, {'f': [1, 1]}, {'f': [1, 2]}, 1])
                stop_on = rng.choice([None, None, ['TypeError'], [E]])
                retry_on = rng.choice([None, None, [E], [E, 'vprobe.OtherError'], ['TypeError']])
                if mx is None and all(x for x in fails):
                    continue        # would never end
                rt = {'sleep': sleep, 'backoff': kind}
                if mx is not None:
                    rt['max'] = mx
                if sleep_max is not None:
                    rt['sleepMax'] = sleep_max
                if base is not None:
                    rt['backoffArgs'] = D(base=base)
                if 'jitter' in kind:
                    rt['jrc'] = jrc
                if stop_on:
                    rt['stopOn'] = stop_on
                if retry_on:
                    rt['retryOn'] = retry_on
                st = probe('R', fails=fails)
                st['retry'] = rt
                prog = prog_of([['steps', [st, probe('Z')]]])
                rnd = [[rng.randint(0, 4), 2] for _ in range(6)]
                prog['rnd'] = rnd

                def val(x):
                    return x['f'][0] / (1 << x['f'][1]) if isinstance(x, dict) else x
                sl = [val(x) for x in sleep] if isinstance(sleep, list) else val(sleep)
                attempts, sleeps, outcome = [], [], 'ok'
                k = 0
                while True:
                    k += 1
                    attempts.append(k)
                    err = fails[k - 1] if k - 1 < len(fails) else None
                    if err is None:
                        break
                    if mx and k == mx:
                        outcome = ('err', err)
                        break
                    if stop_on and err in stop_on:
                        outcome = ('err', err)
                        break
                    if retry_on and err not in retry_on:
                        outcome = ('err', err)
                        break
                    d = backoff_value(kind, sl, k, sleep_max, base if base is not None else 2)
                    if 'jitter' in kind:
                        j = val(jrc)
                        sleeps.append((min(j * d, d), max(j * d, d)))
                    else:
                        sleeps.append((d, d))
                exp = {'events': [('R', ANY, ANY, a) for a in attempts] + ([('Z', ANY, ANY, ANY)] if outcome == 'ok' else []),
                       'outcome': outcome, 'sleep_bounds': sleeps, 'nerr': 0 if outcome == 'ok' else 1}
                if outcome != 'ok':
                    exp['err_msg'] = 'boom R'
                out.append((prog, exp, {'family': 'c06-retry', 'kind': kind, 'max': mx, 'script': fails,
                                        'filters': bool(stop_on or retry_on)}))
    rng.shuffle(out)
    yield from out[:n]


def c06_reentry_family(rng, n):
    """One step enters its retry loop several times (retry inside foreach / while): every entry is a retry
    loop of its own - attempts count from 1 again and the sleep schedule starts afresh, from the decorator
    values as they format at that entry (`sleep: '{i}'`, a list-valued sleep starting over)."""
    E = 'ValueError'
    kinds = ['fixed', 'linear', 'exponential', 'jitter', 'linearjitter', 'exponentialjitter']
    cases = []
    for kind in kinds:
        for loop in ('foreach', 'while'):
            forms = ['number', 'expr']
            if kind in ('fixed', 'jitter'):
                forms += ['list', 'list1', 'listexpr']
            for form in forms:
                for fails in ([2, 2], [1, 0, 2], [3, 1], [0, 2, 2], [1, 1, 1], [2, 5]):
                    for mx in (5, None, 3):
                        if mx is None and fails[-1] >= 5:
                            continue
                        cases.append((kind, loop, form, fails, mx))
    rng.shuffle(cases)
    cases = cover_first(cases, lambda c: (c[0], c[1]), lambda c: (c[0], c[2]), lambda c: c[3], lambda c: c[4])
    for kind, loop, form, fails, mx in cases[:n]:
        nent = len(fails)
        vals = [10, 20, 4][:nent] if loop == 'foreach' else list(range(1, nent + 1))   # i / whileCounter per entry
        var = 'i' if loop == 'foreach' else 'whileCounter'
        if form == 'number':
            sleep, per_entry = 2, [2] * nent
        elif form == 'expr':
            sleep, per_entry = '{' + var + '}', list(vals)
        elif form == 'list':
            sleep, per_entry = [1, 2, 4], [[1, 2, 4]] * nent
        elif form == 'list1':
            sleep, per_entry = [3], [[3]] * nent
        else:
            sleep, per_entry = [1, '{' + var + '}', 7], [[1, v, 7] for v in vals]
        sleep_max = rng.choice([None, None, 15, 100])
        base = rng.choice([None, 2, 3])
        jrc = rng.choice([0, {'f': [1, 1]}, {'f': [1, 2]}, 1])
        rt = {'sleep': sleep, 'backoff': kind}
        if mx is not None:
            rt['max'] = mx
        if sleep_max is not None:
            rt['sleepMax'] = sleep_max
        if base is not None:
            rt['backoffArgs'] = D(base=base)
        if 'jitter' in kind:
            rt['jrc'] = jrc
        script = []
        for f in fails:
            script += [E] * f + [None]
        st = probe('R', fails=script)
        st['retry'] = rt
        if loop == 'foreach':
            st['foreach'] = vals
        else:
            st['while'] = {'max': nent}
        prog = prog_of([['steps', [st, probe('Z')]]])
        prog['rnd'] = [[rng.randint(0, 4), 2] for _ in range(16)]
        jv = jrc['f'][0] / (1 << jrc['f'][1]) if isinstance(jrc, dict) else jrc
        events, sleeps, outcome = [], [], 'ok'
        for e, f in enumerate(fails):
            pos = (vals[e], ANY) if loop == 'foreach' else (ANY, vals[e])
            if loop == 'while' and e:
                sleeps.append((0, 0))          # the while loop's own pause between its iterations (sleep: 0)
            for k in range(1, f + 2):
                events.append(('R', pos[0], pos[1], k))
                if k == f + 1:
                    break                      # this attempt succeeds: no sleep after success
                if mx and k == mx:
                    outcome = ('err', E)       # attempts exhausted: no sleep after the last attempt
                    break
                d = backoff_value(kind, per_entry[e], k, sleep_max, base if base is not None else 2)
                sleeps.append((min(jv * d, d), max(jv * d, d)) if 'jitter' in kind else (d, d))
            if outcome != 'ok':
                break
        if outcome == 'ok':
            events.append(('Z', ANY, ANY, ANY))
        exp = {'events': events, 'outcome': outcome, 'sleep_bounds': sleeps, 'nerr': 0 if outcome == 'ok' else 1}
        yield prog, exp, {'family': 'c06-retry-reentry', 'kind': kind, 'loop': loop, 'sleep': form,
                          'failures_per_entry': fails, 'max': mx}


# --------------------------------------------------------------------------
# C07: runErrors entries
# --------------------------------------------------------------------------

def c07_family(rng, n):
    """Entries name the failing step and the place of that step in the pipeline yaml: `at` refers to the step
    of the program; the renderer records where it writes that step (harness/flow_impl.render_pipe), which is
    what the entry's line/col must be - in every way of writing the same document (`LAYOUTS`)."""
    base = []
    # (1) failing step in a foreach with swallow: one entry per failing iteration, in order, accurate fields
    for items, failing in [([1, 2, 3], [2]), ([1, 2, 3], [1, 3]), ([1, 2], [1, 2]), ([1, 2, 3], [])]:
        st = probe('F', failIf={'py': {'op': 'in', 'a': {'n': 'i'}, 'b': {'n': 'bad'}}}, msg='it failed')
        st['foreach'] = items
        st['swallow'] = True
        st['onError'] = D(code=7, who='{k1}', at='{i}')
        for first in (False, True):
            # `first`: the failing step is the very first step of the pipeline (in a flow-style document: line 1)
            steps = [st, probe('Z')] if first else [probe('A'), st, probe('Z')]
            prog = prog_of([['steps', steps]], ctx={'bad': failing, 'k1': 'v1'})
            entries = [{'name': 'vprobe.ProbeError', 'description': 'it failed', 'step': 'vprobe', 'swallowed': True,
                        'customError': D(code=7, who='v1', at=x), 'at': st} for x in failing]
            base.append((prog, {'entries': entries, 'outcome': 'ok',
                                'tags': ([] if first else ['A']) + ['F'] * len(items) + ['Z']},
                         {'family': 'c07-swallow-loop', 'failing': failing, 'first_step': first}))
    # (2) retry: attempts recovered add nothing; exhausted adds exactly one (the last attempt's)
    for fails, mx in [(['ValueError', None], 3), (['ValueError', 'TypeError', None], 3),
                      (['ValueError', 'TypeError', 'RuntimeError'], 3), (['ValueError'], 1)]:
        st = probe('R', fails=fails)
        st['retry'] = {'max': mx}
        last = fails[mx - 1] if len(fails) >= mx and all(fails[:mx]) else None
        for sw in (False, True):
            s2 = json.loads(json.dumps(st))
            if sw:
                s2['swallow'] = True
            entries = [] if last is None else [{'name': last, 'description': 'boom R', 'swallowed': sw,
                                                 'step': 'vprobe', 'customError': D(), 'at': s2}]
            outcome = 'ok' if (last is None or sw) else ('err', last)
            base.append((prog_of([['steps', [s2, probe('Z')]]]),
                         {'entries': entries, 'outcome': outcome},
                         {'family': 'c07-retry', 'script': fails, 'max': mx, 'swallow': sw}))
    # (3) error inside called groups (depth 1..3), caller swallowed / retried / plain: recorded once, by the
    #     failing step only - with the failing step's own position, not the calling step's
    for depth in (1, 2, 3):
        for caller in ('plain', 'swallow', 'retry', 'retry+swallow', 'foreach+swallow'):
            groups = [['steps', None]]
            cs = {'name': 'pypyr.steps.call', 'in': [['call', 'g1']]}
            if 'swallow' in caller:
                cs['swallow'] = True
            if 'retry' in caller:
                cs['retry'] = {'max': 2}
            if 'foreach' in caller:
                cs['foreach'] = ['x', 'y']
            groups[0][1] = [cs, probe('Z')]
            bad = probe('BAD', failRest='vprobe.OtherError', msg='deep')
            for d in range(1, depth + 1):
                if d < depth:
                    groups.append([f'g{d}', [probe(f'C{d}'), {'name': 'pypyr.steps.call', 'in': [['call', f'g{d+1}']]}]])
                else:
                    groups.append([f'g{d}', [probe(f'C{d}'), bad]])
            times = 1
            if 'retry' in caller:
                times *= 2
            if 'foreach' in caller:
                times *= 2
            entries = [{'name': 'vprobe.OtherError', 'description': 'deep', 'step': 'vprobe', 'swallowed': False,
                        'at': bad} for _ in range(times)]
            outcome = 'ok' if 'swallow' in caller else ('err', 'vprobe.OtherError')
            base.append((prog_of(groups), {'entries': entries, 'outcome': outcome},
                         {'family': 'c07-called', 'depth': depth, 'caller': caller}))
    # (4) failure handler failing too: both recorded, chronological; signals add nothing
    a, h = probe('A', failRest='ValueError', msg='first'), probe('H', failRest='TypeError', msg='second')
    groups = [['steps', [a]], ['on_failure', [h, probe('N')]]]
    base.append((prog_of(groups), {'entries': [{'name': 'ValueError', 'description': 'first', 'at': a},
                                               {'name': 'TypeError', 'description': 'second', 'at': h}],
                                   'outcome': ('err', 'ValueError'), 'err_msg': 'first'},
                 {'family': 'c07-handler-fails'}))
    # (5) a failing step in a child pipeline written in another layout than its parent: the entry carries
    #     the place in the child's document
    cbad = probe('CB', failRest='ValueError', msg='child step')
    cbad['swallow'] = True
    groups = [['steps', [probe('A'), {'name': 'pypyr.steps.pype', 'in': [['pype', D(name='child')]]}, probe('Z')]]]
    base.append((prog_of(groups, children={'child': [['steps', [cbad, probe('C2')]]]}),
                 {'entries': [{'name': 'ValueError', 'description': 'child step', 'swallowed': True, 'at': cbad}],
                  'outcome': 'ok', 'tags': ['A', 'CB', 'C2', 'Z']}, {'family': 'c07-child-layout'}))
    out = []
    for bi, (prog, exp, meta) in enumerate(base):
        for li, lay in enumerate(LAYOUTS):
            out.append((bi, li, lay))
    rng.shuffle(out)
    out = cover_first(out, lambda c: c[1], lambda c: c[0])
    for bi, li, lay in out[:n]:
        prog, exp, meta = base[bi]
        # a fresh copy of program and expectation, the `at` references re-pointed into the copy
        steps0 = [st for pipe in prog['pipes'] for _, ss in pipe['groups'] for st in (ss or [])]
        prog2 = json.loads(json.dumps(prog))
        steps2 = [st for pipe in prog2['pipes'] for _, ss in pipe['groups'] for st in (ss or [])]
        exp2 = dict(exp)
        if 'entries' in exp:
            exp2['entries'] = []
            for e in exp['entries']:
                e2 = dict(e)
                if 'at' in e2:
                    e2['at'] = steps2[next(k for k, x in enumerate(steps0) if x is e['at'])]
                exp2['entries'].append(e2)
        with_layout(prog2, lay)
        if meta['family'] == 'c07-child-layout':
            prog2['pipes'][0].pop('layout', None)     # the parent stays in block style
        yield prog2, exp2, dict(meta, layout=json.dumps(lay))


def fix_lines(prog, expect):
    """An entry given with `at` (a complex step of the program) must carry the line and column at which the
    renderer wrote that step."""
    from .flow_impl import prepare
    prepare(prog)
    for e in expect.get('entries') or []:
        if 'at' in e:
            st = e.pop('at')
            e['line'], e['col'] = st['line'], st['col']


# --------------------------------------------------------------------------
# C11: pype
# --------------------------------------------------------------------------

def c11_family(rng, n):
    out = []
    child_endings = {
        'ok': ([probe('C', set=D(k1='child', ck='made', k2='c2')), probe('C2')], ['C', 'C2'], 'ok'),
        'error': ([probe('C', set=D(k1='child', ck='made')), probe('X', failRest='ValueError', msg='child failed')],
                  ['C', 'X', 'CF'], 'err'),
        'error_handler_stops': ([probe('X', failRest='ValueError', msg='child failed')], ['X', 'CF'], 'err'),
        'stop': ([probe('C', set=D(k1='child')), 'pypyr.steps.stop', probe('N')], ['C'], 'stop'),
        'stoppipeline': ([probe('C', set=D(k1='child', ck='made')), 'pypyr.steps.stoppipeline', probe('N')],
                         ['C'], 'ok'),
        'stopstepgroup': ([probe('C', set=D(k1='child', ck='made')), 'pypyr.steps.stopstepgroup', probe('N')],
                          ['C'], 'ok'),
    }
    for ending, (csteps, ctags, kind) in child_endings.items():
        for mode in ('shared', 'own_args', 'own_flag', 'own_out_str', 'own_out_list', 'own_out_map'):
            for raise_error in (None, True, False):
                cfg = {'name': 'child'}
                own = mode != 'shared'
                if mode == 'own_flag':
                    cfg['useParentContext'] = False
                elif own:
                    cfg['args'] = D(a1='x{k2}', k1='fromargs')
                out_spec = None
                if mode == 'own_out_str':
                    out_spec = cfg['out'] = 'ck'
                elif mode == 'own_out_list':
                    out_spec = cfg['out'] = ['ck', 'k1']
                elif mode == 'own_out_map':
                    out_spec = cfg['out'] = D(pk='ck')
                if raise_error is not None:
                    cfg['raiseError'] = raise_error
                children = {'child': [['steps', csteps], ['on_failure', [probe('CF')]]]}
                groups = [['steps', [probe('A'), {'name': 'pypyr.steps.pype', 'in': [['pype', D(**cfg)]]},
                                     probe('B', keys=['k1', 'ck', 'k2', 'pk']),
                                     {'name': 'pypyr.steps.call', 'in': [['call', 'pg']]}]],
                          ['pg', [probe('PG')]], ['on_failure', [probe('OF')]]]
                # group `pg` exists only in the parent: the call after the pype step must resolve there
                children['child'].append(['pg', [probe('WRONG-PG')]])
                tags = ['A'] + ctags
                fails = kind == 'err' and raise_error is not False
                if kind == 'stop':
                    outcome = 'ok'
                elif fails:
                    tags += ['OF']
                    outcome = ('err', 'ValueError')
                else:
                    tags += ['B', 'PG']
                    outcome = 'ok'
                exp = {'tags': tags, 'outcome': outcome}
                if outcome != 'ok':
                    exp['err_msg'] = 'child failed'
                # parent context: isolation / out
                if outcome == 'ok' and kind != 'stop':
                    if own:
                        has = {'k1': 'parent', 'k2': 'p2'}
                        lacks = ['a1']
                        child_ck_set = ending in ('ok', 'error', 'stoppipeline', 'stopstepgroup')
                        if kind != 'err' and out_spec is not None and child_ck_set:
                            if mode == 'own_out_str':
                                has['ck'] = 'made'
                            elif mode == 'own_out_list':
                                has['ck'] = 'made'
                                has['k1'] = 'child'
                            else:
                                has['pk'] = 'made'
                        else:
                            lacks.append('ck')
                        exp['ctx_has'], exp['ctx_lacks'] = has, lacks
                    else:
                        if ending != 'error_handler_stops':
                            exp['ctx_has'] = {'k1': 'child'}
                out.append((prog_of(groups, children=children, ctx={'k1': 'parent', 'k2': 'p2'}), exp,
                            {'family': 'c11-pype', 'ending': ending, 'mode': mode, 'raiseError': raise_error}))
    rng.shuffle(out)
    yield from out[:n]
