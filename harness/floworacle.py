"""Directed families of flow programs with expectations computed *from the property text*,
independently of the Lean interpreter model (closed forms / tiny special-purpose oracles).

Each family yields (prog, expect, meta). `expect` names only the observables the property
fixes for that program:
  tags      [tag]                       probe events in order (by tag)
  events    [(tag, i, w, r)]            events with counters (None = don't care, MISSING = absent)
  outcome   'ok' | ('err', name)        how the run ends for the API caller
  err_msg   str                         message of the escaping error
  nerr      int                         len(runErrors) in the final context (0 = absent or empty)
  entries   [dict]                      expected runErrors entries (subset of fields)
  sleeps    [float]                     durations slept, in order
  ctx_has   {k: wire}  ctx_lacks [k]    final context assertions
`judge(expect, obs)` returns a list of human-readable breaches.
"""
from __future__ import annotations

import itertools
import json

from .flowgen import D, LAYOUTS, P, pycmp, pyname

MISSING = {'missing': 1}
ANY = object()


def probe(tag, **kw):
    return {'name': 'vprobe', 'in': [['p', P(tag, **kw)]]}


def prog_of(groups, run=None, children=None, ctx=None, **runkw):
    pipes = [{'name': 'main', 'groups': groups}]
    for name, g in (children or {}).items():
        pipes.append({'name': name, 'groups': g} if isinstance(g, list) else dict(g, name=name))
    r = {'name': 'main'}
    if ctx is not None:
        r['dict_in'] = D(**ctx)
    r.update(run or {})
    r.update(runkw)
    return {'pipes': pipes, 'run': r, 'rnd': []}


def cover_first(cases, *keys):
    """Reorder (stable): cases that show a not-yet-seen value of one of the key functions come first, so
    that a short prefix of a shuffled family already covers every value of every listed dimension."""
    seen, head, tail = set(), [], []
    for c in cases:
        ks = [(n, json.dumps(k(c), sort_keys=True, default=str)) for n, k in enumerate(keys)]
        if any(x not in seen for x in ks):
            seen.update(ks)
            head.append(c)
        else:
            tail.append(c)
    return head + tail


def with_layout(prog, lay):
    if lay is not None:
        for pipe in prog['pipes']:
            pipe['layout'] = dict(lay)
    return prog


# --------------------------------------------------------------------------
# judge
# --------------------------------------------------------------------------

def run_errors_of(obs):
    ctx = obs.get('ctx')
    if not ctx or 'd' not in ctx:
        return []
    for k, v in ctx['d']:
        if k == 'runErrors' and isinstance(v, list):
            return [dict((a, b) for a, b in e['d']) if isinstance(e, dict) and 'd' in e else e for e in v]
    return []


def ctx_get(obs, key):
    ctx = obs.get('ctx')
    if not ctx or 'd' not in ctx:
        return MISSING
    for k, v in ctx['d']:
        if k == key:
            return v
    return MISSING


def expect_to_json(expect):
    """an expectation as JSON (ANY <-> {'any': 1}); tuples become lists, which `judge` reads the same way"""
    def enc_(x):
        if x is ANY:
            return {'any': 1}
        if isinstance(x, (list, tuple)):
            return [enc_(y) for y in x]
        if isinstance(x, dict):
            return {k: enc_(v) for k, v in x.items()}
        return x
    return enc_(expect)


def expect_from_json(expect):
    def dec_(x):
        if x == {'any': 1}:
            return ANY
        if isinstance(x, list):
            return [dec_(y) for y in x]
        if isinstance(x, dict):
            return {k: dec_(v) for k, v in x.items()}
        return x
    return dec_(expect)


def same(a, b):
    """equal as WIRE values - by value and type: True is not 1, 1 is not 1.0, '' is not 0 (Python's == says
    True == 1 == 1.0; the wire form writes them true / 1 / {'f': [1, 0]})"""
    if a is ANY or b is ANY:
        return a is b
    return json.dumps(a, sort_keys=True, default=str) == json.dumps(b, sort_keys=True, default=str)


def judge(expect, obs):
    out = []
    trace = obs.get('trace', [])
    if 'tags' in expect:
        got = [e['tag'] for e in trace]
        if got != expect['tags']:
            out.append(f"probe events {got} but the property requires {expect['tags']}")
    if 'events' in expect:
        got = [(e['tag'], e['i'], e['w'], e['r']) for e in trace]
        exp = expect['events']
        ok = len(got) == len(exp) and all(
            g[0] == x[0] and all(x[j] is ANY or same(g[j], x[j]) for j in (1, 2, 3)) for g, x in zip(got, exp))
        if not ok:
            out.append(f'events (tag,i,w,r) {got} but the property requires '
                       f'{[tuple("*" if y is ANY else y for y in x) for x in exp]}')
    if 'events_of' in expect:
        tg = expect['events_of']['tag']
        got = [(e['tag'], e['i'], e['w'], e['r']) for e in trace if e['tag'] == tg]
        exp = expect['events_of']['events']
        ok = len(got) == len(exp) and all(
            g[0] == x[0] and all(x[j] is ANY or same(g[j], x[j]) for j in (1, 2, 3)) for g, x in zip(got, exp))
        if not ok:
            out.append(f'events (tag,i,w,r) of {tg} are {got} but the property requires '
                       f'{[tuple("*" if y is ANY else y for y in x) for x in exp]}')
    if 'outcome' in expect:
        oc = obs.get('outcome')
        exp = expect['outcome']
        if exp == 'ok':
            if oc != 'ok':
                out.append(f'run must report success but ended with {oc}')
            elif obs.get('returned_ctx') is False:
                out.append('run reported success but did not return the context')
        else:
            name = oc['err']['name'] if isinstance(oc, dict) and 'err' in oc else None
            if exp[1] is ANY:
                if name is None:
                    out.append(f'caller must receive an error but got {oc}')
            elif name != exp[1]:
                out.append(f'caller must receive {exp[1]} but got {oc}')
            elif 'err_msg' in expect and oc['err'].get('msg') != expect['err_msg']:
                out.append(f"caller must receive the original error '{expect['err_msg']}' but got "
                           f"'{oc['err'].get('msg')}'")
    res = run_errors_of(obs)
    if 'nerr' in expect and len(res) != expect['nerr']:
        out.append(f"runErrors has {len(res)} entries but the property requires {expect['nerr']}")
    if 'entries' in expect:
        exp = expect['entries']
        if len(res) != len(exp):
            out.append(f'runErrors has {len(res)} entries, expected {len(exp)}')
        else:
            for n, (g, x) in enumerate(zip(res, exp)):
                for k, v in x.items():
                    if g.get(k) != v:
                        out.append(f'runErrors[{n}].{k} = {g.get(k)!r}, expected {v!r}')
            ids = [json.dumps(g.get('exception')) for g in res]
            if len(set(ids)) != len(ids):
                out.append('an exception object is recorded twice in runErrors')
    if 'sleeps' in expect and list(obs.get('sleeps', [])) != [float(x) for x in expect['sleeps']]:
        out.append(f"slept {obs.get('sleeps')} but the property requires {expect['sleeps']}")
    if 'sleep_bounds' in expect:
        got = list(obs.get('sleeps', []))
        b = expect['sleep_bounds']
        if len(got) != len(b) or any(not (lo <= g <= hi) for g, (lo, hi) in zip(got, b)):
            out.append(f'slept {got}, outside the required bounds {b}')
    if 'after_event' in expect:
        x = expect['after_event']
        last = next((e for e in reversed(trace) if e['tag'] == x[0]), None)
        if last is None:
            out.append(f'step {x[0]} after the call never ran')
        else:
            g = (last['tag'], last['i'], last['w'], last['r'])
            if any(x[j] is not ANY and not same(g[j], x[j]) for j in (1, 2, 3)):
                out.append(f'after the call step the counters (i, whileCounter, retryCounter) are {g[1:]}, '
                           f'the caller\'s are {tuple("*" if y is ANY else y for y in x[1:])}')
            kk = dict((k, v) for k, v in last['keys'])
            if 'call' in kk and kk['call'] == MISSING and False:
                out.append('call configuration missing after the call')
    if 'first_keys' in expect and trace:
        kk = dict((k, v) for k, v in trace[0]['keys'])
        for k, v in expect['first_keys'].items():
            if not same(kk.get(k), v):
                out.append(f'in-argument {k!r} seen by the body as {kk.get(k)!r}, expected {v!r}')
    if 'first_keys_of' in expect:
        tg, want = expect['first_keys_of']
        ev = next((e for e in trace if e['tag'] == tg), None)
        if ev is not None:
            kk = dict((k, v) for k, v in ev['keys'])
            for k, v in want.items():
                if not same(kk.get(k), v):
                    out.append(f'step {tg} sees context[{k!r}] = {kk.get(k)!r}, expected {v!r}')
    if 'after_keys_missing' in expect:
        last = next((e for e in reversed(trace) if e['tag'] == 'AFTER'), None)
        if last is not None:
            kk = dict((k, v) for k, v in last['keys'])
            for k in expect['after_keys_missing']:
                if kk.get(k) != MISSING:
                    out.append(f'in-argument {k!r} still in context after the step completed: {kk.get(k)!r}')
    for k, v in (expect.get('ctx_has') or {}).items():
        if not same(ctx_get(obs, k), v):
            out.append(f'final context[{k!r}] = {ctx_get(obs, k)!r}, expected {v!r}')
    for k in expect.get('ctx_lacks') or []:
        if ctx_get(obs, k) != MISSING:
            out.append(f'final context still has key {k!r} = {ctx_get(obs, k)!r}')
    return out


# --------------------------------------------------------------------------
# C01 (+ C02 stop family): straight-line pipelines, independent oracle
# --------------------------------------------------------------------------

def straight_oracle(groups, run):
    """Declarative semantics of C01/C02 for straight-line groups.
    Steps: ('ok', tag) | ('fail', tag, errname, swallow) | ('stop'|'stoppipeline'|'stopstepgroup',) |
           ('skip', tag)  (run: False / skip: True: never executes)."""
    gmap = dict(groups)
    req, succ, fail = run.get('groups'), run.get('success'), run.get('failure')
    if not req:
        req = ['steps']
        if not succ and not fail:
            succ, fail = 'on_success', 'on_failure'
    tags, nerr = [], [0]

    def run_group(name):
        """-> ('ok',) | ('err', name, msg) | ('stop',) | ('stoppipeline',) | ('stopstepgroup',)"""
        for st in gmap.get(name) or []:
            kind = st[0]
            if kind == 'skip':
                continue
            if kind == 'ok':
                tags.append(st[1])
            elif kind == 'fail':
                tags.append(st[1])
                nerr[0] += 1
                if not st[3]:
                    return ('err', st[2], 'boom ' + st[1])
            else:
                return (kind,)
        return ('ok',)

    def main():
        for g in req:
            r = run_group(g)
            if r[0] == 'stopstepgroup':
                continue
            if r[0] != 'ok':
                return r
        if succ:
            r = run_group(succ)
            if r[0] not in ('ok', 'stopstepgroup'):
                return r
        return ('ok',)
    r = main()
    if r[0] == 'err' and fail:
        h = run_group(fail)
        if h[0] == 'stopstepgroup':
            r = ('ok',)
        elif h[0] in ('stop', 'stoppipeline'):
            r = h
    outcome = ('err', r[1]) if r[0] == 'err' else 'ok'
    exp = {'tags': tags, 'outcome': outcome, 'nerr': nerr[0]}
    if r[0] == 'err':
        exp['err_msg'] = r[2]
    return exp


def render_straight(groups):
    out = []
    for name, steps in groups:
        ss = []
        for st in steps:
            if st[0] == 'ok':
                ss.append(probe(st[1]))
            elif st[0] == 'skip':
                s = probe(st[1])
                s.update(st[2])
                ss.append(s)
            elif st[0] == 'fail':
                s = probe(st[1], failRest=st[2])
                if st[3]:
                    s['swallow'] = True
                ss.append(s)
            else:
                ss.append('pypyr.steps.' + st[0])
        out.append([name, ss])
    return out


RUN_PATTERNS = [
    {}, {'groups': ['steps']}, {'groups': ['steps', 'g1']}, {'groups': ['g1', 'steps']},
    {'success': 'on_success'}, {'failure': 'on_failure'}, {'groups': ['steps'], 'failure': 'on_failure'},
    {'groups': ['steps', 'g1'], 'success': 'on_success', 'failure': 'on_failure'},
    {'success': 'g1', 'failure': 'g1'}, {'groups': ['steps'], 'success': 'on_success'},
    {'groups': ['nogroup', 'steps'], 'failure': 'on_failure'},
]


def c01_family(rng, n):
    """Every placement of one event (failure / swallowed failure / stop instruction / skip) in a small
    pipeline x handler variants x argument patterns; then random straight-line pipelines."""
    cases = []
    errs = ['ValueError', 'vprobe.ProbeError', 'RuntimeError']
    handlers = {
        'none': None,
        'ok': [('ok', 'h1'), ('ok', 'h2')],
        'fails': [('ok', 'h1'), ('fail', 'h2', 'TypeError', False), ('ok', 'h3')],
        'stopgroup': [('ok', 'h1'), ('stopstepgroup',), ('ok', 'h3')],
        'stop': [('stop',), ('ok', 'h2')],
        'stoppipeline': [('ok', 'h1'), ('stoppipeline',)],
    }
    specials = [('fail', None, 'E', False), ('fail', None, 'E', True), ('stop',), ('stoppipeline',),
                ('stopstepgroup',), ('skip', None, {'run': False}), ('skip', None, {'skip': True})]
    for gi, si in itertools.product(range(3), range(3)):
        for sp in specials:
            for hname, h in handlers.items():
                groups = {}
                for g, gname in enumerate(['steps', 'g1', 'on_success']):
                    steps = []
                    for k in range(3):
                        tag = f'{gname}{k}'
                        if g == gi and k == si:
                            if sp[0] == 'fail':
                                steps.append(('fail', tag, errs[(gi + si) % 3], sp[3]))
                            elif sp[0] == 'skip':
                                steps.append(('skip', tag, sp[2]))
                            else:
                                steps.append(sp)
                        else:
                            steps.append(('ok', tag))
                    groups[gname] = steps
                if h is not None:
                    groups['on_failure'] = h
                cases.append((list(groups.items()), hname))
    rng.shuffle(cases)
    for idx, (groups, hname) in enumerate(cases[:n]):
        run = RUN_PATTERNS[idx % len(RUN_PATTERNS)]
        yield (prog_of(render_straight(groups), run=dict(run), ctx={'k': 'v'}),
               straight_oracle(groups, run), {'family': 'c01-straight', 'handler': hname})


def c01_random_straight(rng, n):
    errs = ['ValueError', 'vprobe.ProbeError', 'RuntimeError', 'vprobe.OtherError']
    for idx in range(n):
        groups = []
        tagn = 0
        for gname in ['steps', 'g1', 'g2', 'on_success', 'on_failure']:
            if gname != 'steps' and rng.random() < 0.3:
                continue
            steps = []
            for _ in range(rng.randint(0, 5)):
                tagn += 1
                tag = f'{gname}.{tagn}'
                x = rng.random()
                if x < 0.6:
                    steps.append(('ok', tag))
                elif x < 0.78:
                    steps.append(('fail', tag, rng.choice(errs), rng.random() < 0.4))
                elif x < 0.86:
                    steps.append(('skip', tag, rng.choice([{'run': False}, {'skip': True}, {'run': 'false'},
                                                            {'skip': 'TRUE'}, {'run': 0}])))
                else:
                    steps.append((rng.choice(['stop', 'stoppipeline', 'stopstepgroup']),))
            groups.append((gname, steps))
        run = {}
        if rng.random() < 0.5:
            run['groups'] = rng.choice([['steps'], ['steps', 'g1'], ['g1', 'g2', 'steps'], ['g2'], []])
            if not run['groups']:
                del run['groups']
        if rng.random() < 0.4:
            run['success'] = rng.choice(['on_success', 'g1', 'nogroup'])
        if rng.random() < 0.4:
            run['failure'] = rng.choice(['on_failure', 'g2', 'nogroup'])
        yield (prog_of(render_straight(groups), run=dict(run), ctx={'k': 'v'}),
               straight_oracle(groups, run), {'family': 'c01-random-straight'})


# what can stand under a failure group's name instead of a sequence of steps (yaml slips), and sequences
# whose items are no steps. {'scalar': v} = a body that is no sequence; {'item': v} = an item that is
# neither a step name nor a step mapping.
MALFORMED_BODIES = {
    'int': {'scalar': 42}, 'zero': {'scalar': 0}, 'float': {'scalar': {'f': [3, 1]}}, 'true': {'scalar': True},
    'false': {'scalar': False}, 'str': {'scalar': 'zq'}, 'empty-str': {'scalar': ''},
    'mapping': {'scalar': D(nomodule_k=1, other=2)}, 'empty-mapping': {'scalar': D()},
    'int-key-mapping': {'scalar': {'d': [[1, 2]]}}, 'py-scalar': {'scalar': {'py': {'c': 1}}},
    'sic-scalar': {'scalar': {'sic': 'x'}},
    'null': None, 'empty-list': [],
    'item-int': [{'item': 1}], 'item-null': [{'item': None}], 'item-list': [{'item': [1, 2]}],
    'item-float': [{'item': {'f': [1, 1]}}], 'item-bool': [{'item': True}], 'item-empty-str': [''],
    'item-nameless-mapping': [{'in': [['a', 1]]}], 'item-name-int': [{'name': 5}],
    'item-name-list': [{'name': [1]}], 'item-name-zero': [{'name': 0, 'in': [['a', 1]]}],
    'item-unknown-module': ['nomodule.h'],
    'step-then-item': [probe('H1'), {'item': 3}, probe('H2')],
    'step-then-str-step': [probe('H1'), 'nomodule.h', probe('H2')],
}


def c01_malformed_failure_family(rng, n):
    """A step fails; the failure group is malformed in each way. Whatever goes wrong while the failure group
    is looked up or run is an error 'raised inside the failure group': the caller receives the ORIGINAL
    error. Positions: the pipeline's own on_failure, a failure group named by the run arguments, the
    `failure` of a call / jump step, the on_failure of a child pipeline."""
    errs = ['ValueError', 'vprobe.ProbeError', 'RuntimeError']
    cases = []
    for bname in MALFORMED_BODIES:
        for where in ('on_failure', 'run-arg', 'call', 'jump', 'child', 'call-str-name'):
            for at in (0, 1, 2):
                cases.append((bname, where, at))
    rng.shuffle(cases)
    cases = cover_first(cases, lambda c: c[0], lambda c: c[1])
    for idx, (bname, where, at) in enumerate(cases[:n]):
        body = json.loads(json.dumps(MALFORMED_BODIES[bname]))
        handler_tags = ['H1'] if bname.startswith('step-then') else []
        err = errs[idx % 3]
        main = [probe(f's{k}', failRest=err) if k == at else probe(f's{k}') for k in range(3)]
        ran = [f's{k}' for k in range(at + 1)]
        children = {}
        if where == 'on_failure':
            groups = [['steps', main], ['on_success', [probe('OS')]], ['on_failure', body]]
            run, tags = {}, ran + handler_tags
        elif where == 'run-arg':
            groups = [['steps', main], ['on_success', [probe('OS')]], ['hf', body], ['on_failure', [probe('WRONG')]]]
            run, tags = {'failure': 'hf'}, ran + handler_tags
        elif where in ('call', 'jump', 'call-str-name'):
            cfg = D(groups=['sg'], success='sgs', failure='sgf')
            cs = {'name': 'pypyr.steps.' + ('jump' if where == 'jump' else 'call'),
                  'in': [['jump' if where == 'jump' else 'call', cfg]]}
            groups = [['steps', [probe('A'), cs, probe('B')]], ['sg', main], ['sgs', [probe('SGS')]], ['sgf', body],
                      ['on_success', [probe('OS')]], ['on_failure', [probe('OF')]]]
            # the original error then leaves the calling step and reaches the pipeline's own failure group
            run, tags = {}, ['A'] + ran + handler_tags + ['OF']
        else:
            children['child'] = [['steps', main], ['on_success', [probe('COS')]], ['on_failure', body]]
            groups = [['steps', [probe('A'), {'name': 'pypyr.steps.pype', 'in': [['pype', D(name='child')]]},
                                 probe('B')]], ['on_success', [probe('OS')]], ['on_failure', [probe('OF')]]]
            run, tags = {}, ['A'] + ran + handler_tags + ['OF']
        exp = {'tags': tags, 'outcome': ('err', err), 'err_msg': f'boom s{at}'}
        yield (prog_of(groups, run=run, children=children, ctx={'k': 'v'}), exp,
               {'family': 'c01-malformed-failure-group', 'body': bname, 'where': where})


NOOP_BODIES = ('empty-str', 'empty-mapping', 'null', 'empty-list')


def c01_malformed_group_family(rng, n):
    """The same malformed shapes where a requested group, the success group or a called / jumped-to group
    stands. Whatever error the shape provokes is an error of the main phase like any other: nothing after
    it runs, the failure group runs once, the caller receives that error (which error: model = code)."""
    cases = []
    for bname in MALFORMED_BODIES:
        for where in ('requested', 'success', 'call', 'jump'):
            cases.append((bname, where))
    rng.shuffle(cases)
    cases = cover_first(cases, lambda c: c[0], lambda c: c[1])
    for bname, where in cases[:n]:
        body = json.loads(json.dumps(MALFORMED_BODIES[bname]))
        inner = ['H1'] if bname.startswith('step-then') else []
        noop = bname in NOOP_BODIES
        if where == 'requested':
            groups = [['steps', [probe('A')]], ['bad', body], ['post', [probe('P')]], ['on_success', [probe('OS')]],
                      ['on_failure', [probe('OF')]]]
            run = {'groups': ['steps', 'bad', 'post'], 'success': 'on_success', 'failure': 'on_failure'}
            tags = ['A', 'P', 'OS'] if noop else ['A'] + inner + ['OF']
        elif where == 'success':
            groups = [['steps', [probe('A')]], ['on_success', body], ['on_failure', [probe('OF')]]]
            run = {}
            tags = ['A'] if noop else ['A'] + inner + ['OF']
        else:
            cs = {'name': 'pypyr.steps.' + where, 'in': [[where, 'bad']]}
            groups = [['steps', [probe('A'), cs, probe('B')]], ['bad', body], ['on_success', [probe('OS')]],
                      ['on_failure', [probe('OF')]]]
            run = {}
            if noop:
                tags = ['A', 'B', 'OS'] if where == 'call' else ['A', 'OS']
            else:
                tags = ['A'] + inner + ['OF']
        exp = {'tags': tags, 'outcome': 'ok' if noop else ('err', ANY)}
        yield (prog_of(groups, run=run, ctx={'k': 'v'}), exp,
               {'family': 'c01-malformed-group', 'body': bname, 'where': where})


# --------------------------------------------------------------------------
# C02: signal kind x raising position x decorators of the raising step and of the carrier
# --------------------------------------------------------------------------

TRANSPARENT = [('swallow', True), ('retry', {'max': 2}), ('foreach', ['a', 'b']), ('while', {'max': 2}),
               ('run', 'true'), ('skip', False)]
CARRIER_DECOS = [('swallow', True), ('retry', {'max': 3, 'sleep': 1}), ('foreach', ['x', 'y']),
                 ('while', {'max': 2})]


def subsets(xs, maxlen=None):
    for r in range(0, (maxlen if maxlen is not None else len(xs)) + 1):
        for c in itertools.combinations(xs, r):
            yield c


def carrier_iterations(decos):
    n = 1
    for k, _ in decos:
        if k in ('foreach', 'while'):
            n *= 2
    return n


def c02_family(rng, n):
    """position in {direct, success, failure, called1, called2, jumped, child_shared, child_own, grandchild}."""
    cases = []
    signals = ['stop', 'stoppipeline', 'stopstepgroup', 'jump']
    positions = ['direct', 'success', 'failure', 'called1', 'called2', 'jumped', 'child_shared', 'child_own',
                 'grandchild']
    for sig, pos in itertools.product(signals, positions):
        for sd in subsets(TRANSPARENT, 3):
            for cd in subsets(CARRIER_DECOS, 2):
                if pos in ('direct', 'success', 'failure') and cd:
                    continue
                cases.append((sig, pos, sd, cd))
    # two positions that need cooperating sites: the failure handler of a child whose context parser
    # failed, and a child with its own context whose `out` key does not exist yet when the signal is raised
    extra = []
    for sig in ('stop', 'stoppipeline'):
        for sd in subsets(TRANSPARENT, 1):
            for cd in subsets(CARRIER_DECOS, 1):
                extra.append((sig, 'parser_failure_child', sd, cd))
    for sig in signals:
        for sd in subsets(TRANSPARENT, 1):
            for cd in subsets(CARRIER_DECOS, 1):
                extra.append((sig, 'child_own_out', sd, cd))
    rng.shuffle(cases)
    rng.shuffle(extra)
    # the quick slice keeps a share of the cooperating-site positions
    k = min(len(extra), max(n // 6, 0))
    for sig, pos, sd, cd in extra[:k] + cases[:max(n - k, 0)]:
        yield c02_case(sig, pos, sd, cd)


def sigstep(sig, sd, target='jt'):
    st = {'name': 'pypyr.steps.' + sig}
    if sig == 'jump':
        st['in'] = [['jump', target]]
    for k, v in sd:
        st[k] = v
    return st


def c02_case(sig, pos, sd, cd):
    """Expected traces follow from the property: an instruction is never an error (no handler, no
    swallow, no retry, no runErrors) and unwinds exactly its scope."""
    S = sigstep(sig, sd)
    JT = ['jt', [probe('J')]]           # jump target
    iters = carrier_iterations(cd)
    carrier = {}
    for k, v in cd:
        carrier[k] = v
    children = {}
    groups = []
    meta = {'family': 'c02', 'signal': sig, 'position': pos, 'raiser_decorators': [k for k, _ in sd],
            'carrier_decorators': [k for k, _ in cd]}
    if pos == 'direct':
        groups = [['steps', [probe('A'), S, probe('D')]], ['on_success', [probe('OS')]],
                  ['on_failure', [probe('OF')]], JT]
        tags = {'stop': ['A'], 'stoppipeline': ['A'], 'stopstepgroup': ['A', 'OS'], 'jump': ['A', 'J', 'OS']}[sig]
    elif pos == 'success':
        groups = [['steps', [probe('A')]], ['on_success', [probe('B'), S, probe('D')]],
                  ['on_failure', [probe('OF')]], JT]
        tags = {'stop': ['A', 'B'], 'stoppipeline': ['A', 'B'], 'stopstepgroup': ['A', 'B'],
                'jump': ['A', 'B', 'J']}[sig]
    elif pos == 'failure':
        groups = [['steps', [probe('A'), probe('F', failRest='ValueError'), probe('N')]],
                  ['on_success', [probe('OS')]], ['on_failure', [probe('B'), S, probe('D')]], JT]
        tags = {'stop': ['A', 'F', 'B'], 'stoppipeline': ['A', 'F', 'B'], 'stopstepgroup': ['A', 'F', 'B'],
                'jump': ['A', 'F', 'B', 'J']}[sig]
        # only a Stop instruction of the handler turns the failure into a quiet end; a jump does not
        exp = {'tags': tags, 'outcome': ('err', 'ValueError') if sig == 'jump' else 'ok', 'nerr': 1}
        return prog_of(groups), exp, meta
    elif pos in ('called1', 'called2', 'jumped'):
        inner = [probe('C'), S, probe('D')]
        if pos == 'called1':
            cs = dict(carrier, name='pypyr.steps.call')
            cs['in'] = [['call', 'g']]
            groups = [['steps', [probe('A'), cs, probe('B')]], ['g', inner], ['on_success', [probe('OS')]],
                      ['on_failure', [probe('OF')]], JT]
            per = {'stop': ['C'], 'stoppipeline': ['C'], 'stopstepgroup': ['C'], 'jump': ['C', 'J']}[sig]
        elif pos == 'called2':
            cs = dict(carrier, name='pypyr.steps.call')
            cs['in'] = [['call', 'g0']]
            groups = [['steps', [probe('A'), cs, probe('B')]],
                      ['g0', [probe('C0'), {'name': 'pypyr.steps.call', 'in': [['call', 'g']]}, probe('D0')]],
                      ['g', inner], ['on_success', [probe('OS')]], ['on_failure', [probe('OF')]], JT]
            per = {'stop': ['C0', 'C'], 'stoppipeline': ['C0', 'C'], 'stopstepgroup': ['C0', 'C', 'D0'],
                   'jump': ['C0', 'C', 'J', 'D0']}[sig]
        else:
            cs = dict(carrier, name='pypyr.steps.call')
            cs['in'] = [['call', 'g0']]
            groups = [['steps', [probe('A'), cs, probe('B')]],
                      ['g0', [probe('C0'), {'name': 'pypyr.steps.jump', 'in': [['jump', 'g']]}, probe('D0')]],
                      ['g', inner], ['on_success', [probe('OS')]], ['on_failure', [probe('OF')]], JT]
            per = {'stop': ['C0', 'C'], 'stoppipeline': ['C0', 'C'], 'stopstepgroup': ['C0', 'C'],
                   'jump': ['C0', 'C', 'J']}[sig]
        if sig in ('stop', 'stoppipeline'):
            tags = ['A'] + per
        else:
            tags = ['A'] + per * iters + ['B', 'OS']
    elif pos == 'parser_failure_child':
        # the child's context parser fails; its failure handler issues the instruction. stop ends every
        # pipeline; stoppipeline ends only the child: the parent carries on with its next step.
        children['child'] = {'parser': 'vparser',
                             'groups': [['steps', [probe('C')]], ['on_success', [probe('COS')]],
                                        ['on_failure', [probe('CF'), S, probe('D')]]]}
        cs = dict(carrier, name='pypyr.steps.pype')
        cs['in'] = [['pype', D(name='child', pipeArg='FAIL')]]
        groups = [['steps', [probe('A'), cs, probe('B')]], ['on_success', [probe('OS')]],
                  ['on_failure', [probe('OF')]]]
        tags = ['A', 'CF'] if sig == 'stop' else ['A'] + ['CF'] * iters + ['B', 'OS']
    elif pos == 'child_own_out':
        # own context + out: after Stop the child did not complete, nothing is copied and the Stop is still
        # a Stop although the out key does not exist; the other instructions end normally -> out is copied
        first = probe('C') if sig == 'stop' else probe('C', set=D(res='r'))
        children['child'] = [['steps', [first, S, probe('D', set=D(res='late'))]], ['on_success', [probe('COS')]],
                             ['on_failure', [probe('COF')]], JT]
        cs = dict(carrier, name='pypyr.steps.pype')
        cs['in'] = [['pype', D(name='child', useParentContext=False, out='res')]]
        groups = [['steps', [probe('A'), cs, probe('B')]], ['on_success', [probe('OS')]],
                  ['on_failure', [probe('OF')]]]
        per = {'stop': ['C'], 'stoppipeline': ['C'], 'stopstepgroup': ['C', 'COS'], 'jump': ['C', 'J', 'COS']}[sig]
        tags = ['A'] + per if sig == 'stop' else ['A'] + per * iters + ['B', 'OS']
    else:
        inner = [probe('C'), S, probe('D')]
        cfg = {'name': 'child'}
        if pos in ('child_own', 'grandchild'):
            # (a nested pype on a shared context would pop the parent's own `pype` key: in-arguments
            #  are step-scoped, C04 - so the chain uses an own context at the first hop)
            cfg['useParentContext'] = False
        if pos == 'grandchild':
            children['child'] = [['steps', [probe('C0'), {'name': 'pypyr.steps.pype',
                                                          'in': [['pype', D(name='grand')]]}, probe('D0')]],
                                 ['on_success', [probe('COS')]]]
            children['grand'] = [['steps', inner], ['on_success', [probe('GOS')]], JT]
            per = {'stop': ['C0', 'C'], 'stoppipeline': ['C0', 'C', 'D0', 'COS'],
                   'stopstepgroup': ['C0', 'C', 'GOS', 'D0', 'COS'],
                   'jump': ['C0', 'C', 'J', 'GOS', 'D0', 'COS']}[sig]
        else:
            children['child'] = [['steps', inner], ['on_success', [probe('COS')]],
                                 ['on_failure', [probe('COF')]], JT]
            per = {'stop': ['C'], 'stoppipeline': ['C'], 'stopstepgroup': ['C', 'COS'],
                   'jump': ['C', 'J', 'COS']}[sig]
        cs = dict(carrier, name='pypyr.steps.pype')
        cs['in'] = [['pype', D(**cfg)]]
        groups = [['steps', [probe('A'), cs, probe('B')]], ['on_success', [probe('OS')]],
                  ['on_failure', [probe('OF')]]]
        if sig == 'stop':
            tags = ['A'] + per
        else:
            tags = ['A'] + per * iters + ['B', 'OS']
    exp = {'tags': tags, 'outcome': 'ok', 'nerr': 0}
    if not any(k == 'retry' for k, _ in cd):
        exp['sleeps_no_retry'] = True
    return prog_of(groups, children=children), exp, meta


# --------------------------------------------------------------------------
# C03: counters restored after call; jump abandons; switch first true
# --------------------------------------------------------------------------

# foreach item lists of a calling step. The caller's CURRENT item is what must be back in `i` once the call
# returned - whatever that item is: falsy values (None, 0, '', False, [], {}) are items like any other.
C03_ITEM_LISTS = [[10, 20], ['a', None], [None], [None, 'b'], [1, 0], ['x', ''], [True, False], [[1], []],
                  [D(a=1), D()], [0], [False, None, 0, '', [], D()]]


def c03_caller(caller, target):
    if caller == 'call':
        return {'name': 'pypyr.steps.call', 'in': [['call', target]]}
    return {'name': 'pypyr.steps.switch',
            'in': [['switch', [D(case=False, call='nogroup'), D(case=True, call=target), D(default='nogroup')]]]}


def c03_family(rng, n):
    cases = []
    clobbers = {
        'keep': [probe('K')],
        'set': [{'name': 'pypyr.steps.set', 'in': [['set', D(i='clob', whileCounter=99, retryCounter=77,
                                                            call='other', switch='other')]]}, probe('K')],
        'probe_set': [probe('K', set=D(i=[1], whileCounter=True, retryCounter=5))],
        'loops': [dict(probe('K'), foreach=[7, 8], **{'while': {'max': 3}}, retry={'max': 1})],
        'delete': [probe('K'), {'name': 'pypyr.steps.contextclear',
                                'in': [['contextClear', ['i', 'whileCounter', 'retryCounter', 'call', 'switch']]]}],
        'clearall': [probe('K'), 'pypyr.steps.contextclearall'],
        'nested_call': [probe('K'), {'name': 'pypyr.steps.call', 'in': [['call', 'g2']], 'foreach': [5, 6]}],
    }
    decos = [('foreach', None), ('while', {'max': 2, 'stop': pycmp('whileCounter', '>=', 2)}),
             ('retry', {'max': 2})]
    for cname, cl in clobbers.items():
        for dd in subsets(decos):
            if not dd:
                continue
            for depth in (1, 2):
                for caller in ('call', 'switch'):
                    for items in (C03_ITEM_LISTS if any(k == 'foreach' for k, _ in dd) else [None]):
                        cases.append((cname, cl, dd, depth, caller, items))
    rng.shuffle(cases)
    cases = cover_first(cases, lambda c: c[5], lambda c: c[0], lambda c: (c[4], c[3]),
                        lambda c: [k for k, _ in c[2]])
    for cname, cl, dd, depth, caller, items in cases[:n]:
        cs = c03_caller(caller, 'g1' if depth == 1 else 'g0')
        for k, v in dd:
            cs[k] = items if k == 'foreach' else v
        after = probe('AFTER', keys=['call', 'switch'])
        groups = [['steps', [cs, after]], ['g0', [{'name': 'pypyr.steps.call', 'in': [['call', 'g1']]}]],
                  ['g1', json.loads(json.dumps(cl))], ['g2', [probe('K2', set=D(i='deep'))]]]
        has = dict(dd)
        f_items = items if 'foreach' in has else [None]
        w_items = [1, 2] if 'while' in has else [None]
        # one callee entry per (while, foreach) iteration: the stop expression `whileCounter >= 2` is
        # evaluated on the *restored* counter, so exactly two while iterations happen
        entries = len(f_items) * len(w_items)
        k_per_entry = 6 if cname == 'loops' else 1
        tags = []
        for _ in range(entries):
            tags += ['K'] * k_per_entry
            if cname == 'nested_call':
                tags += ['K2', 'K2']
        tags.append('AFTER')
        # after the calling step: `i` is the caller's last item - whatever value that is
        ev_after = ('AFTER', items[-1] if 'foreach' in has else ANY, 2 if 'while' in has else ANY,
                    1 if 'retry' in has else ANY)
        exp = {'tags': tags, 'outcome': 'ok', 'nerr': 0, 'after_event': ev_after}
        yield prog_of(groups, ctx={'k': 'v'}), exp, {'family': 'c03-restore', 'clobber': cname,
                                                      'caller': caller, 'caller_decorators': sorted(has),
                                                      'depth': depth, 'items': json.dumps(items)}


def c03_midloop_family(rng, n):
    """The caller's counters are back after EVERY call, not only after the last iteration: the called group
    overwrites / removes the counters and then fails; the calling step's retry enters the called group a
    second time, whose first probe shows the counters the caller had - per foreach item and while round."""
    E = 'ValueError'
    clobbers = {
        'set': [{'name': 'pypyr.steps.set', 'in': [['set', D(i='clob', whileCounter=99, retryCounter=77)]]}],
        'loops': [dict(probe('L'), foreach=[7, 8], **{'while': {'max': 2}}, retry={'max': 1})],
        'delete': [{'name': 'pypyr.steps.contextclear', 'in': [['contextClear', ['i', 'whileCounter',
                                                                                  'retryCounter']]]}],
    }
    cases = []
    for items in C03_ITEM_LISTS:
        for with_while in (False, True):
            for cname in clobbers:
                for caller in ('call', 'switch'):
                    cases.append((items, with_while, cname, caller))
    rng.shuffle(cases)
    cases = cover_first(cases, lambda c: c[0], lambda c: (c[1], c[2], c[3]))
    for items, with_while, cname, caller in cases[:n]:
        ws = [1, 2] if with_while else [None]
        total = len(items) * len(ws)
        cs = c03_caller(caller, 'g1')
        cs['foreach'] = items
        cs['retry'] = {'max': 2}
        if with_while:
            cs['while'] = {'max': 2}
        callee = [probe('K')] + json.loads(json.dumps(clobbers[cname])) + [probe('X', fails=[E, None] * total)]
        groups = [['steps', [cs, probe('AFTER')]], ['g1', callee]]
        kev = []
        for w in ws:
            for x in items:
                kev += [('K', x, ANY if w is None else w, 1), ('K', x, ANY if w is None else w, 2)]
        exp = {'events_of': {'tag': 'K', 'events': kev}, 'outcome': 'ok', 'nerr': total,
               'after_event': ('AFTER', items[-1], 2 if with_while else ANY, 2)}
        yield prog_of(groups, ctx={'k': 'v'}), exp, {'family': 'c03-restore-midloop', 'clobber': cname,
                                                      'caller': caller, 'while': with_while,
                                                      'items': json.dumps(items)}


def c03_switch_family(rng, n):
    cases = []
    truth = {True: [True, 'true', 1, pyname('t1'), '{t1}'], False: [False, 'no', 0, pyname('f1'), '{f1}', None]}
    for pattern in itertools.product([True, False], repeat=3):
        for default in (False, True):
            for ncase in (1, 2, 3):
                cases.append((pattern[:ncase], default))
    rng.shuffle(cases)
    for pattern, default in cases[:n]:
        sw = []
        for k, t in enumerate(pattern):
            form = rng.choice(['str', 'list', 'dict'])
            call = {'str': f's{k}', 'list': [f's{k}'], 'dict': D(groups=[f's{k}'])}[form]
            sw.append(D(case=rng.choice(truth[t]), call=call))
        if default:
            sw.append(D(default='sd'))
        groups = [['steps', [probe('A'), {'name': 'pypyr.steps.switch', 'in': [['switch', sw]]}, probe('B')]]]
        for k in range(3):
            groups.append([f's{k}', [probe(f'S{k}')]])
        groups.append(['sd', [probe('SD')]])
        first = next((k for k, t in enumerate(pattern) if t), None)
        mid = [f'S{first}'] if first is not None else (['SD'] if default else [])
        yield (prog_of(groups, ctx={'t1': True, 'f1': False}),
               {'tags': ['A'] + mid + ['B'], 'outcome': 'ok', 'nerr': 0},
               {'family': 'c03-switch', 'pattern': list(pattern), 'default': default})


def c03_jump_family(rng, n):
    out = []
    for decos in subsets([('foreach', [1, 2]), ('while', {'max': 2}), ('swallow', True), ('retry', {'max': 2})], 2):
        for where in ('main', 'called'):
            js = {'name': 'pypyr.steps.jump', 'in': [['jump', D(groups=['t1', 't2'], success='ts')]]}
            for k, v in decos:
                js[k] = v
            if where == 'main':
                groups = [['steps', [probe('A'), js, probe('B')]], ['t1', [probe('T1')]], ['t2', [probe('T2')]],
                          ['ts', [probe('TS')]], ['on_success', [probe('OS')]]]
                tags = ['A', 'T1', 'T2', 'TS', 'OS']
            else:
                groups = [['steps', [probe('A'), {'name': 'pypyr.steps.call', 'in': [['call', 'g']]}, probe('B')]],
                          ['g', [probe('C'), js, probe('D')]], ['t1', [probe('T1')]], ['t2', [probe('T2')]],
                          ['ts', [probe('TS')]], ['on_success', [probe('OS')]]]
                tags = ['A', 'C', 'T1', 'T2', 'TS', 'B', 'OS']
            out.append((prog_of(groups), {'tags': tags, 'outcome': 'ok', 'nerr': 0},
                        {'family': 'c03-jump', 'where': where, 'decorators': [k for k, _ in decos]}))
    rng.shuffle(out)
    yield from out[:n]


# --------------------------------------------------------------------------
# C04: per-iteration run/skip/swallow, in-arguments
# --------------------------------------------------------------------------

def c04_family(rng, n):
    out = []
    items = [1, 2, 3, 4]
    for sel in subsets(items):
        sel = list(sel)
        # run true exactly for the selected items, decided per iteration by a !py expression on i
        for mode in ('run', 'skip'):
            expr = {'py': {'op': 'in', 'a': {'n': 'i'}, 'b': {'n': 'sel'}}}
            st = probe('P')
            st['foreach'] = items
            if mode == 'run':
                st['run'] = expr
                ran = [x for x in items if x in sel]
            else:
                st['skip'] = expr
                ran = [x for x in items if x not in sel]
            exp = {'events': [('P', x, ANY, ANY) for x in ran], 'outcome': 'ok', 'nerr': 0}
            out.append((prog_of([['steps', [st]]], ctx={'sel': sel}), exp,
                        {'family': 'c04-per-iteration', 'mode': mode, 'selected': sel}))
    # the same with a `description` on the step (pypyr then evaluates run/skip once up front, only to word its
    # notification): the decision is still taken per iteration. `i` / `whileCounter` are left stale by an
    # earlier loop step, so the up-front value differs from the per-iteration values.
    for sel in ([2, 4], [1], [1, 2, 3, 4], [3]):
        for mode in ('run', 'skip'):
            for loop in ('foreach', 'while'):
                name = 'i' if loop == 'foreach' else 'whileCounter'
                expr = {'py': {'op': 'in', 'a': {'n': name}, 'b': {'n': 'sel'}}}
                pre = probe('PRE')
                pre[loop] = [9] if loop == 'foreach' else {'max': 1}
                st = probe('P')
                st['description'] = 'described step'
                st[loop] = items if loop == 'foreach' else {'max': 4}
                st[mode] = expr
                stale = 9 if loop == 'foreach' else 1
                ran = [x for x in items if (x in sel) == (mode == 'run')]
                if loop == 'foreach':
                    ev = [('PRE', 9, ANY, ANY)] + [('P', x, ANY, ANY) for x in ran]
                else:
                    ev = [('PRE', ANY, 1, ANY)] + [('P', ANY, x, ANY) for x in ran]
                out.append((prog_of([['steps', [pre, st]]], ctx={'sel': sel}),
                            {'events': ev, 'outcome': 'ok', 'nerr': 0},
                            {'family': 'c04-per-iteration-described', 'mode': mode, 'loop': loop, 'selected': sel,
                             'stale': stale}))
    # ... and when the loop variable does not exist at all before the loop (fix c7066aa: the up-front evaluation
    # for the notification must not fail the step)
    for sel in ([2, 4], [1]):
        for mode in ('run', 'skip'):
            for loop in ('foreach', 'while'):
                name = 'i' if loop == 'foreach' else 'whileCounter'
                st = probe('P')
                st['description'] = 'described step'
                st[loop] = items if loop == 'foreach' else {'max': 4}
                st[mode] = {'py': {'op': 'in', 'a': {'n': name}, 'b': {'n': 'sel'}}}
                ran = [x for x in items if (x in sel) == (mode == 'run')]
                ev = [('P', x, ANY, ANY) if loop == 'foreach' else ('P', ANY, x, ANY) for x in ran]
                if loop == 'while':
                    # whileCounter is set to 0 before the loop starts in any case? no: the preview runs first
                    pass
                out.append((prog_of([['steps', [st]]], ctx={'sel': sel}),
                            {'events': ev, 'outcome': 'ok', 'nerr': 0},
                            {'family': 'c04-per-iteration-described', 'mode': mode, 'loop': loop, 'selected': sel,
                             'stale': None, 'site': 'run_step.description-preview'}))
    # the decision changes because the body itself changes the input between iterations
    st = probe('Q', set=D(go=False))
    st['foreach'] = [1, 2, 3]
    st['run'] = '{go}'
    out.append((prog_of([['steps', [st]]], ctx={'go': True}),
                {'events': [('Q', 1, ANY, ANY)], 'outcome': 'ok'}, {'family': 'c04-body-flips-run'}))
    # swallow decided per iteration, after the body
    for swsel in subsets([1, 2, 3]):
        st = probe('F', failRest='ValueError')
        st['foreach'] = [1, 2, 3]
        st['swallow'] = {'py': {'op': 'in', 'a': {'n': 'i'}, 'b': {'n': 'sel'}}}
        ran, outcome = [], 'ok'
        for x in [1, 2, 3]:
            ran.append(x)
            if x not in swsel:
                outcome = ('err', 'ValueError')
                break
        out.append((prog_of([['steps', [st, probe('NEXT')]]], ctx={'sel': list(swsel)}),
                    {'events': [('F', x, ANY, ANY) for x in ran] + ([('NEXT', ANY, ANY, ANY)] if outcome == 'ok' else []),
                     'outcome': outcome, 'nerr': len(ran)},
                    {'family': 'c04-swallow-per-iteration', 'swallowed_items': list(swsel)}))
    # in-arguments: visible, overriding, gone after normal completion
    for decos in subsets([('foreach', [1, 2]), ('while', {'max': 2}), ('retry', {'max': 2}), ('swallow', True)], 3):
        st = probe('I', keys=['k1', 'arg'], set=D(arg='recreated'))
        st['in'].append(['k1', 'inval'])
        st['in'].append(['arg', 'a'])
        st['run'] = '{arg}'          # a decorator expression that only resolves through `in`: 'a' is not true
        st['run'] = pycmp('arg', '!=', 'zzz')
        for k, v in decos:
            st[k] = v
        out.append((prog_of([['steps', [st, probe('AFTER', keys=['k1', 'arg'])]]], ctx={'k1': 'ctxval'}),
                    {'outcome': 'ok', 'ctx_lacks': ['k1', 'arg', 'p'], 'first_keys': {'k1': 'inval', 'arg': 'a'},
                     'after_keys_missing': ['k1', 'arg']},
                    {'family': 'c04-in-args', 'decorators': [k for k, _ in decos]}))
    rng.shuffle(out)
    yield from out[:n]


# --------------------------------------------------------------------------
# C05: loops
# --------------------------------------------------------------------------

def c05_family(rng, n):
    out = []
    iterables = [([], 'empty-expr'), ([5], 'one'), ([1, 2, 3], 'three'), (['a', 'b'], 'strs')]
    for items, _ in iterables:
        for form in ('literal', 'fmt', 'py', 'tuple', 'dict'):
            if form == 'literal' and not items:
                continue       # a literal empty foreach means "not declared" (DESIGN section 6)
            ctx = {'lst': items}
            if form == 'literal':
                fe = items
                seq = items
            elif form == 'fmt':
                fe, seq = '{lst}', items
            elif form == 'py':
                fe, seq = pyname('lst'), items
            elif form == 'tuple':
                ctx = None
                fe, seq = pyname('tup'), items
            else:
                ctx = {'lst': D(**{str(x): 0 for x in items})}
                fe, seq = '{lst}', [str(x) for x in items]
            for m, stop_at, eom in [(None, None, False), (3, None, False), (3, 2, False), (2, None, True),
                                    (0, None, True), (1, None, False), (3, 3, True), (3, 1, True)]:
                st = probe('L', set=D(lst=['changed']))
                st['foreach'] = fe
                if m is not None:
                    w = {'max': m, 'sleep': {'f': [1, 1]}}
                    if stop_at is not None:
                        w['stop'] = pycmp('whileCounter', '>=', stop_at)
                    if eom:
                        w['errorOnMax'] = True
                    st['while'] = w
                run = {}
                if form == 'tuple':
                    run['dict_in'] = {'d': [['tup', {'t': items}]]}
                    prog = prog_of([['steps', [st, probe('Z')]]], run=run)
                else:
                    prog = prog_of([['steps', [st, probe('Z')]]], ctx=ctx)
                if m is None:
                    wseq = [None]
                elif m < 1:
                    wseq = []
                else:
                    wseq = list(range(1, (min(stop_at, m) if stop_at else m) + 1))
                # while > foreach: every while iteration runs the complete foreach sequence. The iterable is
                # evaluated once per foreach_loop call, i.e. once per while iteration: the body's change to
                # `lst` shows from the second while iteration on when the iterable is an expression.
                events = []
                body_ran = False
                for wi, w_ in enumerate(wseq):
                    cur = ['changed'] if (body_ran and form in ('fmt', 'py', 'dict')) else seq
                    for x in cur:
                        events.append(('L', x, MISSING if w_ is None else w_, ANY))
                        body_ran = True
                exhausted = (m is not None and m >= 1 and eom and (stop_at is None or stop_at > m))
                outcome = ('err', 'pypyr.errors.LoopMaxExhaustedError') if exhausted else 'ok'
                if outcome == 'ok':
                    events.append(('Z', ANY, ANY, ANY))
                exp = {'events': events, 'outcome': outcome, 'sleeps': [0.5] * max(len(wseq) - 1, 0)}
                out.append((prog, exp, {'family': 'c05-loops', 'iterable': form, 'len': len(items), 'max': m,
                                        'stop_at': stop_at, 'errorOnMax': eom}))
    # a LITERAL foreach list whose items are expressions: the iterable is evaluated ONCE, before the first
    # iteration - a body that changes what a later item refers to does not change that item; the next while
    # iteration evaluates the list again (then it sees the change).
    for items, vals0, vals1 in [
            (['{x}', '{x}', '{x}'], ['orig', 'orig', 'orig'], ['changed'] * 3),
            (['a', '{x}', 'k-{x}'], ['a', 'orig', 'k-orig'], ['a', 'changed', 'k-changed']),
            ([pyname('x'), 'b', '{x}'], ['orig', 'b', 'orig'], ['changed', 'b', 'changed']),
            (['{x}', ['{x}', 1]], ['orig', ['orig', 1]], ['changed', ['changed', 1]])]:
        for m in (None, 2):
            st = probe('L', set=D(x='changed'))
            st['foreach'] = items
            if m is not None:
                st['while'] = {'max': m}
            events = []
            for w_ in ([None] if m is None else range(1, m + 1)):
                for x in (vals0 if w_ in (None, 1) else vals1):
                    events.append(('L', x, MISSING if w_ is None else w_, ANY))
            events.append(('Z', ANY, ANY, ANY))
            out.append((prog_of([['steps', [st, probe('Z')]]], ctx={'x': 'orig'}),
                        {'events': events, 'outcome': 'ok'},
                        {'family': 'c05-literal-items-evaluated-once', 'items': json.dumps(items), 'max': m}))
    # an unswallowed error ends all loops of the step
    for at in [(1, 'a'), (1, 'b'), (2, 'a'), (2, 'b')]:
        st = probe('E', failIf={'py': {'op': 'and', 'a': {'op': '==', 'a': {'n': 'whileCounter'}, 'b': {'c': at[0]}},
                                      'b': {'op': '==', 'a': {'n': 'i'}, 'b': {'c': at[1]}}}})
        st['foreach'] = ['a', 'b']
        st['while'] = {'max': 3}
        events = []
        for w_ in (1, 2, 3):
            done = False
            for x in ('a', 'b'):
                events.append(('E', x, w_, ANY))
                if (w_, x) == at:
                    done = True
                    break
            if done:
                break
        out.append((prog_of([['steps', [st, probe('Z')]]]),
                    {'events': events, 'outcome': ('err', 'vprobe.ProbeError'), 'nerr': 1},
                    {'family': 'c05-error-ends-loops', 'at': list(at)}))
    rng.shuffle(out)
    yield from out[:n]


# --------------------------------------------------------------------------
# C06: retry schedule
# --------------------------------------------------------------------------

def backoff_value(kind, sleep, n, sleep_max, base):
    if kind in ('fixed', 'jitter'):
        d = sleep[min(n - 1, len(sleep) - 1)] if isinstance(sleep, list) else sleep
    elif kind in ('linear', 'linearjitter'):
        d = n * sleep
    else:
        d = (base ** n) * sleep
    if sleep_max:
        d = min(d, sleep_max)
    return d


def c06_family(rng, n):
    out = []
    E = 'ValueError'
    scripts = [[E], [E, E], [E, E, E], [E, E, E, E, E], [None], [E, None], [E, 'TypeError', None],
               ['TypeError'], [E, 'vprobe.OtherError', E]]
    kinds = ['fixed', 'linear', 'exponential', 'jitter', 'linearjitter', 'exponentialjitter']
    for fails in scripts:
        for mx in (None, 1, 2, 3, 5):
            for kind in kinds:
                sleep = rng.choice([1, 2, {'f': [1, 1]}, [1, 2, 4], [3]]) if kind in ('fixed', 'jitter') \
                    else rng.choice([1, 2, {'f': [1, 1]}])
                sleep_max = rng.choice([None, None, 3, 0, 100])
                base = rng.choice([None, 2, 3])
                jrc = rng.choice([0, {'f': [1, 1]}, {'f': [1, 2]}, 1])
                stop_on = rng.choice([None, None, ['TypeError'], [E]])
                retry_on = rng.choice([None, None, [E], [E, 'vprobe.OtherError'], ['TypeError']])
                if mx is None and all(x for x in fails):
                    continue        # would never end
                rt = {'sleep': sleep, 'backoff': kind}
                if mx is not None:
                    rt['max'] = mx
                if sleep_max is not None:
                    rt['sleepMax'] = sleep_max
                if base is not None:
                    rt['backoffArgs'] = D(base=base)
                if 'jitter' in kind:
                    rt['jrc'] = jrc
                if stop_on:
                    rt['stopOn'] = stop_on
                if retry_on:
                    rt['retryOn'] = retry_on
                st = probe('R', fails=fails)
                st['retry'] = rt
                prog = prog_of([['steps', [st, probe('Z')]]])
                rnd = [[rng.randint(0, 4), 2] for _ in range(6)]
                prog['rnd'] = rnd

                def val(x):
                    return x['f'][0] / (1 << x['f'][1]) if isinstance(x, dict) else x
                sl = [val(x) for x in sleep] if isinstance(sleep, list) else val(sleep)
                attempts, sleeps, outcome = [], [], 'ok'
                k = 0
                while True:
                    k += 1
                    attempts.append(k)
                    err = fails[k - 1] if k - 1 < len(fails) else None
                    if err is None:
                        break
                    if mx and k == mx:
                        outcome = ('err', err)
                        break
                    if stop_on and err in stop_on:
                        outcome = ('err', err)
                        break
                    if retry_on and err not in retry_on:
                        outcome = ('err', err)
                        break
                    d = backoff_value(kind, sl, k, sleep_max, base if base is not None else 2)
                    if 'jitter' in kind:
                        j = val(jrc)
                        sleeps.append((min(j * d, d), max(j * d, d)))
                    else:
                        sleeps.append((d, d))
                exp = {'events': [('R', ANY, ANY, a) for a in attempts] + ([('Z', ANY, ANY, ANY)] if outcome == 'ok' else []),
                       'outcome': outcome, 'sleep_bounds': sleeps, 'nerr': 0 if outcome == 'ok' else 1}
                if outcome != 'ok':
                    exp['err_msg'] = 'boom R'
                out.append((prog, exp, {'family': 'c06-retry', 'kind': kind, 'max': mx, 'script': fails,
                                        'filters': bool(stop_on or retry_on)}))
    rng.shuffle(out)
    yield from out[:n]


def c06_reentry_family(rng, n):
    """One step enters its retry loop several times (retry inside foreach / while): every entry is a retry
    loop of its own - attempts count from 1 again and the sleep schedule starts afresh, from the decorator
    values as they format at that entry (`sleep: '{i}'`, a list-valued sleep starting over)."""
    E = 'ValueError'
    kinds = ['fixed', 'linear', 'exponential', 'jitter', 'linearjitter', 'exponentialjitter']
    cases = []
    for kind in kinds:
        for loop in ('foreach', 'while'):
            forms = ['number', 'expr']
            if kind in ('fixed', 'jitter'):
                forms += ['list', 'list1', 'listexpr']
            for form in forms:
                for fails in ([2, 2], [1, 0, 2], [3, 1], [0, 2, 2], [1, 1, 1], [2, 5]):
                    for mx in (5, None, 3):
                        if mx is None and fails[-1] >= 5:
                            continue
                        cases.append((kind, loop, form, fails, mx))
    rng.shuffle(cases)
    cases = cover_first(cases, lambda c: (c[0], c[1]), lambda c: (c[0], c[2]), lambda c: c[3], lambda c: c[4])
    for kind, loop, form, fails, mx in cases[:n]:
        nent = len(fails)
        vals = [10, 20, 4][:nent] if loop == 'foreach' else list(range(1, nent + 1))   # i / whileCounter per entry
        var = 'i' if loop == 'foreach' else 'whileCounter'
        if form == 'number':
            sleep, per_entry = 2, [2] * nent
        elif form == 'expr':
            sleep, per_entry = '{' + var + '}', list(vals)
        elif form == 'list':
            sleep, per_entry = [1, 2, 4], [[1, 2, 4]] * nent
        elif form == 'list1':
            sleep, per_entry = [3], [[3]] * nent
        else:
            sleep, per_entry = [1, '{' + var + '}', 7], [[1, v, 7] for v in vals]
        sleep_max = rng.choice([None, None, 15, 100])
        base = rng.choice([None, 2, 3])
        jrc = rng.choice([0, {'f': [1, 1]}, {'f': [1, 2]}, 1])
        rt = {'sleep': sleep, 'backoff': kind}
        if mx is not None:
            rt['max'] = mx
        if sleep_max is not None:
            rt['sleepMax'] = sleep_max
        if base is not None:
            rt['backoffArgs'] = D(base=base)
        if 'jitter' in kind:
            rt['jrc'] = jrc
        script = []
        for f in fails:
            script += [E] * f + [None]
        st = probe('R', fails=script)
        st['retry'] = rt
        if loop == 'foreach':
            st['foreach'] = vals
        else:
            st['while'] = {'max': nent}
        prog = prog_of([['steps', [st, probe('Z')]]])
        prog['rnd'] = [[rng.randint(0, 4), 2] for _ in range(16)]
        jv = jrc['f'][0] / (1 << jrc['f'][1]) if isinstance(jrc, dict) else jrc
        events, sleeps, outcome = [], [], 'ok'
        for e, f in enumerate(fails):
            pos = (vals[e], ANY) if loop == 'foreach' else (ANY, vals[e])
            if loop == 'while' and e:
                sleeps.append((0, 0))          # the while loop's own pause between its iterations (sleep: 0)
            for k in range(1, f + 2):
                events.append(('R', pos[0], pos[1], k))
                if k == f + 1:
                    break                      # this attempt succeeds: no sleep after success
                if mx and k == mx:
                    outcome = ('err', E)       # attempts exhausted: no sleep after the last attempt
                    break
                d = backoff_value(kind, per_entry[e], k, sleep_max, base if base is not None else 2)
                sleeps.append((min(jv * d, d), max(jv * d, d)) if 'jitter' in kind else (d, d))
            if outcome != 'ok':
                break
        if outcome == 'ok':
            events.append(('Z', ANY, ANY, ANY))
        exp = {'events': events, 'outcome': outcome, 'sleep_bounds': sleeps, 'nerr': 0 if outcome == 'ok' else 1}
        yield prog, exp, {'family': 'c06-retry-reentry', 'kind': kind, 'loop': loop, 'sleep': form,
                          'failures_per_entry': fails, 'max': mx}


# --------------------------------------------------------------------------
# C07: runErrors entries
# --------------------------------------------------------------------------

def c07_family(rng, n):
    """Entries name the failing step and the place of that step in the pipeline yaml: `at` refers to the step
    of the program; the renderer records where it writes that step (harness/flow_impl.render_pipe), which is
    what the entry's line/col must be - in every way of writing the same document (`LAYOUTS`)."""
    base = []
    # (1) failing step in a foreach with swallow: one entry per failing iteration, in order, accurate fields
    for items, failing in [([1, 2, 3], [2]), ([1, 2, 3], [1, 3]), ([1, 2], [1, 2]), ([1, 2, 3], [])]:
        st = probe('F', failIf={'py': {'op': 'in', 'a': {'n': 'i'}, 'b': {'n': 'bad'}}}, msg='it failed')
        st['foreach'] = items
        st['swallow'] = True
        st['onError'] = D(code=7, who='{k1}', at='{i}')
        for first in (False, True):
            # `first`: the failing step is the very first step of the pipeline (in a flow-style document: line 1)
            steps = [st, probe('Z')] if first else [probe('A'), st, probe('Z')]
            prog = prog_of([['steps', steps]], ctx={'bad': failing, 'k1': 'v1'})
            entries = [{'name': 'vprobe.ProbeError', 'description': 'it failed', 'step': 'vprobe', 'swallowed': True,
                        'customError': D(code=7, who='v1', at=x), 'at': st} for x in failing]
            base.append((prog, {'entries': entries, 'outcome': 'ok',
                                'tags': ([] if first else ['A']) + ['F'] * len(items) + ['Z']},
                         {'family': 'c07-swallow-loop', 'failing': failing, 'first_step': first}))
    # (2) retry: attempts recovered add nothing; exhausted adds exactly one (the last attempt's)
    for fails, mx in [(['ValueError', None], 3), (['ValueError', 'TypeError', None], 3),
                      (['ValueError', 'TypeError', 'RuntimeError'], 3), (['ValueError'], 1)]:
        st = probe('R', fails=fails)
        st['retry'] = {'max': mx}
        last = fails[mx - 1] if len(fails) >= mx and all(fails[:mx]) else None
        for sw in (False, True):
            s2 = json.loads(json.dumps(st))
            if sw:
                s2['swallow'] = True
            entries = [] if last is None else [{'name': last, 'description': 'boom R', 'swallowed': sw,
                                                 'step': 'vprobe', 'customError': D(), 'at': s2}]
            outcome = 'ok' if (last is None or sw) else ('err', last)
            base.append((prog_of([['steps', [s2, probe('Z')]]]),
                         {'entries': entries, 'outcome': outcome},
                         {'family': 'c07-retry', 'script': fails, 'max': mx, 'swallow': sw}))
    # (3) error inside called groups (depth 1..3), caller swallowed / retried / plain: recorded once, by the
    #     failing step only - with the failing step's own position, not the calling step's
    for depth in (1, 2, 3):
        for caller in ('plain', 'swallow', 'retry', 'retry+swallow', 'foreach+swallow'):
            groups = [['steps', None]]
            cs = {'name': 'pypyr.steps.call', 'in': [['call', 'g1']]}
            if 'swallow' in caller:
                cs['swallow'] = True
            if 'retry' in caller:
                cs['retry'] = {'max': 2}
            if 'foreach' in caller:
                cs['foreach'] = ['x', 'y']
            groups[0][1] = [cs, probe('Z')]
            bad = probe('BAD', failRest='vprobe.OtherError', msg='deep')
            for d in range(1, depth + 1):
                if d < depth:
                    groups.append([f'g{d}', [probe(f'C{d}'), {'name': 'pypyr.steps.call', 'in': [['call', f'g{d+1}']]}]])
                else:
                    groups.append([f'g{d}', [probe(f'C{d}'), bad]])
            times = 1
            if 'retry' in caller:
                times *= 2
            if 'foreach' in caller:
                times *= 2
            entries = [{'name': 'vprobe.OtherError', 'description': 'deep', 'step': 'vprobe', 'swallowed': False,
                        'at': bad} for _ in range(times)]
            outcome = 'ok' if 'swallow' in caller else ('err', 'vprobe.OtherError')
            base.append((prog_of(groups), {'entries': entries, 'outcome': outcome},
                         {'family': 'c07-called', 'depth': depth, 'caller': caller}))
    # (4) failure handler failing too: both recorded, chronological; signals add nothing
    a, h = probe('A', failRest='ValueError', msg='first'), probe('H', failRest='TypeError', msg='second')
    groups = [['steps', [a]], ['on_failure', [h, probe('N')]]]
    base.append((prog_of(groups), {'entries': [{'name': 'ValueError', 'description': 'first', 'at': a},
                                               {'name': 'TypeError', 'description': 'second', 'at': h}],
                                   'outcome': ('err', 'ValueError'), 'err_msg': 'first'},
                 {'family': 'c07-handler-fails'}))
    # (5) a failing step in a child pipeline written in another layout than its parent: the entry carries
    #     the place in the child's document
    cbad = probe('CB', failRest='ValueError', msg='child step')
    cbad['swallow'] = True
    groups = [['steps', [probe('A'), {'name': 'pypyr.steps.pype', 'in': [['pype', D(name='child')]]}, probe('Z')]]]
    base.append((prog_of(groups, children={'child': [['steps', [cbad, probe('C2')]]]}),
                 {'entries': [{'name': 'ValueError', 'description': 'child step', 'swallowed': True, 'at': cbad}],
                  'outcome': 'ok', 'tags': ['A', 'CB', 'C2', 'Z']}, {'family': 'c07-child-layout'}))
    out = []
    for bi, (prog, exp, meta) in enumerate(base):
        for li, lay in enumerate(LAYOUTS):
            out.append((bi, li, lay))
    rng.shuffle(out)
    out = cover_first(out, lambda c: c[1], lambda c: c[0])
    for bi, li, lay in out[:n]:
        prog, exp, meta = base[bi]
        # a fresh copy of program and expectation, the `at` references re-pointed into the copy
        steps0 = [st for pipe in prog['pipes'] for _, ss in pipe['groups'] for st in (ss or [])]
        prog2 = json.loads(json.dumps(prog))
        steps2 = [st for pipe in prog2['pipes'] for _, ss in pipe['groups'] for st in (ss or [])]
        exp2 = dict(exp)
        if 'entries' in exp:
            exp2['entries'] = []
            for e in exp['entries']:
                e2 = dict(e)
                if 'at' in e2:
                    e2['at'] = steps2[next(k for k, x in enumerate(steps0) if x is e['at'])]
                exp2['entries'].append(e2)
        with_layout(prog2, lay)
        if meta['family'] == 'c07-child-layout':
            prog2['pipes'][0].pop('layout', None)     # the parent stays in block style
        yield prog2, exp2, dict(meta, layout=json.dumps(lay))


def fix_lines(prog, expect):
    """An entry given with `at` (a complex step of the program) must carry the line and column at which the
    renderer wrote that step."""
    from .flow_impl import prepare
    prepare(prog)
    for e in expect.get('entries') or []:
        if 'at' in e:
            st = e.pop('at')
            e['line'], e['col'] = st['line'], st['col']


# --------------------------------------------------------------------------
# C11: pype
# --------------------------------------------------------------------------

def c11_family(rng, n):
    out = []
    child_endings = {
        'ok': ([probe('C', set=D(k1='child', ck='made', k2='c2')), probe('C2')], ['C', 'C2'], 'ok'),
        'error': ([probe('C', set=D(k1='child', ck='made')), probe('X', failRest='ValueError', msg='child failed')],
                  ['C', 'X', 'CF'], 'err'),
        'error_handler_stops': ([probe('X', failRest='ValueError', msg='child failed')], ['X', 'CF'], 'err'),
        'stop': ([probe('C', set=D(k1='child')), 'pypyr.steps.stop', probe('N')], ['C'], 'stop'),
        'stoppipeline': ([probe('C', set=D(k1='child', ck='made')), 'pypyr.steps.stoppipeline', probe('N')],
                         ['C'], 'ok'),
        'stopstepgroup': ([probe('C', set=D(k1='child', ck='made')), 'pypyr.steps.stopstepgroup', probe('N')],
                          ['C'], 'ok'),
    }
    for ending, (csteps, ctags, kind) in child_endings.items():
        for mode in ('shared', 'own_args', 'own_flag', 'own_out_str', 'own_out_list', 'own_out_map'):
            for raise_error in (None, True, False):
                cfg = {'name': 'child'}
                own = mode != 'shared'
                if mode == 'own_flag':
                    cfg['useParentContext'] = False
                elif own:
                    cfg['args'] = D(a1='x{k2}', k1='fromargs')
                out_spec = None
                if mode == 'own_out_str':
                    out_spec = cfg['out'] = 'ck'
                elif mode == 'own_out_list':
                    out_spec = cfg['out'] = ['ck', 'k1']
                elif mode == 'own_out_map':
                    out_spec = cfg['out'] = D(pk='ck')
                if raise_error is not None:
                    cfg['raiseError'] = raise_error
                children = {'child': [['steps', csteps], ['on_failure', [probe('CF')]]]}
                groups = [['steps', [probe('A'), {'name': 'pypyr.steps.pype', 'in': [['pype', D(**cfg)]]},
                                     probe('B', keys=['k1', 'ck', 'k2', 'pk']),
                                     {'name': 'pypyr.steps.call', 'in': [['call', 'pg']]}]],
                          ['pg', [probe('PG')]], ['on_failure', [probe('OF')]]]
                # group `pg` exists only in the parent: the call after the pype step must resolve there
                children['child'].append(['pg', [probe('WRONG-PG')]])
                tags = ['A'] + ctags
                fails = kind == 'err' and raise_error is not False
                if kind == 'stop':
                    outcome = 'ok'
                elif fails:
                    tags += ['OF']
                    outcome = ('err', 'ValueError')
                else:
                    tags += ['B', 'PG']
                    outcome = 'ok'
                exp = {'tags': tags, 'outcome': outcome}
                if outcome != 'ok':
                    exp['err_msg'] = 'child failed'
                # parent context: isolation / out
                if outcome == 'ok' and kind != 'stop':
                    if own:
                        has = {'k1': 'parent', 'k2': 'p2'}
                        lacks = ['a1']
                        child_ck_set = ending in ('ok', 'error', 'stoppipeline', 'stopstepgroup')
                        if kind != 'err' and out_spec is not None and child_ck_set:
                            if mode == 'own_out_str':
                                has['ck'] = 'made'
                            elif mode == 'own_out_list':
                                has['ck'] = 'made'
                                has['k1'] = 'child'
                            else:
                                has['pk'] = 'made'
                        else:
                            lacks.append('ck')
                        exp['ctx_has'], exp['ctx_lacks'] = has, lacks
                    else:
                        if ending != 'error_handler_stops':
                            exp['ctx_has'] = {'k1': 'child'}
                out.append((prog_of(groups, children=children, ctx={'k1': 'parent', 'k2': 'p2'}), exp,
                            {'family': 'c11-pype', 'ending': ending, 'mode': mode, 'raiseError': raise_error}))
    rng.shuffle(out)
    yield from out[:n]


# --------------------------------------------------------------------------
# Families for inputs the audit of 2026-10 found outside the generated range: names that are no group
# names and `groups` that is no list (the two asserts of stepsrunner / dsl, the `for` of run_step_groups),
# retry / while `max` of every sign and spelling, back-off constructors and callables that fail, negative
# sleeps, an `in` that is no mapping, str(exception) per class, `runErrors` that is no list, decorator
# expressions that do not format, foreach over strings / tuples / numbers, a pipeline that pypes itself.
# Expectations: from the property texts where they speak (order, fail fast, handler once, original error,
# exactly one entry, attempts, sleeps only between attempts); which exception class Python raises for a
# malformed value is "model = implementation" (outcome class given as ANY, or by name when CPython fixes it).
# --------------------------------------------------------------------------

def _call(v, **kw):
    return dict({'name': 'pypyr.steps.call', 'in': [['call', v]]}, **kw)


def _jump(v, **kw):
    return dict({'name': 'pypyr.steps.jump', 'in': [['jump', v]]}, **kw)


def _pype(**cfg):
    return {'name': 'pypyr.steps.pype', 'in': [['pype', D(**cfg)]]}


def c01_names_family(rng, n):
    """'' is no group name (`assert step_group_name`): requesting it is an error of the main phase like any
    other - the groups before it ran, nothing after it runs, the failure group runs once, the caller gets the
    AssertionError. A success / failure group named '' is "none given". `groups` as a string is iterated
    character by character; a truthy number cannot be iterated: no group runs, TypeError, handler once."""
    out = []
    G = [['steps', [probe('S')]], ['a', [probe('GA')]], ['b', [probe('GB')]], ['hf', [probe('HF')]],
         ['hs', [probe('HS')]], ['on_success', [probe('OS')]], ['on_failure', [probe('OF')]], ['', [probe('EMPTY')]]]
    ran = {'steps': 'S', 'a': 'GA', 'b': 'GB'}
    for groups in (['', 'a'], ['a', ''], ['a', '', 'b'], ['']):
        for failure in (None, 'hf', ''):
            run = {'groups': groups}
            if failure is not None:
                run['failure'] = failure
            tags = []
            for g in groups:
                if g == '':
                    break
                tags.append(ran[g])
            if failure == 'hf':
                tags.append('HF')
            out.append((prog_of(json.loads(json.dumps(G)), run=run, ctx={'k': 'v'}),
                        {'tags': tags, 'outcome': ('err', 'AssertionError'), 'nerr': 0},
                        {'family': 'c01-names', 'case': 'empty-name-requested', 'groups': groups, 'failure': failure}))
    for succ, fail_, tags in (('', None, ['GA']), ('', 'hf', ['GA']), ('hs', '', ['GA', 'HS']), ('', '', ['GA'])):
        run = {'groups': ['a'], 'success': succ}
        if fail_ is not None:
            run['failure'] = fail_
        out.append((prog_of(json.loads(json.dumps(G)), run=run, ctx={'k': 'v'}), {'tags': tags, 'outcome': 'ok'},
                    {'family': 'c01-names', 'case': 'empty-handler-name', 'success': succ, 'failure': fail_}))
    # explicit '' handlers with no groups: both falsy -> the defaults steps / on_success / on_failure
    out.append((prog_of(json.loads(json.dumps(G)), run={'success': '', 'failure': ''}, ctx={'k': 'v'}),
                {'tags': ['S', 'OS'], 'outcome': 'ok'}, {'family': 'c01-names', 'case': 'empty-handlers-default'}))
    for gv, tags, oc in (('ab', ['GA', 'GB'], 'ok'), ('ba', ['GB', 'GA'], 'ok'), ('a', ['GA'], 'ok'),
                         ('', ['S', 'OS'], 'ok'), ([], ['S', 'OS'], 'ok'), (0, ['S', 'OS'], 'ok'),
                         (False, ['S', 'OS'], 'ok'), (5, [], ('err', 'TypeError')), (True, [], ('err', 'TypeError'))):
        for failure in (None, 'hf'):
            run = {'groups': gv}
            if failure:
                run['failure'] = failure
            t2, o2 = list(tags), oc
            if gv in ('', [], 0, False) and failure:
                t2 = ['S']                      # groups falsy, a failure group given: only `steps`, no on_success
            if oc != 'ok' and failure:
                t2 = t2 + ['HF']
            out.append((prog_of(json.loads(json.dumps(G)), run=run, ctx={'k': 'v'}), {'tags': t2, 'outcome': o2},
                        {'family': 'c01-names', 'case': 'groups-not-a-list', 'groups': json.dumps(gv),
                         'failure': failure}))
    # the same through jump / call / pype
    for how in ('jump', 'call'):
        for cfg, tags_in in (('', []), (['a', ''], ['GA']), (D(groups=['a', ''], failure='hf'), ['GA', 'HF']),
                             (D(groups='', failure='hf'), None), ('{es}', []), (D(groups=['a'], success='', failure=''), ['GA'])):
            st = _jump(cfg) if how == 'jump' else _call(cfg)
            groups = [['steps', [probe('S'), st, probe('T')]]] + json.loads(json.dumps(G[1:]))
            exp = {}
            if tags_in is None:
                exp = {'tags': ['S', 'OF'], 'outcome': ('err', 'pypyr.errors.KeyInContextHasNoValueError')}
            elif cfg == D(groups=['a'], success='', failure=''):
                exp = {'tags': ['S', 'GA'] + (['T'] if how == 'call' else []) + ['OS'], 'outcome': 'ok'}
            else:
                exp = {'tags': ['S'] + tags_in + ['OF'], 'outcome': ('err', 'AssertionError')}
            out.append((prog_of(groups, ctx={'k': 'v', 'es': ''}), exp,
                        {'family': 'c01-names', 'case': how + '-empty-name', 'cfg': json.dumps(cfg)}))
    child = {'child': [['steps', [probe('C')]], ['a', [probe('CA')]], ['on_failure', [probe('COF')]],
                       ['hf', [probe('CHF')]], ['on_success', [probe('COS')]]]}
    for gv, ctags, oc in ((5, ['CHF'], 'TypeError'), (True, ['CHF'], 'TypeError'), ({'f': [3, 1]}, ['CHF'], 'TypeError'),
                          (0, ['C'], None), ([], ['C'], None), ('', ['CHF'], 'AssertionError'),
                          ('a', ['CA'], None), (['a', ''], ['CA', 'CHF'], 'AssertionError'),
                          (D(a=1), ['CA'], None)):
        groups = [['steps', [probe('A'), _pype(name='child', groups=gv, failure='hf'), probe('B')]],
                  ['on_failure', [probe('OF')]]]
        exp = {'tags': ['A'] + ctags + (['B'] if oc is None else ['OF']), 'outcome': 'ok' if oc is None else ('err', oc)}
        out.append((prog_of(groups, children=json.loads(json.dumps(child)), ctx={'k': 'v'}), exp,
                    {'family': 'c01-names', 'case': 'pype-groups', 'groups': json.dumps(gv)}))
    # `assert context` of control_of_flow_instruction: call / jump on an EMPTY context (no dict_in at all)
    for how in ('jump', 'call'):
        st = {'name': 'pypyr.steps.' + how}
        for sw in (False, True):
            s2 = dict(st, swallow=True) if sw else dict(st)
            groups = [['steps', [s2, probe('T')]], ['on_failure', [probe('OF')]]]
            prog = prog_of(groups)
            # swallowed: the run goes on with T (whose `in` makes the context non-empty)
            exp = ({'outcome': 'ok', 'nerr': 1, 'tags': ['T']} if sw else
                   {'outcome': ('err', 'AssertionError'), 'err_msg': 'context param must exist for ControlOfFlowStep.',
                    'tags': ['OF'], 'nerr': 1})
            out.append((prog, exp, {'family': 'c01-names', 'case': how + '-on-empty-context', 'swallow': sw}))
    rng.shuffle(out)
    out = cover_first(out, lambda c: c[2]['case'])
    yield from out[:n]


def c03_falsy_call_family(rng, n):
    """`call: ''` / `call: []`: no group is ever entered; `reset_context_counters` (in the finally of invoke_step)
    writes the loop counters back and then trips over `assert call.original_config[1]`. That AssertionError is
    an error of the call step's own body: recorded exactly once per escape by the call step (C07), swallowed
    by `swallow`, re-attempted by `retry`; the caller's loop counter is the caller's afterwards (C03)."""
    out = []
    for cfg in ('', []):
        for deco in ('plain', 'swallow', 'foreach+swallow', 'while+swallow', 'retry', 'retry+swallow',
                     'foreach+while+retry+swallow'):
            st = _call(cfg)
            iters, attempts = 1, 1
            if 'swallow' in deco:
                st['swallow'] = True
            if 'foreach' in deco:
                st['foreach'] = ['x', 'y']
                iters *= 2
            if 'while' in deco:
                st['while'] = {'max': 2}
                iters *= 2
            if 'retry' in deco:
                st['retry'] = {'max': 2, 'sleep': 1}
                attempts = 2
            groups = [['steps', [probe('A'), st, probe('B', keys=['i', 'whileCounter', 'retryCounter', 'call'])]],
                      ['g1', [probe('G1')]], ['on_failure', [probe('OF')]]]
            sw = 'swallow' in deco
            nent = iters if sw else 1
            entries = [{'name': 'AssertionError', 'description': '', 'step': 'pypyr.steps.call', 'swallowed': sw,
                        'at': st} for _ in range(nent)]
            # sleeps: retry sleeps 1 between its two attempts; while sleeps 0 between its two iterations
            per_item = [1] * (attempts - 1)
            per_while = per_item * (2 if 'foreach' in deco else 1)
            sleeps = (per_while + [0] + per_while) if ('while' in deco and sw) else (per_while if sw else per_item)
            exp = {'entries': entries, 'outcome': 'ok' if sw else ('err', 'AssertionError'),
                   'tags': ['A'] + (['B'] if sw else ['OF']), 'sleeps': sleeps}
            out.append((prog_of(groups, ctx={'k': 'v'}), exp,
                        {'family': 'c03-falsy-call', 'cfg': json.dumps(cfg), 'decorators': deco}))
    # expressions that format to '' / []: the raw configuration is truthy, so the assert holds; '' is no group
    # name (AssertionError out of the called groups: already "handled", NOT recorded by the call step), [] is
    # "no groups" (ValueError)
    for cfg, err in (('{es}', 'AssertionError'), ('{empty}', 'ValueError'), (D(groups=['g1', '']), 'AssertionError')):
        for sw in (False, True):
            st = _call(cfg, swallow=True) if sw else _call(cfg)
            groups = [['steps', [probe('A'), st, probe('B')]], ['g1', [probe('G1')]], ['on_failure', [probe('OF')]]]
            inner = ['G1'] if isinstance(cfg, dict) else []
            exp = {'tags': ['A'] + inner + (['B'] if sw else ['OF']), 'nerr': 0,
                   'outcome': 'ok' if sw else ('err', err)}
            out.append((prog_of(groups, ctx={'k': 'v', 'es': '', 'empty': []}), exp,
                        {'family': 'c03-falsy-call', 'cfg': json.dumps(cfg), 'decorators': 'swallow' if sw else 'plain'}))
    rng.shuffle(out)
    out = cover_first(out, lambda c: c[2]['cfg'], lambda c: c[2]['decorators'])
    for prog, exp, meta in out[:n]:
        yield prog, exp, meta


def _retry_oracle(mx_raw, ctx, fails, stop_on=None, retry_on=None):
    """Attempts / outcome of a retry loop by the property text, extended by `max` as the code reads it:
    falsy raw value = unbounded; else int(formatted): 0 = unbounded, negative = ONE attempt and, if that fails
    retryably, the AssertionError of `assert is_retry_ok`. -> (attempt counters, outcome, nsleeps) or None when
    the value does not convert (then: which exception is model = implementation, no attempt is made)."""
    v = mx_raw
    if isinstance(v, str) and v.startswith('{') and v.endswith('}'):
        v = ctx[v[1:-1]]
    if isinstance(v, dict) and 'f' in v:
        v = v['f'][0] / (1 << v['f'][1])
    if not mx_raw:
        m = None
    else:
        try:
            m = int(v)
        except (ValueError, TypeError):
            return None
    attempts, k, nsleeps = [], 0, 0
    while True:
        k += 1
        attempts.append(k)
        err = fails[k - 1] if k - 1 < len(fails) else None
        if err is None:
            return attempts, 'ok', nsleeps
        if m and k == m:
            return attempts, ('err', err), nsleeps
        if (stop_on and err in stop_on) or (retry_on and err not in retry_on):
            return attempts, ('err', err), nsleeps
        if m and not k < m:
            return attempts, ('err', 'AssertionError'), nsleeps
        nsleeps += 1


def c06_max_family(rng, n):
    out = []
    E = 'ValueError'
    ctx = {'neg': -1, 'two': 2, 'zero': 0, 'k': 'v'}
    for mx in (None, 0, -1, -5, 1, 2, 3, '{neg}', '{two}', '{zero}', {'f': [5, 1]}, {'f': [-5, 1]}, '2', ' 3 ', '-3', '0',
               True, False, '', 'x', [1], '2.5'):
        for fails in ([E], [E, E], [E, E, E, E], [None], ['TypeError', None]):
            for kind in ('fixed', 'jitter', 'linear'):
                rt = {'sleep': 2, 'backoff': kind}
                if mx is not None:
                    rt['max'] = mx
                if kind == 'jitter':
                    rt['jrc'] = {'f': [1, 1]}
                st = probe('R', fails=fails)
                st['retry'] = rt
                prog = prog_of([['steps', [st, probe('Z')]], ['on_failure', [probe('OF')]]], ctx=ctx)
                prog['rnd'] = [[rng.randint(0, 4), 2] for _ in range(6)]
                o = _retry_oracle(mx, ctx, fails)
                if o is None:
                    exp = {'tags': ['OF'], 'outcome': ('err', ANY), 'nerr': 1}
                else:
                    attempts, outcome, ns = o
                    d = {'fixed': lambda k: (2, 2), 'jitter': lambda k: (1, 2), 'linear': lambda k: (2 * k, 2 * k)}[kind]
                    exp = {'events': [('R', ANY, ANY, a) for a in attempts] +
                           ([('Z', ANY, ANY, ANY)] if outcome == 'ok' else [('OF', ANY, ANY, ANY)]),
                           'outcome': outcome, 'sleep_bounds': [d(k + 1) for k in range(ns)],
                           'nerr': 0 if outcome == 'ok' else 1}
                    if outcome != 'ok' and outcome[1] != 'AssertionError':
                        exp['err_msg'] = 'boom R'
                out.append((prog, exp, {'family': 'c06-max', 'max': json.dumps(mx), 'script': fails, 'kind': kind}))
    rng.shuffle(out)
    out = cover_first(out, lambda c: c[2]['max'], lambda c: c[2]['kind'])
    yield from out[:n]


def c06_fault_family(rng, n):
    """Back-off constructors and callables that fail, names that do not resolve, negative durations, filters
    given as a plain string. What is fixed by the property text: the number of attempts before the fault, no
    sleep once it occurred, exactly one runErrors entry; the fault's class is CPython's."""
    out = []
    E = 'ValueError'
    ctx = {'bname': 'linear', 'names': [E], 'sname': 'xValueErrorx', 'neg': -1, 'empty': [], 'two': 2}
    rows = [
        # (retry config, attempts when the body fails twice then succeeds, outcome class or None, sleeps)
        ({'sleep': []}, 0, 'IndexError', []), ({'sleep': [], 'backoff': 'jitter'}, 0, 'IndexError', []),
        ({'sleep': '{empty}'}, 0, 'IndexError', []),
        ({'sleep': [], 'backoff': 'linear'}, 1, 'TypeError', []),
        ({'sleep': [1, 2], 'backoff': 'linear'}, 1, 'TypeError', []),
        ({'sleep': [1, 2], 'backoff': 'linear', 'sleepMax': 5}, 1, 'TypeError', []),
        ({'sleep': [1, 2], 'backoff': 'linearjitter'}, 1, 'TypeError', []),
        ({'sleep': [1, 2], 'backoff': 'exponential'}, 1, 'TypeError', []),
        ({'sleep': [1], 'backoff': 'exponentialjitter', 'jrc': 1}, 1, 'TypeError', []),
        ({'sleep': 1, 'backoff': 'exponential', 'backoffArgs': D(base='x')}, 1, 'TypeError', []),
        ({'sleep': 1, 'backoff': 'exponential', 'backoffArgs': D(base=None)}, 1, 'TypeError', []),
        ({'sleep': 1, 'backoff': 'exponential', 'backoffArgs': 'abc'}, 0, 'AttributeError', []),
        ({'sleep': 1, 'backoff': 'exponentialjitter', 'backoffArgs': [1]}, 0, 'AttributeError', []),
        ({'sleep': 1, 'backoff': 'exponential', 'backoffArgs': 0}, 3, None, [2, 4]),
        ({'sleep': 1, 'backoff': 'exponential', 'backoffArgs': D()}, 3, None, [2, 4]),
        ({'sleep': 1, 'backoff': 'exponential', 'backoffArgs': D(other=1)}, 3, None, [2, 4]),
        ({'sleep': 1, 'backoff': 'exponential', 'backoffArgs': D(base='{two}')}, 3, None, [2, 4]),
        ({'sleep': 1, 'backoff': 'linear', 'backoffArgs': 'abc'}, 3, None, [1, 2]),
        ({'sleep': 1, 'backoff': 'fixed', 'backoffArgs': [1]}, 3, None, [1, 1]),
        ({'sleep': -1}, 1, 'ValueError', []), ({'sleep': '{neg}', 'backoff': 'linear'}, 1, 'ValueError', []),
        ({'sleep': [0, -1]}, 2, 'ValueError', [0]), ({'sleep': 1, 'backoff': 'jitter', 'jrc': -1}, 1, 'ValueError', []),
        ({'sleep': 1, 'backoff': '{bname}'}, 3, None, [1, 2]), ({'sleep': 1, 'backoff': ''}, 3, None, [1, 1]),
        ({'sleep': 1, 'backoff': 'nope'}, 0, 'ValueError', []), ({'sleep': 1, 'backoff': 'Fixed'}, 0, 'ValueError', []),
        ({'sleep': 1, 'backoff': 'nomodule.X'}, 0, 'pypyr.errors.PyModuleNotFoundError', []),
        ({'sleep': 1, 'backoff': 'nomodule.a.X'}, 0, 'pypyr.errors.PyModuleNotFoundError', []),
        ({'sleep': 1, 'backoff': 'vprobe.Nope'}, 0, 'AttributeError', []),
        ({'sleep': 1, 'backoff': 5}, 0, 'AttributeError', []), ({'sleep': 1, 'backoff': [1]}, 0, 'TypeError', []),
        ({'sleep': 1, 'backoff': '{two}'}, 0, 'AttributeError', []),
        # stopOn / retryOn as a plain string: `name in 'text'` is a substring test
        ({'stopOn': 'ValueError'}, 1, E, []), ({'stopOn': 'xValueErrorx'}, 1, E, []), ({'stopOn': 'alue'}, 3, None, [0, 0]),
        ({'stopOn': '{sname}'}, 1, E, []), ({'stopOn': '{names}'}, 1, E, []), ({'stopOn': 5}, 1, 'TypeError', []),
        ({'retryOn': 'ValueError'}, 3, None, [0, 0]), ({'retryOn': 'xValueErrorx TypeError'}, 3, None, [0, 0]),
        ({'retryOn': 'alue'}, 1, E, []), ({'retryOn': '{names}'}, 3, None, [0, 0]), ({'retryOn': 5}, 1, 'TypeError', []),
        ({'stopOn': '', 'retryOn': []}, 3, None, [0, 0]),
    ]
    for rt, nattempts, err, sleeps in rows:
        for sw in (False, True):
            cfg = dict({'max': 4}, **json.loads(json.dumps(rt)))
            st = probe('R', fails=[E, E])
            st['retry'] = cfg
            if sw:
                st['swallow'] = True
            prog = prog_of([['steps', [st, probe('Z')]], ['on_failure', [probe('OF')]]], ctx=ctx)
            # scripted random.uniform: the upper end of [jrc*d, d]; for the negative jrc the lower end
            prog['rnd'] = [[0, 2]] * 6 if cfg.get('jrc') == -1 else [[4, 2]] * 6
            ok = err is None
            exp = {'events': [('R', ANY, ANY, k + 1) for k in range(nattempts)] +
                   [('Z', ANY, ANY, ANY)] if (ok or sw) else
                   [('R', ANY, ANY, k + 1) for k in range(nattempts)] + [('OF', ANY, ANY, ANY)],
                   'outcome': 'ok' if (ok or sw) else ('err', err), 'sleeps': sleeps, 'nerr': 0 if ok else 1}
            if not ok:
                exp['entries'] = [{'name': err, 'swallowed': sw, 'step': 'vprobe', 'at': st}]
                del exp['nerr']
            out.append((prog, exp, {'family': 'c06-fault', 'retry': json.dumps(rt), 'swallow': sw}))
    rng.shuffle(out)
    out = cover_first(out, lambda c: c[2]['retry'])
    for prog, exp, meta in out[:n]:
        yield prog, exp, meta


def c05_edge_family(rng, n):
    """while `max` in every spelling (not at all when max < 1), a negative sleep (time.sleep raises: outside
    run/skip/swallow - never recorded, never swallowed), foreach over a string / tuple / mapping / number."""
    out = []
    ctx = {'neg': -1, 'zero': 0, 'two': 2, 'tup': {'t': [1, 'b']}, 'word': 'ab', 'n1': 1, 'k': 'v', 'empty': []}
    for mx, iters in ((-1, 0), (0, 0), ('0', 0), ('-2', 0), ('{neg}', 0), ('{zero}', 0), (False, 0), ('2', 2), (' 3 ', 3),
                      ({'f': [5, 1]}, 2), ({'f': [1, 1]}, 0), (True, 1), ('{two}', 2), ('x', None), ('', None), ([2], None),
                      ('2.5', None)):
        for eom in (False, True):
            st = probe('W')
            st['while'] = {'max': mx, 'sleep': 1}
            if eom:
                st['while']['errorOnMax'] = True
            st['swallow'] = True
            prog = prog_of([['steps', [st, probe('Z')]], ['on_failure', [probe('OF')]]], ctx=ctx)
            if iters is None:
                exp = {'tags': ['OF'], 'outcome': ('err', ANY), 'nerr': 0, 'sleeps': []}
            elif eom and iters >= 1:
                exp = {'events': [('W', ANY, k + 1, ANY) for k in range(iters)] + [('OF', ANY, ANY, ANY)], 'nerr': 0,
                       'outcome': ('err', 'pypyr.errors.LoopMaxExhaustedError'), 'sleeps': [1] * (iters - 1)}
            else:
                exp = {'events': [('W', ANY, k + 1, ANY) for k in range(iters)] + [('Z', ANY, ANY, ANY)],
                       'outcome': 'ok', 'sleeps': [1] * max(0, iters - 1), 'nerr': 0}
            out.append((prog, exp, {'family': 'c05-edge', 'case': 'while-max', 'max': json.dumps(mx), 'errorOnMax': eom}))
    for sl in (-1, {'f': [-1, 1]}, '{neg}'):
        for mx, stop in ((1, None), (2, None), (3, None), (3, pycmp('whileCounter', '>=', 1))):
            st = probe('W')
            st['while'] = {'max': mx, 'sleep': sl}
            if stop is not None:
                st['while']['stop'] = stop
            st['swallow'] = True
            prog = prog_of([['steps', [st, probe('Z')]], ['on_failure', [probe('OF')]]], ctx=ctx)
            if mx == 1 or stop is not None:
                exp = {'tags': ['W', 'Z'], 'outcome': 'ok', 'sleeps': [], 'nerr': 0}      # no sleep is ever due
            else:
                exp = {'tags': ['W', 'OF'], 'outcome': ('err', 'ValueError'), 'err_msg': 'sleep length must be non-negative',
                       'sleeps': [], 'nerr': 0}
            out.append((prog, exp, {'family': 'c05-edge', 'case': 'while-negative-sleep', 'sleep': json.dumps(sl),
                                    'max': mx, 'stop': stop is not None}))
    for fe, items in (('ab', ['a', 'b']), ('{word}', ['a', 'b']), ('{tup}', [1, 'b']), (D(ka=1, kb=2), ['ka', 'kb']),
                      ('{k}', ['v']), ('{empty}', []), (5, None), (True, None), ({'py': {'c': 3}}, None), ('{n1}', None),
                      ({'f': [3, 1]}, None)):
        st = probe('F')
        st['foreach'] = fe
        st['swallow'] = True
        prog = prog_of([['steps', [st, probe('Z')]], ['on_failure', [probe('OF')]]], ctx=ctx)
        if items is None:
            exp = {'tags': ['OF'], 'outcome': ('err', 'TypeError'), 'nerr': 0}
        else:
            exp = {'events': [('F', x, ANY, ANY) for x in items] + [('Z', ANY, ANY, ANY)], 'outcome': 'ok', 'nerr': 0}
        out.append((prog, exp, {'family': 'c05-edge', 'case': 'foreach-iterable', 'foreach': json.dumps(fe)}))
    rng.shuffle(out)
    out = cover_first(out, lambda c: c[2]['case'], lambda c: c[2].get('max'), lambda c: c[2].get('foreach'))
    yield from out[:n]


def c04_in_family(rng, n):
    """`in` that is no mapping: set_step_input_context itself fails - before every decorator: the body does not
    run, nothing is recorded, swallow / retry / run: false do not apply. ('' and {} are "no arguments".)
    And decorator expressions that fail to format: run / skip outside the try, swallow inside its handler."""
    out = []
    decos = [{}, {'swallow': True}, {'retry': {'max': 3}}, {'run': False}, {'skip': True}, {'foreach': [1, 2], 'swallow': True},
             {'while': {'max': 2}, 'swallow': True}, {'onError': 'x'}, {'description': 'text'}]
    for bad, err in (('ab', 'ValueError'), ('x', 'ValueError'), (5, 'TypeError'), (0, 'TypeError'), (True, 'TypeError'),
                     ({'f': [1, 1]}, 'TypeError'), ('', None)):
        for dk in decos:
            # the probe's configuration `p` comes from the initial context (the step's own `in` is the thing under test)
            st = dict({'name': 'vprobe', 'in': {'bad': bad}}, **json.loads(json.dumps(dk)))
            prog = prog_of([['steps', [st, probe('Z')]], ['on_failure', [probe('OF')]]],
                           ctx={'p': P('X'), 'k': 'v'})
            if err is None:
                continue_ = not (dk.get('run') is False or dk.get('skip') is True)
                reps = 2 if ('foreach' in dk or 'while' in dk) else 1
                exp = {'tags': (['X'] * reps if continue_ else []) + ['Z'], 'outcome': 'ok', 'nerr': 0}
            else:
                exp = {'tags': ['OF'], 'outcome': ('err', err), 'nerr': 0, 'sleeps': []}
            out.append((prog, exp, {'family': 'c04-in', 'case': 'in-not-a-mapping', 'in': json.dumps(bad),
                                    'decorators': json.dumps(dk)}))
    E = 'pypyr.errors.KeyNotInContextError'
    for key in ('run', 'skip', 'swallow'):
        for expr in ('{nokey}', pyname('nokey')):
            for extra in ({}, {'foreach': [1, 2]}, {'retry': {'max': 2}}, {'while': {'max': 2}}):
                fails = key == 'swallow'
                st = probe('K', failRest='ValueError') if fails else probe('K')
                st[key] = expr
                st.update(json.loads(json.dumps(extra)))
                prog = prog_of([['steps', [probe('A'), st, probe('Z')]], ['on_failure', [probe('OF')]]], ctx={'k': 'v'})
                ename = E if isinstance(expr, str) else 'NameError'
                ktags = (['K', 'K'] if 'retry' in extra else ['K']) if fails else []
                exp = {'tags': ['A'] + ktags + ['OF'], 'outcome': ('err', ename), 'nerr': 0}
                out.append((prog, exp, {'family': 'c04-in', 'case': key + '-does-not-format', 'expr': json.dumps(expr),
                                        'extra': json.dumps(extra)}))
    rng.shuffle(out)
    out = cover_first(out, lambda c: c[2]['case'], lambda c: c[2].get('in'), lambda c: c[2].get('decorators'))
    yield from out[:n]


def c07_str_family(rng, n):
    """`description` is str(exception): KeyError quotes its argument. `runErrors` that is there and no list:
    save_error's append fails (AttributeError propagates - no entry, not swallowed). An onError that does
    not format: its error propagates instead (no entry)."""
    out = []
    for cls, msg, desc in (('KeyError', 'first', "'first'"), ('KeyError', "it's", '"it\'s"'), ('KeyError', None, "'boom T'"),
                           ('LookupError', 'first', 'first'), ('IndexError', 'first', 'first'), ('ValueError', "it's", "it's")):
        for sw in (False, True):
            kw = {'failRest': cls}
            if msg is not None:
                kw['msg'] = msg
            st = probe('T', **kw)
            if sw:
                st['swallow'] = True
            prog = prog_of([['steps', [probe('A'), st, probe('Z')]]], ctx={'k': 'v'})
            exp = {'entries': [{'name': cls, 'description': desc, 'step': 'vprobe', 'swallowed': sw, 'at': st}],
                   'outcome': 'ok' if sw else ('err', cls), 'tags': ['A', 'T'] + (['Z'] if sw else [])}
            if not sw:
                exp['err_msg'] = desc
            out.append((prog, exp, {'family': 'c07-str', 'case': 'str-of-exception', 'cls': cls, 'msg': msg, 'swallow': sw}))
    for pre in ('x', None, D(a=1), 5, {'f': [1, 1]}, True):
        for sw in (False, True):
            st = probe('T', failRest='ValueError')
            if sw:
                st['swallow'] = True
            prog = prog_of([['steps', [probe('A'), st, probe('Z')]], ['on_failure', [probe('OF')]]],
                           ctx={'k': 'v', 'runErrors': pre})
            exp = {'tags': ['A', 'T', 'OF'], 'outcome': ('err', 'AttributeError'), 'ctx_has': {'runErrors': pre}}
            out.append((prog, exp, {'family': 'c07-str', 'case': 'runErrors-no-list', 'pre': json.dumps(pre), 'swallow': sw}))
    for pre in ([], [D(name='old')]):
        st = probe('T', failRest='ValueError')
        st['swallow'] = True
        prog = prog_of([['steps', [probe('A'), st, probe('Z')]]], ctx={'k': 'v', 'runErrors': pre})
        exp = {'tags': ['A', 'T', 'Z'], 'outcome': 'ok', 'nerr': len(pre) + 1}
        out.append((prog, exp, {'family': 'c07-str', 'case': 'runErrors-a-list', 'pre': json.dumps(pre)}))
    for oe, ename in (('{nokey}', 'pypyr.errors.KeyNotInContextError'), (D(a='{nokey}'), 'pypyr.errors.KeyNotInContextError'),
                      (pyname('nokey'), 'NameError'), ([1, '{nokey}'], 'pypyr.errors.KeyNotInContextError')):
        for sw in (False, True):
            st = probe('T', failRest='ValueError')
            st['onError'] = oe
            if sw:
                st['swallow'] = True
            prog = prog_of([['steps', [probe('A'), st, probe('Z')]], ['on_failure', [probe('OF')]]], ctx={'k': 'v'})
            exp = {'tags': ['A', 'T', 'OF'], 'outcome': ('err', ename), 'nerr': 0}
            out.append((prog, exp, {'family': 'c07-str', 'case': 'onError-does-not-format', 'onError': json.dumps(oe),
                                    'swallow': sw}))
    rng.shuffle(out)
    out = cover_first(out, lambda c: c[2]['case'], lambda c: c[2].get('cls'), lambda c: c[2].get('pre'))
    for prog, exp, meta in out[:n]:
        yield prog, exp, meta


def c11_self_family(rng, n):
    """A pipeline that pypes ITSELF, the depth counted in the context (shared, or handed down through args and
    brought back through out): one level per pype until the bound; every level's steps before the pype step
    run on the way down, those after it on the way up; the pipeline stack is balanced at every level."""
    out = []
    for bound in (1, 2, 3, 4):
        for mode in ('shared', 'own', 'own+out'):
            for ending in ('ok', 'stop', 'stoppipeline', 'error', 'error-swallowed'):
                cfg = {'name': 'main'}
                if mode != 'shared':
                    cfg['args'] = D(depth='{depth}')
                if mode == 'own+out':
                    cfg['out'] = 'depth'
                count = {'name': 'pypyr.steps.set',
                         'in': [['set', D(depth={'py': {'op': '+', 'a': {'n': 'depth'}, 'b': {'c': 1}}})]]}
                again = {'name': 'pypyr.steps.pype', 'in': [['pype', D(**cfg)]], 'skip': pycmp('depth', '>=', bound)}
                if ending == 'error-swallowed':
                    again['swallow'] = True
                bottom = {'ok': probe('BOT', run=None), 'stop': 'pypyr.steps.stop', 'stoppipeline': 'pypyr.steps.stoppipeline',
                          'error': probe('BOT', failRest='ValueError'), 'error-swallowed': probe('BOT', failRest='ValueError')}[ending]
                if isinstance(bottom, dict):
                    bottom.pop('run', None)
                    bottom['run'] = pycmp('depth', '>=', bound)
                else:
                    bottom = {'name': bottom, 'run': pycmp('depth', '>=', bound)}
                steps = [count, probe('DOWN', keys=['depth']), again, bottom, probe('UP', keys=['depth'])]
                prog = prog_of([['steps', steps]], ctx={'depth': 0, 'k': 'v'})
                down = ['DOWN'] * bound
                # `seen`: the depth a level sees after its pype step returned - the innermost one's (shared context,
                # or brought back through `out` when the child ended normally), else its own
                shared_up = mode in ('shared', 'own+out')
                if ending == 'ok':
                    tags = down + (['BOT', 'UP'] * bound if shared_up else ['BOT'] + ['UP'] * bound)
                    oc = 'ok'
                elif ending == 'stop':
                    tags, oc = down, 'ok'
                elif ending == 'stoppipeline':
                    # every level that sees depth >= bound ends itself the same way
                    tags, oc = (down if shared_up else down + ['UP'] * (bound - 1)), 'ok'
                elif ending == 'error':
                    tags, oc = down + ['BOT'], ('err', 'ValueError')
                else:
                    # the pype step swallows the child's error and the level carries on; `out` is not written
                    # for a failed child; in the shared context every level then fails at its own BOT
                    if mode == 'shared':
                        tags, oc = down + ['BOT'] * bound, ('err', 'ValueError')
                    else:
                        tags = down + ['BOT'] + ['UP'] * (bound - 1)
                        oc = ('err', 'ValueError') if bound == 1 else 'ok'
                exp = {'tags': tags, 'outcome': oc}
                if ending == 'ok':
                    exp['ctx_has'] = {'depth': bound if shared_up else 1}
                out.append((prog, exp, {'family': 'c11-self', 'bound': bound, 'mode': mode, 'ending': ending}))
    rng.shuffle(out)
    out = cover_first(out, lambda c: c[2]['mode'], lambda c: c[2]['ending'], lambda c: c[2]['bound'])
    yield from out[:n]


def c03_counter_names_family(rng, n):
    """Group names given through expressions that depend on the caller's own loop counters: `call: 'g{i}'` under
    foreach, `'g{whileCounter}'` under while, `'g{retryCounter}'` under retry, `{'groups': ['g{i}', 'h']}`, a switch
    whose case calls `'g{i}'`. Each iteration calls the group its counter names; the called group overwrites all
    three counters and deletes the caller's configuration; after every return the counters are the caller's
    again, the raw configuration (the unformatted string) is back."""
    out = []
    clobber = D(i='X', whileCounter=99, retryCounter=77)
    for loop in ('foreach', 'while', 'retry', 'foreach+while'):
        for how in ('call-str', 'call-dict', 'switch'):
            for sw in (False, True):
                key = {'foreach': 'i', 'while': 'whileCounter', 'retry': 'retryCounter', 'foreach+while': 'i'}[loop]
                expr = 'g{' + key + '}'
                if how == 'call-str':
                    st = _call(expr)
                    cfgkey = 'call'
                elif how == 'call-dict':
                    st = _call(D(groups=[expr, 'h']))
                    cfgkey = 'call'
                else:
                    st = {'name': 'pypyr.steps.switch',
                          'in': [['switch', [D(case=False, call='nogroup'), D(case=True, call=expr)]]]}
                    cfgkey = 'switch'
                visits = []          # (group tag, i, w, r) in order
                if loop == 'foreach':
                    st['foreach'] = [1, 2]
                    visits = [(1, 1, ANY, ANY), (2, 2, ANY, ANY)]
                elif loop == 'while':
                    st['while'] = {'max': 2}
                    visits = [(1, ANY, 1, ANY), (2, ANY, 2, ANY)]
                elif loop == 'retry':
                    # the called group g1 fails (so attempt 2 calls g2, which succeeds)
                    st['retry'] = {'max': 3}
                    visits = [(1, ANY, ANY, 1), (2, ANY, ANY, 2)]
                else:
                    st['foreach'] = [1, 2]
                    st['while'] = {'max': 2}
                    visits = [(1, 1, 1, ANY), (2, 2, 1, ANY), (1, 1, 2, ANY), (2, 2, 2, ANY)]
                if sw:
                    st['swallow'] = True
                g1 = [probe('G1', set=clobber, **{'del': [cfgkey]})]
                if loop == 'retry':
                    g1.append(probe('G1F', failRest='ValueError'))
                groups = [['steps', [st, probe('AFTER', keys=[cfgkey])]], ['g1', g1],
                          ['g2', [probe('G2', set=clobber, **{'del': [cfgkey]})]], ['h', [probe('H')]],
                          ['nogroup', [probe('WRONG')]]]
                events = []
                for (g, i, w, r) in visits:
                    events.append((f'G{g}', i, w, r))
                    if loop == 'retry' and g == 1:
                        events.append(('G1F', ANY, ANY, ANY))
                    elif how == 'call-dict':
                        events.append(('H', ANY, ANY, ANY))
                last = visits[-1]
                events.append(('AFTER', last[1], last[2], last[3]))
                exp = {'events': events, 'outcome': 'ok', 'nerr': 1 if loop == 'retry' else 0}
                out.append((prog_of(groups, ctx={'k': 'v'}), exp,
                            {'family': 'c03-counter-names', 'loop': loop, 'how': how, 'swallow': sw}))
    rng.shuffle(out)
    out = cover_first(out, lambda c: c[2]['loop'], lambda c: c[2]['how'])
    yield from out[:n]


def c02_parser_handler_family(rng, n):
    """The failure handler that runs because the pipeline's CONTEXT PARSER failed is a step-group like any other:
    `call` / `switch` run their groups and hand control back to the calling step, `jump` moves on and does not
    come back, none of them is an error (no runErrors entry of the handler's making, nothing for the handler's
    swallow-everything to swallow). Root pipeline (`args_in`), child on the shared context, child on its own."""
    out = []
    hows = ('call', 'switch', 'call-dict', 'call-nested', 'jump', 'call-foreach')
    for where in ('root', 'child_shared', 'child_own'):
        for how in hows:
            if how == 'jump':
                instr, per = _jump('cleanup'), ['F1', 'CL']
            elif how == 'switch':
                instr, per = c03_caller('switch', 'cleanup'), ['F1', 'CL', 'F2']
            elif how == 'call-dict':
                instr, per = _call(D(groups=['cleanup', 'cleanup2'], success='cs')), ['F1', 'CL', 'CL2', 'CS', 'F2']
            elif how == 'call-nested':
                instr, per = _call('nest'), ['F1', 'N1', 'CL', 'N2', 'F2']
            elif how == 'call-foreach':
                instr, per = _call('cleanup', foreach=['x', 'y']), ['F1', 'CL', 'CL', 'F2']
            else:
                instr, per = _call('cleanup'), ['F1', 'CL', 'F2']
            hgroups = [['steps', [probe('S')]], ['on_success', [probe('OS')]],
                       ['on_failure', [probe('F1'), instr, probe('F2')]],
                       ['cleanup', [probe('CL')]], ['cleanup2', [probe('CL2')]], ['cs', [probe('CS')]],
                       ['nest', [probe('N1'), _call('cleanup'), probe('N2')]], ['nogroup', [probe('WRONG')]]]
            if where == 'root':
                prog = prog_of(hgroups, run={'args_in': ['FAIL']}, ctx={'k': 'v'})
                prog['pipes'][0]['parser'] = 'vparser'
                exp = {'tags': per, 'outcome': ('err', 'ValueError'), 'nerr': 0}
            else:
                cfg = dict(name='child', pipeArg='FAIL')
                if where == 'child_own':
                    cfg['useParentContext'] = False
                groups = [['steps', [probe('A'), _pype(**cfg), probe('B')]], ['on_success', [probe('POS')]],
                          ['on_failure', [probe('OF')]]]
                prog = prog_of(groups, children={'child': {'parser': 'vparser', 'groups': hgroups}}, ctx={'k': 'v'})
                # the parse error leaves the child, is recorded once by the parent's pype step
                exp = {'tags': ['A'] + per + ['OF'], 'outcome': ('err', 'ValueError'), 'nerr': 1}
            out.append((prog, exp, {'family': 'c02-parser-handler', 'where': where, 'how': how}))
    rng.shuffle(out)
    out = cover_first(out, lambda c: c[2]['how'], lambda c: c[2]['where'])
    yield from out[:n]


# --------------------------------------------------------------------------
# unusual VALUES in ordinary places (each family: expectation from the property text)
# --------------------------------------------------------------------------

UNUSUAL_ERRORS = ['vprobe.FalsyError', 'built.BuiltError', 'main.MainError']


def c01_error_values_family(rng, n):
    """An error is an error whatever its class: an exception OBJECT that is falsy (it has a length, like an
    aggregate error without sub-errors), a class from a top-level module whose name is a fragment of
    'builtins' / '__main__' (named `module.Class` all the same). Raised directly, inside called groups
    (call / switch, nested), under retry / swallow on the calling step, in a child pipeline, in the handler."""
    out = []
    for err in UNUSUAL_ERRORS + ['ValueError']:
        X = probe('X', failRest=err)
        ent = {'name': err, 'description': 'boom X', 'step': 'vprobe'}
        for place in ('direct', 'direct-swallow', 'call', 'switch', 'call-nested', 'call-swallow', 'call-retry',
                      'call-foreach-swallow', 'pype', 'pype-swallow', 'handler'):
            oc, children, nerr, entries = ('err', err), None, None, None
            if place == 'direct':
                groups = [['steps', [probe('A'), X, probe('B')]], ['on_failure', [probe('OF')]]]
                tags, entries = ['A', 'X', 'OF'], [dict(ent, swallowed=False)]
            elif place == 'direct-swallow':
                groups = [['steps', [probe('A'), dict(X, swallow=True), probe('B')]], ['on_failure', [probe('OF')]]]
                tags, oc, entries = ['A', 'X', 'B'], 'ok', [dict(ent, swallowed=True)]
            elif place in ('call', 'switch'):
                groups = [['steps', [probe('A'), c03_caller(place, 'g1'), probe('B')]], ['g1', [probe('G'), X, probe('H')]],
                          ['on_failure', [probe('OF')]], ['nogroup', [probe('WRONG')]]]
                tags, entries = ['A', 'G', 'X', 'OF'], [dict(ent, swallowed=False)]
            elif place == 'call-nested':
                groups = [['steps', [probe('A'), _call('g0'), probe('B')]], ['g0', [probe('G0'), _call('g1'), probe('H0')]],
                          ['g1', [probe('G'), X, probe('H')]], ['on_failure', [probe('OF')]]]
                tags, entries = ['A', 'G0', 'G', 'X', 'OF'], [dict(ent, swallowed=False)]
            elif place == 'call-swallow':
                groups = [['steps', [probe('A'), _call('g1', swallow=True), probe('B')]], ['g1', [probe('G'), X, probe('H')]],
                          ['on_failure', [probe('OF')]]]
                tags, oc, entries = ['A', 'G', 'X', 'B'], 'ok', [dict(ent, swallowed=False)]
            elif place == 'call-retry':
                groups = [['steps', [probe('A'), _call('g1', retry={'max': 2}), probe('B')]], ['g1', [probe('G'), X, probe('H')]],
                          ['on_failure', [probe('OF')]]]
                tags, nerr = ['A', 'G', 'X', 'G', 'X', 'OF'], 2
            elif place == 'call-foreach-swallow':
                groups = [['steps', [probe('A'), _call('g1', swallow=True, foreach=['x', 'y']), probe('B')]],
                          ['g1', [probe('G'), X, probe('H')]], ['on_failure', [probe('OF')]]]
                tags, oc, nerr = ['A', 'G', 'X', 'G', 'X', 'B'], 'ok', 2
            elif place in ('pype', 'pype-swallow'):
                st = _pype(name='child')
                if place == 'pype-swallow':
                    st['swallow'] = True
                groups = [['steps', [probe('A'), st, probe('B')]], ['on_failure', [probe('OF')]]]
                children = {'child': [['steps', [probe('C'), X, probe('D')]], ['on_failure', [probe('COF')]]]}
                tags = ['A', 'C', 'X', 'COF'] + (['B'] if place == 'pype-swallow' else ['OF'])
                oc = 'ok' if place == 'pype-swallow' else ('err', err)
            else:
                groups = [['steps', [probe('A'), probe('F', failRest='RuntimeError'), probe('B')]],
                          ['on_failure', [probe('OF'), X, probe('OF2')]]]
                tags, oc, nerr = ['A', 'F', 'OF', 'X'], ('err', 'RuntimeError'), 2
            exp = {'tags': tags, 'outcome': oc}
            if oc != 'ok' and place != 'handler':
                exp['err_msg'] = 'boom X'
            if nerr is not None:
                exp['nerr'] = nerr
            if entries is not None:
                exp['entries'] = entries
            out.append((prog_of(groups, children=children, ctx={'k': 'v'}), exp,
                        {'family': 'c01-error-values', 'error': err, 'place': place}))
    rng.shuffle(out)
    out = cover_first(out, lambda c: c[2]['place'], lambda c: c[2]['error'])
    yield from out[:n]


def c03_switch_lazy_family(rng, n):
    """switch: only the FIRST TRUE case is an instruction. The `call` of a case that is false (or comes after the
    one taken) is never looked at: an expression in it that cannot be resolved raises nothing, names no group."""
    out = []
    bad_calls = ['{nokey}', pyname('nokey'), D(groups='{nokey}'), D(groups=['sx'], success='{nokey}'), ['{nokey}'],
                 'x{nokey}y']
    for bad in bad_calls:
        for shape in ('false-before-true', 'false-before-default', 'true-before-bad', 'two-false-before-true',
                      'bad-is-taken', 'bad-default-not-reached'):
            oc, nerr = 'ok', 0
            if shape == 'false-before-true':
                sw, mid = [D(case=False, call=bad), D(case=True, call='s1')], ['S1']
            elif shape == 'false-before-default':
                sw, mid = [D(case='{f1}', call=bad), D(default='sd')], ['SD']
            elif shape == 'true-before-bad':
                sw, mid = [D(case=True, call='s1'), D(case=True, call=bad), D(default=bad)], ['S1']
            elif shape == 'two-false-before-true':
                sw, mid = [D(case=0, call=bad), D(case=pyname('f1'), call=bad), D(case='{t1}', call=['s1', 's2'])], ['S1', 'S2']
            elif shape == 'bad-default-not-reached':
                sw, mid = [D(case=False, call='s2'), D(case=True, call='s1'), D(default=bad)], ['S1']
            else:
                sw, mid = [D(case=False, call='s1'), D(case=True, call=bad)], None
            groups = [['steps', [probe('A'), {'name': 'pypyr.steps.switch', 'in': [['switch', sw]]}, probe('B')]],
                      ['s1', [probe('S1')]], ['s2', [probe('S2')]], ['sd', [probe('SD')]], ['sx', [probe('SX')]],
                      ['on_failure', [probe('OF')]]]
            if mid is None:
                # the case taken: now the expression IS the instruction - whatever error formatting it gives
                exp = {'outcome': ('err', ANY)}
            else:
                exp = {'tags': ['A'] + mid + ['B'], 'outcome': 'ok', 'nerr': 0}
            out.append((prog_of(groups, ctx={'t1': True, 'f1': False, 'k': 'v'}), exp,
                        {'family': 'c03-switch-lazy', 'shape': shape, 'call': json.dumps(bad)}))
    rng.shuffle(out)
    out = cover_first(out, lambda c: c[2]['shape'], lambda c: c[2]['call'])
    yield from out[:n]


def c03_recursive_family(rng, n):
    """A calling step that is RE-ENTERED while an activation of it is in mid-loop: the called group leads back to
    the group the calling step is in (tree walk; the depth is counted up on entry and down on exit, the call is
    skipped at the bound). Every activation has its own counters: after a call returns, `i` / `whileCounter` /
    `retryCounter` are those of the activation that issued it - seen by the next entry of the called group
    (probe R, first step of the recursive group) and by the step after the calling step (AFTER)."""
    out = []
    up = {'name': 'pypyr.steps.set', 'in': [['set', D(depth={'py': {'op': '+', 'a': {'n': 'depth'}, 'b': {'c': 1}}})]]}
    down = {'name': 'pypyr.steps.set', 'in': [['set', D(depth={'py': {'op': '-', 'a': {'n': 'depth'}, 'b': {'c': 1}}})]]}
    for bound in (2, 3):
        for items in (None, ['a', 'b'], [None, 0], ['x']):
            for wmax in (None, 2):
                for caller in ('call', 'switch'):
                    for via in ('direct', 'hop'):
                        if items is None and wmax is None:
                            continue
                        cs = c03_caller(caller, 'rec' if via == 'direct' else 'hop')
                        cs['skip'] = pycmp('depth', '>=', bound)
                        if items is not None:
                            cs['foreach'] = items
                        if wmax is not None:
                            cs['while'] = {'max': wmax}
                        groups = [['steps', [_call('rec'), probe('END')]],
                                  ['rec', [up, probe('R', keys=['depth']), cs, probe('AFTER', keys=['depth']), down]],
                                  ['hop', [_call('rec')]], ['nogroup', [probe('WRONG')]]]
                        ev = []
                        st = {'i': MISSING, 'w': MISSING, 'depth': 0}

                        def rec():
                            st['depth'] += 1
                            ev.append(('R', st['i'], st['w'], ANY))
                            for w in (range(1, wmax + 1) if wmax is not None else [None]):
                                if w is not None:
                                    st['w'] = w
                                for x in (items if items is not None else [ANY]):
                                    if items is not None:
                                        st['i'] = x
                                    if st['depth'] >= bound:
                                        continue
                                    mine = (st['i'], st['w'])
                                    rec()
                                    st['i'], st['w'] = mine       # the property: the caller's counters are back
                            ev.append(('AFTER', st['i'], st['w'], ANY))
                            st['depth'] -= 1
                        rec()
                        ev.append(('END', ANY, ANY, ANY))
                        if len(ev) > 400:
                            continue
                        exp = {'events': ev, 'outcome': 'ok', 'nerr': 0}
                        out.append((prog_of(groups, ctx={'depth': 0, 'k': 'v'}), exp,
                                    {'family': 'c03-recursive', 'bound': bound, 'items': json.dumps(items), 'while': wmax,
                                     'caller': caller, 'via': via}))
    rng.shuffle(out)
    out = cover_first(out, lambda c: (c[2]['items'], c[2]['while']), lambda c: (c[2]['caller'], c[2]['via'], c[2]['bound']))
    yield from out[:n]


TEXT_TRUE = ['true', 'True', 'TRUE', '1', '1.0', 'tRuE']
TEXT_FALSE = ['false', 'False', '0', 'no', 'yes', 'x', ' true', 'true ', '0.0', 'None', '2']


def c05_text_family(rng, n):
    """Decorator expressions that resolve to TEXT (cli key=value arguments, environment, command output): the
    truth rule for text applies - 'true' / '1' / '1.0' in any case are true, EVERY other text is false - to the
    while `stop` and `errorOnMax` exactly as to run / skip / swallow (C04)."""
    out = []
    for txt in TEXT_TRUE + TEXT_FALSE:
        truth = txt in TEXT_TRUE
        for how in ('key', 'literal', 'composite'):
            if how == 'key':
                expr, ctx = '{txt}', {'txt': txt}
            elif how == 'literal':
                expr, ctx = txt, {}
            else:
                if len(txt) < 2:
                    continue
                expr, ctx = '{h}' + txt[1:], {'h': txt[0]}
            ctx['k'] = 'v'
            # stop: the loop ends after the first iteration iff the text is true, else runs to max
            st = probe('W')
            st['while'] = {'stop': expr, 'max': 3}
            iters = 1 if truth else 3
            out.append((prog_of([['steps', [st, probe('Z')]], ['on_failure', [probe('OF')]]], ctx=ctx),
                        {'events': [('W', ANY, k + 1, ANY) for k in range(iters)] + [('Z', ANY, ANY, ANY)],
                         'outcome': 'ok', 'nerr': 0},
                        {'family': 'c05-text', 'where': 'stop', 'text': txt, 'how': how}))
            # ... also under foreach: every while round runs the whole sequence
            st = probe('W')
            st['while'] = {'stop': expr, 'max': 2}
            st['foreach'] = ['a', 'b']
            iters = 1 if truth else 2
            out.append((prog_of([['steps', [st, probe('Z')]], ['on_failure', [probe('OF')]]], ctx=ctx),
                        {'events': [('W', x, k + 1, ANY) for k in range(iters) for x in ('a', 'b')] + [('Z', ANY, ANY, ANY)],
                         'outcome': 'ok', 'nerr': 0},
                        {'family': 'c05-text', 'where': 'stop+foreach', 'text': txt, 'how': how}))
            # errorOnMax: exhausting max is an error iff the text is true
            st = probe('W')
            st['while'] = {'max': 2, 'errorOnMax': expr}
            if truth:
                exp = {'tags': ['W', 'W', 'OF'], 'outcome': ('err', 'pypyr.errors.LoopMaxExhaustedError')}
            else:
                exp = {'tags': ['W', 'W', 'Z'], 'outcome': 'ok', 'nerr': 0}
            out.append((prog_of([['steps', [st, probe('Z')]], ['on_failure', [probe('OF')]]], ctx=ctx), exp,
                        {'family': 'c05-text', 'where': 'errorOnMax', 'text': txt, 'how': how}))
            # stop together with errorOnMax true: a false text never stops, so max is exhausted -> error
            st = probe('W')
            st['while'] = {'stop': expr, 'max': 2, 'errorOnMax': True}
            if truth:
                exp = {'tags': ['W', 'Z'], 'outcome': 'ok', 'nerr': 0}
            else:
                exp = {'tags': ['W', 'W', 'OF'], 'outcome': ('err', 'pypyr.errors.LoopMaxExhaustedError')}
            out.append((prog_of([['steps', [st, probe('Z')]], ['on_failure', [probe('OF')]]], ctx=ctx), exp,
                        {'family': 'c05-text', 'where': 'stop+errorOnMax', 'text': txt, 'how': how}))
    rng.shuffle(out)
    out = cover_first(out, lambda c: c[2]['where'], lambda c: c[2]['text'], lambda c: c[2]['how'])
    yield from out[:n]


def c06_text_family(rng, n):
    """Numbers that arrive as TEXT (cli arguments, environment): `max` is int(text), `sleepMax` is float(text) -
    each exactly as if the number had been written (the cap applies under every strategy)."""
    out = []
    E = 'ValueError'

    def case(rt, sleeps, meta, ctx=None, rnd=None, bounds=None):
        st = probe('R', fails=[E, E, E])
        st['retry'] = rt
        prog = prog_of([['steps', [st, probe('Z')]], ['on_failure', [probe('OF')]]], ctx=dict({'k': 'v'}, **(ctx or {})))
        if rnd is not None:
            prog['rnd'] = rnd
        exp = {'tags': ['R', 'R', 'R', 'R', 'Z'], 'outcome': 'ok', 'nerr': 0}
        if bounds is not None:
            exp['sleep_bounds'] = bounds
        else:
            exp['sleeps'] = sleeps
        out.append((prog, exp, dict({'family': 'c06-text'}, **meta)))

    for how in ('literal', 'key'):
        def v(text, key):
            return text if how == 'literal' else '{' + key + '}'
        ctx = {'cap': '5', 'capf': '7.5', 'capsp': ' 4 ', 'mx': '4'}
        # sleepMax as text caps every strategy
        case({'max': 4, 'sleep': 4, 'backoff': 'linear', 'sleepMax': v('5', 'cap')}, [4, 5, 5],
             {'what': 'sleepMax', 'backoff': 'linear', 'how': how}, ctx)
        case({'max': 4, 'sleep': 1, 'backoff': 'exponential', 'sleepMax': v('7.5', 'capf')}, [2, 4, 7.5],
             {'what': 'sleepMax', 'backoff': 'exponential', 'how': how}, ctx)
        case({'max': 4, 'sleep': 9, 'sleepMax': v('5', 'cap')}, [5, 5, 5], {'what': 'sleepMax', 'backoff': 'fixed', 'how': how}, ctx)
        case({'max': 4, 'sleep': [9, 1, 9], 'sleepMax': v('7.5', 'capf')}, [7.5, 1, 7.5],
             {'what': 'sleepMax', 'backoff': 'fixed-list', 'how': how}, ctx)
        case({'max': 4, 'sleep': 8, 'backoff': 'jitter', 'sleepMax': v('5', 'cap')}, None,
             {'what': 'sleepMax', 'backoff': 'jitter', 'how': how}, ctx, bounds=[(0, 5)] * 3)
        case({'max': 4, 'sleep': 3, 'backoff': 'linearjitter', 'sleepMax': v(' 4 ', 'capsp')}, None,
             {'what': 'sleepMax', 'backoff': 'linearjitter', 'how': how}, ctx, bounds=[(0, 4)] * 3)
        # max as text
        case({'max': v('4', 'mx'), 'sleep': 1}, [1, 1, 1], {'what': 'max', 'how': how}, ctx)
    rng.shuffle(out)
    out = cover_first(out, lambda c: (c[2]['what'], c[2].get('backoff')), lambda c: c[2]['how'])
    yield from out[:n]


def c11_out_container_family(rng, n):
    """pype `out`: what the parent receives is the child's value FORMATTED IN THE CHILD's context - also when the
    value is a list / mapping / nested container holding {expressions} (content loaded from a file, !sic text,
    escaped {{..}} arguments): the expressions are resolved where the child's values live, the parent gets
    plain values of its own, not templates to be resolved later against the parent's keys."""
    out = []
    # the child has its own context: who = 'child', only = 'c-only'; the parent's who = 'parent'
    vals = {
        'list': (['{who}', 'lit', '{only}'], ['child', 'lit', 'c-only']),
        'dict': (D(a='{who}', b=D(c='x{only}y')), D(a='child', b=D(c='xc-onlyy'))),
        'nested': ([D(a=['{who}', 1]), ['{only}']], [D(a=['child', 1]), ['c-only']]),
        'str': ('{who}/{only}', 'child/c-only'),
        'dictkey': (D(**{'{who}': 1}), D(child=1)),
        'plain': ([1, 'two', None], [1, 'two', None]),
    }
    for vname, (raw, want) in vals.items():
        for form in ('str', 'list', 'mapping'):
            for after in ('read', 'format'):
                outcfg = {'str': 'res', 'list': ['res'], 'mapping': D(pres='res')}[form]
                pkey = 'pres' if form == 'mapping' else 'res'
                child = [['steps', [probe('C', set=D(res=raw, who='child', only='c-only'))]]]
                # the parent looks at what it received: raw (keys) and through a formatting expression of its own
                reader = probe('B', keys=[pkey]) if after == 'read' else probe('B', set=D(got='{' + pkey + '}'), keys=[pkey])
                groups = [['steps', [probe('A'), _pype(name='child', args=D(seed=1), out=outcfg), reader]],
                          ['on_failure', [probe('OF')]]]
                exp = {'tags': ['A', 'C', 'B'], 'outcome': 'ok', 'nerr': 0, 'ctx_has': {pkey: want, 'who': 'parent'}}
                out.append((prog_of(groups, children={'child': child}, ctx={'who': 'parent', 'k': 'v'}), exp,
                            {'family': 'c11-out-container', 'value': vname, 'out': form, 'after': after}))
    rng.shuffle(out)
    out = cover_first(out, lambda c: c[2]['value'], lambda c: c[2]['out'])
    yield from out[:n]


def c06_default_backoff_family(rng, n):
    """A retry without `backoff` uses the default strategy AS CONFIGURED WHEN THE LOOP STARTS
    (`config.default_backoff`: set by a config file / the API after pypyr's modules were loaded); a step that
    names its `backoff` is not affected by the default; an unknown default is the error of an unknown name."""
    out = []
    E = 'ValueError'
    closed = {'fixed': [3, 3, 3], 'linear': [3, 6, 9], 'exponential': [6, 12, 24]}
    for default in ('linear', 'exponential', 'fixed', 'jitter', 'linearjitter', 'exponentialjitter', 'nope'):
        for given in (None, 'fixed', 'linear', '', '{bname}'):
            st = probe('R', fails=[E, E, E])
            st['retry'] = {'max': 4, 'sleep': 3}
            if given is not None:
                st['retry']['backoff'] = given
            eff = default if given in (None, '') else ('linear' if given == '{bname}' else given)
            prog = prog_of([['steps', [st, probe('Z')]], ['on_failure', [probe('OF')]]], ctx={'k': 'v', 'bname': 'linear'},
                           run={'default_backoff': default})
            if eff == 'nope':
                exp = {'tags': ['OF'], 'outcome': ('err', 'ValueError'), 'sleeps': []}
            else:
                exp = {'tags': ['R', 'R', 'R', 'R', 'Z'], 'outcome': 'ok', 'nerr': 0}
                if eff in closed:
                    exp['sleeps'] = closed[eff]
                else:
                    hi = {'jitter': [3, 3, 3], 'linearjitter': [3, 6, 9], 'exponentialjitter': [6, 12, 24]}[eff]
                    exp['sleep_bounds'] = [(0, h) for h in hi]
            out.append((prog, exp, {'family': 'c06-default-backoff', 'default': default, 'given': json.dumps(given)}))
    rng.shuffle(out)
    out = cover_first(out, lambda c: c[2]['default'], lambda c: c[2]['given'])
    yield from out[:n]
