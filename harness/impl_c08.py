"""C08 helpers: generators (wire form), implementation runner, monitors.

Everything a case needs is JSON (the wire form of harness/common.py), so a replay file is the case.
"""
from __future__ import annotations

import json

from .common import enc, dec, canon, exc_name, py_src

# --------------------------------------------------------------------------
# canonical forms
# --------------------------------------------------------------------------


def canon_w(w):
    """wire value with every set sorted canonically (model keeps wire order, Python has hash order)."""
    if isinstance(w, list):
        return [canon_w(x) for x in w]
    if isinstance(w, dict):
        if 't' in w:
            return {'t': [canon_w(x) for x in w['t']]}
        if 'd' in w:
            return {'d': [[canon_w(k), canon_w(v)] for k, v in w['d']]}
        if 'set' in w:
            return {'set': sorted((canon_w(x) for x in w['set']), key=canon)}
        if 'jsonify' in w:
            return {'jsonify': canon_w(w['jsonify'])}
    return w


JSON_MSG = 'Object is not JSON serializable'


def canon_err(name, msg):
    """Error observation. json's TypeError text names the offending type: compared by kind only."""
    if name == 'TypeError' and (msg.startswith('Object of type ') or msg.startswith('keys must be ')):
        msg = JSON_MSG
    if name == 'RecursionError':
        return {'err': {'name': 'OutOfFuel', 'msg': ''}}
    return {'err': {'name': name, 'msg': msg}}


DEPTH = {'cur': 0, 'max': 0}


def install_depth_probe():
    """Count how deep string formatting nests (reference depth), from outside the implementation."""
    from pypyr.formatting import RecursiveFormatter as RF
    orig = getattr(RF, '_format_keep_type', None)
    if orig is None or getattr(orig, '_c08_probe', False):
        return

    def probed(self, *a, **k):
        DEPTH['cur'] += 1
        if DEPTH['cur'] > DEPTH['max']:
            DEPTH['max'] = DEPTH['cur']
        try:
            return orig(self, *a, **k)
        finally:
            DEPTH['cur'] -= 1
    probed._c08_probe = True
    RF._format_keep_type = probed


def impl_fmt(ctxw, vw):
    """Context(ctx).get_formatted_value(v) as an observation in wire form."""
    from pypyr.context import Context
    install_depth_probe()
    ctx = Context(dec(ctxw))
    v = dec(vw)
    DEPTH['cur'] = DEPTH['max'] = 0
    try:
        r = ctx.get_formatted_value(v)
    except RecursionError:
        return {'err': {'name': 'OutOfFuel', 'msg': ''}}
    except Exception as e:  # noqa
        return canon_err(exc_name(e), str(e))
    try:
        return {'ok': canon_w(enc(r))}
    except ValueError as e:
        return {'unencodable': str(e)}


def model_obs(m):
    if isinstance(m, dict) and 'ok' in m:
        return {'ok': canon_w(m['ok'])}
    return m


# --------------------------------------------------------------------------
# generators
# --------------------------------------------------------------------------

PLAIN = ['', 'x', 'abc', 'a b', 'héy', '€5', 'it\'s', 'q"q', 'both\'"', 'tab\there', 'nl\n', '\U0001F600',
         '0', '12', 'True', '>5', '^7', '08', 'rf', 'ff', 'back\\slash', '[0]', 'a.b', 'x:y', 'a!r']
LITS = ['a', ' ', 'x ', ' - ', 'hé', '{{', '}}', '{{x}}', '}}{{', 'text', ':', '!', '[', ']', '.', '\n', "'",
        '"', '€', '0']
KEYS = ['a', 'b', 'c', 'd', 'k1', 'key2', 'e', 'f', 'g', 'h']
MISSING = ['zz', 'nokey', 'A']


class Gen:
    def __init__(self, rng):
        self.r = rng
        self.nobj = 0

    # ---- plain values -------------------------------------------------
    def scalar(self):
        r = self.r
        k = r.randrange(12)
        if k == 0:
            return None
        if k == 1:
            return r.random() < 0.5
        if k in (2, 3):
            return r.choice([0, 1, 2, 5, 7, 10, 42, -1, -17, 123456, 10 ** 12])
        if k == 4:
            n, kk = r.choice([(3, 1), (-1, 2), (5, 0), (0, 0), (25, 3), (-7, 1)])
            return {'f': [n, kk]}
        if k == 5:
            return {'b': r.choice(['', '00', '01ff', '616263'])}
        if k == 6:
            self.nobj += 1
            return {'o': self.nobj}
        return r.choice(PLAIN)

    def key_scalar(self):
        r = self.r
        k = r.randrange(8)
        if k == 0:
            return r.choice([0, 1, 2, 7])
        if k == 1:
            return r.choice([True, None]) if r.random() < 0.3 else r.choice(['k', 'x y'])
        return r.choice(['k', 'n', 'x y', 'key', '0', '1', 'a', 'b', '', 'hé'])

    def value(self, depth, refs):
        """a nested value whose strings may refer to the context keys in `refs`"""
        r = self.r
        k = r.randrange(20)
        if depth <= 0 or k < 8:
            if refs and r.random() < 0.45:
                return self.fmt_string(refs, small=True)
            return self.scalar()
        if k < 11:
            return [self.value(depth - 1, refs) for _ in range(r.randrange(0, 4))]
        if k < 13:
            return {'t': [self.value(depth - 1, refs) for _ in range(r.randrange(0, 3))]}
        if k < 16:
            prs, seen = [], set()
            for _ in range(r.randrange(0, 4)):
                kk = self.fmt_string(refs, small=True) if refs and r.random() < 0.15 else self.key_scalar()
                ck = canon(kk)
                if ck in seen or kk in (True, 1) and ({canon(True), canon(1)} & seen) \
                        or kk in (False, 0) and ({canon(False), canon(0)} & seen):
                    continue
                seen.add(ck)
                prs.append([kk, self.value(depth - 1, refs)])
            return {'d': prs}
        if k < 17:
            # a set: hashable members, at most one that contains an expression
            items, seen = [], set()
            for _ in range(r.randrange(0, 3)):
                x = r.choice([0, 1, 2, 'x', 'abc', '', None, 7])
                if canon(x) not in seen:
                    seen.add(canon(x))
                    items.append(x)
            if refs and r.random() < 0.5:
                s = self.fmt_string(refs, small=True)
                if canon(s) not in seen:
                    items.append(s)
            items.sort(key=canon)
            return {'set': items}
        if k < 18:
            return {'sic': r.choice(PLAIN + ['x{a}', '{zz}', '{{', '{', '}{'])}
        if k < 19:
            return {'py': self.py_expr(refs)}
        inner = self.value(depth - 1, refs)
        if isinstance(inner, dict) and ('sic' in inner or 'py' in inner or 'jsonify' in inner):
            inner = [inner]
        return {'jsonify': inner}

    def py_expr(self, refs):
        r = self.r
        names = [k for k in refs if k.isidentifier()]
        k = r.randrange(8)
        if not names or k == 0:
            return {'c': r.choice([1, 'lit', True, None, -3])}
        n = r.choice(names)
        v = refs[n]
        if k == 1:
            return {'n': r.choice(MISSING[:2])}
        if isinstance(v, bool) or v is None:
            return r.choice([{'n': n}, {'not': {'n': n}}])
        if isinstance(v, int):
            return r.choice([{'n': n}, {'op': '+', 'a': {'n': n}, 'b': {'c': 2}},
                             {'op': '==', 'a': {'n': n}, 'b': {'c': v}}, {'op': '<', 'a': {'n': n}, 'b': {'c': 3}},
                             {'op': '*', 'a': {'n': n}, 'b': {'c': -2}}])
        if isinstance(v, str):
            return r.choice([{'n': n}, {'len': {'n': n}}, {'op': '+', 'a': {'n': n}, 'b': {'c': '{b}'}},
                             {'op': '==', 'a': {'n': n}, 'b': {'c': 'x'}}])
        if isinstance(v, list):
            c = [{'n': n}, {'len': {'n': n}}, {'not': {'n': n}}]
            if v:
                c.append({'idx': [{'n': n}, {'c': r.randrange(len(v))}]})
            return r.choice(c)
        return r.choice([{'n': n}, {'not': {'n': n}}])

    # ---- format strings ----------------------------------------------
    def path(self, refs, small=False):
        """a field name: first key + 0..3 accessors, mostly type-directed so that it resolves"""
        r = self.r
        q = r.random()
        if q < 0.05:
            first, cur = r.choice(MISSING), None
        elif q < 0.07:
            first, cur = r.choice(['', '0', '1', '00', '12']), None
        else:
            first = r.choice(list(refs))
            cur = refs[first]
        name = first
        for _ in range(r.choice([0, 0, 0, 1, 1, 2, 3]) if not small else r.choice([0, 0, 0, 1, 2])):
            q = r.random()
            if isinstance(cur, dict) and 'd' in cur and cur['d'] and q < 0.8:
                k, v = r.choice(cur['d'])
                if isinstance(k, str) and k and not any(ch in k for ch in ']{}') and not k.isdigit():
                    name += f'[{k}]'
                    cur = v
                    continue
                if isinstance(k, int) and not isinstance(k, bool):
                    name += f'[{k}]'
                    cur = v
                    continue
            seq = cur if isinstance(cur, list) else (cur['t'] if isinstance(cur, dict) and 't' in cur else None)
            if seq is not None and q < 0.8:
                if seq and r.random() < 0.9:
                    i = r.randrange(len(seq))
                    name += f'[{i}]' if r.random() < 0.9 else f'[0{i}]'
                    cur = seq[i]
                else:
                    name += f'[{len(seq) + r.randrange(3)}]'
                    cur = None
                continue
            if isinstance(cur, str) and cur and q < 0.3:
                name += '[0]'
                cur = None
                continue
            if isinstance(cur, dict) and 'o' in cur and q < 0.7:
                name += '.ident'
                cur = cur['o']
                continue
            if q < 0.55:
                break
            name += r.choice(['[zz]', '[0]', '[7]', '.zz', '.q1', '[x y]', '.a b', '[k]', '[]', '.', '[', '[0]x', '..a',
                              '[0', '.ident', '[-1]', '[1.5]'])
            cur = None
            break
        return name, cur

    def spec(self, target):
        r = self.r
        q = r.random()
        if q < 0.55:
            return ''
        if q < 0.85:
            s = ''
            if r.random() < 0.5:
                if r.random() < 0.5:
                    s += r.choice(['x', '*', ' ', '0', 'é', '<', '+', '{{', 'r'])[:1]
                s += r.choice('<>^=')
            if r.random() < 0.25:
                s += r.choice('+- ')
            if r.random() < 0.3:
                s += '0'
            if r.random() < 0.8:
                s += str(r.choice([0, 1, 3, 5, 8, 12, 20]))
            if r.random() < 0.3:
                s += r.choice('sdsdsdq')
            return s
        if q < 0.95:
            return r.choice(['>5', '^7', '08', 'd', 's', '5d', '+d', '=+6', 'x<4', '-3', ' 4', 'zz', 'dd', '5 ', 's5'])
        return r.choice(['>>5', '<<', '{{<5', '==', '+', '-', ' ', '0', '00', '005', '1'])

    def field(self, refs, small=False):
        r = self.r
        name, cur = self.path(refs, small)
        conv = ''
        q = r.random()
        if q < 0.12:
            conv = '!' + r.choice('rsa')
        elif q < 0.13:
            conv = '!' + r.choice('xR ')
        spec = ''
        q = r.random()
        if q < 0.22:
            spec = r.choice(['rf', 'ff']) + (self.spec(cur) if r.random() < 0.3 else '')
        elif q < 0.5:
            spec = self.spec(cur)
        elif q < 0.56 and refs:
            # nested spec: {x:{w}} / {x:>{w}} / {x:{w}{t}}
            w, _ = self.path(refs, small=True)
            spec = r.choice(['{%s}', '>{%s}', '{%s}d', 'rf{%s}', '{%s!s}', '{%s:{%s}}', 'x^{%s}']).replace('%s', w)
        return '{' + name + conv + (':' + spec if spec or r.random() < 0.03 else '') + '}'

    def fmt_string(self, refs, small=False):
        r = self.r
        if small:
            n = r.choice([1, 1, 1, 2, 2, 3])
        else:
            n = r.choice([0, 1, 1, 1, 2, 2, 3, 3, 4, 5])
        out = []
        for _ in range(n):
            if r.random() < 0.55:
                out.append(self.field(refs, small))
            else:
                out.append(r.choice(LITS))
        s = ''.join(out)
        if r.random() < 0.02:
            s += r.choice(['{', '}', '{a', '{a!', '{a!r', '{a:', '{a:{', '{a!r:'])
        return s

    def context(self):
        """keys k0..kn; the value of key i may refer to keys after it only (no cycles);
        returns (ctx wire, refs) — refs maps key -> wire value"""
        r = self.r
        n = r.choice([1, 2, 3, 3, 4, 5, 6])
        keys = r.sample(KEYS, n)
        refs = {}
        # build from the last key backwards so that earlier keys can point at later ones
        for k in reversed(keys):
            if refs and r.random() < 0.35:
                # a reference chain: this key stands for (something containing) the next one
                nxt = next(iter(refs))
                v = r.choice(['{%s}', '{%s}', '{%s:rf}', 'x{%s:rf}', ['{%s}'], {'d': [['k', '{%s}']]}, '{%s:ff}', 'a{%s}'])
                v = json.loads(json.dumps(v).replace('%s', nxt))
                refs = {k: v, **refs}
            else:
                refs = {k: self.value(r.choice([0, 1, 1, 2, 3]), dict(refs)), **refs}
        return {'d': [[k, refs[k]] for k in keys]}, refs

    def case(self):
        ctxw, refs = self.context()
        r = self.r
        q = r.random()
        if q < 0.75:
            v = self.fmt_string(refs)
        elif q < 0.85:
            v = self.value(2, refs)
        else:
            k = r.choice(list(refs)[:2])
            v = '{' + k + r.choice(['', '', ':rf', ':ff', '!r', '!s']) + '}'
        return {'kind': 'grammar', 'ctx': ctxw, 'v': v}

    def cyclic(self):
        """a context whose references form a cycle that formatting follows (divergence class)"""
        r = self.r
        k = r.randrange(6)
        if k == 0:
            ctx = {'a': '{a}'}
        elif k == 1:
            ctx = {'a': '{b}', 'b': '{c}', 'c': '{a}'}
        elif k == 2:
            ctx = {'a': ['x', '{a}']}
        elif k == 3:
            ctx = {'a': 'x{a:rf}'}
        elif k == 4:
            ctx = {'a': {'d': [['k', '{b[0]}']]}, 'b': [{'t': ['{a[k]}']}]}
        else:
            ctx = {'a': '{b:rf}', 'b': 'lit {c} lit', 'c': '-{b}-'}
        extra = r.choice(KEYS[3:])
        ctxw = {'d': [[kk, vv] for kk, vv in ctx.items()] + [[extra, self.scalar()]]}
        v = r.choice(['{a}', ['{a}'], {'d': [['k', '{a}']]}, 'x{a:rf}', {'t': ['{a:rf}']}])
        return {'kind': 'cyclic', 'ctx': ctxw, 'v': v}


MAL_ALPHA = '{}[].:!a0 '
MAL_CTX = {'d': [['a', {'d': [['a', 'A'], [0, 'zero'], ['0', 'szero'], [' ', 'sp'], ['a0', [1, 2]]]}],
                 ['0', 'key0'], [' ', [10, 20, 'x{a[a]}']], ['aa', 'x{a[0]}'], ['a0', 5], ['', {'t': [1, 'two']}],
                 ['a ', 'hello'], ['00', -3]]}


def malformed(rng):
    n = rng.randrange(0, 13)
    return ''.join(rng.choice(MAL_ALPHA) for _ in range(n))


def biased_malformed(rng):
    """random strings that more often form (almost) valid fields"""
    parts = []
    for _ in range(rng.randrange(1, 4)):
        q = rng.random()
        if q < 0.5:
            body = ''.join(rng.choice('a0 a0.[]!:') for _ in range(rng.randrange(0, 6)))
            parts.append('{' + body + ('}' if rng.random() < 0.85 else ''))
        elif q < 0.7:
            parts.append(rng.choice(['a', '0', ' ', '{{', '}}', '}', '{', ':', '!', '.', '[', ']']))
        else:
            nm = rng.choice(['a', '0', ' ', 'aa', 'a0', '', 'a ', '00'])
            acc = rng.choice(['', '', '[a]', '[0]', '[ ]', '[a0]', '.a', '[a0][0]', '[00]', '[a', '[]', '.', '[0]a', '[0].', '[1]',
                              '[2]', '[9]'])
            tail = rng.choice(['', '', '!r', '!s', '!a', '!', '!0', ':', ':0', ':a', ': ', ':00', ':{a0}', ':{0}', ':{}', ':{a0', '!r:',
                               ':{a0:{a0}}', ':{a0:{a0:{a0}}}', ':0{a0}', '!r:0{a0}', ':a>{a0}'])
            parts.append('{' + nm + acc + tail + '}')
    return ''.join(parts)[:16]


# --------------------------------------------------------------------------
# the C parser, observed
# --------------------------------------------------------------------------

def impl_parse(s):
    import string
    out, err = [], None
    try:
        for lit, name, spec, conv in string.Formatter().parse(s):
            out.append([lit, name, spec, conv])
    except ValueError as e:
        err = {'name': 'ValueError', 'msg': str(e)}
    return {'tuples': out, 'err': err}


def impl_split(s):
    import _string
    try:
        first, it = _string.formatter_field_name_split(s)
    except ValueError as e:
        return {'early': {'name': 'ValueError', 'msg': str(e)}}
    rest, err = [], None
    try:
        for is_attr, k in it:
            rest.append([bool(is_attr), k])
    except ValueError as e:
        err = {'name': 'ValueError', 'msg': str(e)}
    return {'first': first, 'rest': rest, 'err': err}


# --------------------------------------------------------------------------
# monitors: the property judged on the implementation alone
# --------------------------------------------------------------------------

def _deep_same(a, b):
    """equal values of equal types, recursively (True != 1, (1,) != [1])"""
    try:
        return canon(canon_w(enc(a))) == canon(canon_w(enc(b)))
    except ValueError:
        return a == b and type(a) is type(b)


def top_fields(s):
    """the replacement fields of s as CPython parses them, or None when s does not parse"""
    import string
    try:
        return [(lit, name, spec, conv) for lit, name, spec, conv in string.Formatter().parse(s)]
    except ValueError:
        return None


def monitor_string(ctxw, s):
    """Monitors for a top-level str `s`. Returns a list of (clause, detail, signature, impl_obs)."""
    import _string
    import string
    from pypyr.context import Context
    from pypyr.errors import KeyNotInContextError
    out = []
    tups = top_fields(s)
    if tups is None:
        return out
    ctx = Context(dec(ctxw))

    def run(x):
        try:
            return ('ok', ctx.get_formatted_value(x))
        except RecursionError:
            return ('rec', None)
        except Exception as e:  # noqa
            return ('err', e)

    fields = [(n, sp, cv) for _, n, sp, cv in tups if n is not None]
    lits = [l for l, _, _, _ in tups if l]
    # --- escapes: a string without any field is its text with {{ }} unescaped, whatever the context
    if not fields:
        got = run(s)
        want = ''.join(lits)
        if got[0] != 'ok' or got[1] != want or type(got[1]) is not str:
            out.append(('escapes', f'literal-only string {s!r} must format to {want!r}', {'monitor': 'escapes'}, repr(got)))
        return out

    def first_of(name):
        try:
            first, _ = _string.formatter_field_name_split(name)
        except ValueError:
            return None
        return first

    def lookup(name):
        return string.Formatter().get_field(name, None, ctx)[0]

    named = all(n != '' and not n.isdigit() for n, _, _ in fields)
    simple = all(cv in (None, 'r', 's', 'a') and '{' not in sp and not sp.startswith('rf') for _, sp, cv in fields)
    # --- missing key: never a partial result; the key-lookup error when it is the first thing to fail
    missing = [n for n, _, _ in fields if isinstance(first_of(n), str) and first_of(n) not in ctx]
    if missing and named:
        got = run(s)
        if got[0] == 'ok':
            out.append(('missing-key', f'{s!r} refers to missing key {missing[0]!r} but formatting returned {got[1]!r}',
                        {'monitor': 'missing-key', 'outcome': 'partial-result'}, repr(got[1])))
        elif got[0] == 'err' and simple:
            # the first field whose lookup fails decides
            expected = None
            for n, _, _ in fields:
                try:
                    lookup(n)
                except Exception as e:  # noqa
                    expected = e
                    break
            if isinstance(expected, KeyNotInContextError) and not isinstance(got[1], KeyNotInContextError):
                out.append(('missing-key', f'{s!r}: expected KeyNotInContextError, got {type(got[1]).__name__}: {got[1]}',
                            {'monitor': 'missing-key', 'outcome': 'wrong-error'}, repr(got[1])))
    # --- a string that is exactly one expression
    if len(tups) == 1 and not lits and named:
        name, spec, conv = fields[0]
        try:
            obj = ('ok', lookup(name))
        except Exception as e:  # noqa
            obj = ('err', e)
        got = run(s)
        if obj[0] == 'err':
            if got[0] != 'err' or type(got[1]) is not type(obj[1]):
                out.append(('single-lookup-error', f'{s!r}: lookup raises {type(obj[1]).__name__}, formatting gave {got!r}',
                            {'monitor': 'single', 'outcome': 'lookup-error-lost'}, repr(got)))
        elif conv is None and spec == '':
            want = run(obj[1])
            if want[0] != got[0] or (want[0] == 'ok' and not _deep_same(want[1], got[1])) or \
                    (want[0] == 'err' and type(want[1]) is not type(got[1])):
                out.append(('single-keeps-type', f'{s!r} must give the referenced object recursively formatted: '
                            f'want {want!r} got {got!r}', {'monitor': 'single', 'outcome': 'differs'}, repr(got)))
        elif conv is None and spec == 'ff':
            if got[0] != 'ok' or not (got[1] is obj[1] or (isinstance(obj[1], (str, int, bytes)) and _deep_same(got[1], obj[1]))):
                out.append(('ff-is-flat', f'{s!r} must give the referenced object itself, unformatted: got {got!r}',
                            {'monitor': 'ff'}, repr(got)))
    # --- flat subset: Python's own str.format_map is the oracle
    def expanded(sp):
        if '{' not in sp:
            return sp
        try:
            return string.Formatter().vformat(sp, None, ctx)
        except Exception:  # noqa
            return ''
    if len(fields) + len(lits) >= 2 and named and all(first_of(n) != '' for n, _, _ in fields) and not any(expanded(sp)[:2] in ('rf', 'ff') for _, sp, _ in fields):
        got = run(s)
        try:
            want = ('ok', s.format_map(ctx))
        except RecursionError:
            want = ('rec', None)
        except Exception as e:  # noqa
            want = ('err', e)
        if want[0] != got[0] or (want[0] == 'ok' and (want[1] != got[1] or type(got[1]) is not str)):
            out.append(('flat-format_map', f'{s!r}: str.format_map gives {want!r}, formatting gives {got!r}',
                        {'monitor': 'flat', 'outcome': 'differs-from-format_map'}, repr(got)))
    return out


def monitor_value(ctxw, vw):
    """Monitors for special tags at top level."""
    from pypyr.context import Context
    from pypyr.dsl import SicString, PyString, Jsonify
    out = []
    ctx = Context(dec(ctxw))
    v = dec(vw)

    def run(x):
        try:
            return ('ok', ctx.get_formatted_value(x))
        except RecursionError:
            return ('rec', None)
        except Exception as e:  # noqa
            return ('err', e)
    if isinstance(v, SicString):
        got = run(v)
        if got[0] != 'ok' or got[1] is not v.value:
            out.append(('sic-verbatim', f'!sic {v.value!r} gave {got!r}', {'monitor': 'sic'}, repr(got)))
    elif isinstance(v, PyString):
        got = run(v)
        try:
            want = ('ok', eval(v.value, {}, dict(ctx)))
        except Exception as e:  # noqa
            want = ('err', e)
        if want[0] != got[0] or (want[0] == 'ok' and not _deep_same(want[1], got[1])) or \
                (want[0] == 'err' and type(want[1]) is not type(got[1])):
            out.append(('py-evaluates', f'!py {v.value!r}: eval gives {want!r}, formatting {got!r}', {'monitor': 'py'},
                        repr(got)))
    elif isinstance(v, Jsonify):
        got = run(v)
        inner = run(v.value)
        if inner[0] == 'ok':
            try:
                want = ('ok', json.dumps(inner[1]))
            except Exception as e:  # noqa
                want = ('err', e)
        else:
            want = inner
        if want[0] != got[0] or (want[0] == 'ok' and want[1] != got[1]) or \
                (want[0] == 'err' and type(want[1]) is not type(got[1])):
            out.append(('jsonify', f'!jsonify: want {want!r} got {got!r}', {'monitor': 'jsonify'}, repr(got)))
    return out
