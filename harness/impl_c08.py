"""C08 helpers: generators (wire form), implementation runner, monitors.

Everything a case needs is JSON (the wire form of harness/common.py), so a replay file is the case.
"""
from __future__ import annotations

import json

from .common import enc, dec, canon, exc_name, py_src

# --------------------------------------------------------------------------
# canonical forms
# --------------------------------------------------------------------------


def canon_w(w):
    """wire value with every set sorted canonically (model keeps wire order, Python has hash order)."""
    if isinstance(w, list):
        return [canon_w(x) for x in w]
    if isinstance(w, dict):
        if 't' in w:
            return {'t': [canon_w(x) for x in w['t']]}
        if 'd' in w:
            return {'d': [[canon_w(k), canon_w(v)] for k, v in w['d']]}
        if 'set' in w:
            return {'set': sorted((canon_w(x) for x in w['set']), key=canon)}
        if 'jsonify' in w:
            return {'jsonify': canon_w(w['jsonify'])}
    return w


def numeric_collision(w):
    """does a set / dict anywhere in the wire value hold two members / keys that Python's == merges
    (True and 1, 0 and False, 1 and 1.0) although they are different values on the wire?"""
    if isinstance(w, list):
        return any(numeric_collision(x) for x in w)
    if isinstance(w, dict):
        if 'set' in w or 'd' in w:
            ks = w['set'] if 'set' in w else [k for k, _ in w['d']]
            try:
                if len({dec(k) for k in ks}) < len(ks):
                    return True
            except TypeError:
                pass
            kids = ks + ([v for _, v in w['d']] if 'd' in w else [])
            return any(numeric_collision(x) for x in kids)
        for key in ('t', 'jsonify'):
            if key in w:
                return numeric_collision(w[key])
    return False


def has_multi_set(w):
    """a set with two or more members somewhere in the wire value"""
    if isinstance(w, list):
        return any(has_multi_set(x) for x in w)
    if isinstance(w, dict):
        if 'set' in w and len(w['set']) >= 2:
            return True
        if 'd' in w:
            return any(has_multi_set(k) or has_multi_set(v) for k, v in w['d'])
        for key in ('t', 'set', 'jsonify'):
            if key in w:
                return has_multi_set(w[key])
    return False


def py_equal(a, b):
    """the two wire values are equal as Python values (True == 1 == 1.0)"""
    try:
        return dec(a) == dec(b)
    except TypeError:
        return False


JSON_MSG = 'Object is not JSON serializable'


def canon_err(name, msg):
    """Error observation. json's TypeError text names the offending type: compared by kind only."""
    if name == 'TypeError' and (msg.startswith('Object of type ') or msg.startswith('keys must be ')):
        msg = JSON_MSG
    if name == 'RecursionError':
        return {'err': {'name': 'OutOfFuel', 'msg': ''}}
    return {'err': {'name': name, 'msg': msg}}


DEPTH = {'cur': 0, 'max': 0}


def install_depth_probe():
    """Count how deep string formatting nests (reference depth), from outside the implementation."""
    from pypyr.formatting import RecursiveFormatter as RF
    orig = getattr(RF, '_format_keep_type', None)
    if orig is None or getattr(orig, '_c08_probe', False):
        return

    def probed(self, *a, **k):
        DEPTH['cur'] += 1
        if DEPTH['cur'] > DEPTH['max']:
            DEPTH['max'] = DEPTH['cur']
        try:
            return orig(self, *a, **k)
        finally:
            DEPTH['cur'] -= 1
    probed._c08_probe = True
    RF._format_keep_type = probed


def impl_fmt(ctxw, vw):
    """Context(ctx).get_formatted_value(v) as an observation in wire form."""
    from pypyr.context import Context
    install_depth_probe()
    ctx = Context(dec(ctxw))
    v = dec(vw)
    DEPTH['cur'] = DEPTH['max'] = 0
    try:
        r = ctx.get_formatted_value(v)
    except RecursionError:
        return {'err': {'name': 'OutOfFuel', 'msg': ''}}
    except Exception as e:  # noqa
        return canon_err(exc_name(e), str(e))
    try:
        return {'ok': canon_w(enc(r))}
    except ValueError as e:
        return {'unencodable': str(e)}


def model_obs(m):
    if isinstance(m, dict) and 'ok' in m:
        return {'ok': canon_w(m['ok'])}
    return m


# --------------------------------------------------------------------------
# the domain of the !py sub-language model (PypyrModel/PyEval.lean, FormatSession.lean)
# --------------------------------------------------------------------------

PY_BUILTINS = frozenset(dir(__import__('builtins')))


def _has_float_w(w):
    """a float anywhere in a wire value"""
    if isinstance(w, list):
        return any(_has_float_w(x) for x in w)
    if isinstance(w, dict):
        if 'f' in w:
            return True
        if 'd' in w:
            return any(_has_float_w(k) or _has_float_w(v) for k, v in w['d'])
        for key in ('t', 'set', 'jsonify'):
            if key in w:
                return _has_float_w(w[key])
    return False


def _py_walk(e, facts):
    """names read / bound, `len` nodes and arithmetic nodes of a wire PyExpr / PyW"""
    if 'n' in e:
        facts['reads'].add(e['n'])
    elif 'w' in e:
        facts['binds'].add(e['w'][0])
        _py_walk(e['w'][1], facts)
    elif 'not' in e:
        _py_walk(e['not'], facts)
    elif 'len' in e:
        facts['len'] = True
        _py_walk(e['len'], facts)
    elif 'idx' in e:
        _py_walk(e['idx'][0], facts)
        _py_walk(e['idx'][1], facts)
    elif 'op' in e:
        if e['op'] in ('+', '-', '*'):
            facts['arith'] = True
        _py_walk(e['a'], facts)
        _py_walk(e['b'], facts)
    elif 'c' in e:
        if isinstance(e['c'], float):
            facts['floatconst'] = True
    else:
        raise ValueError(e)


def py_in_domain(e, items, builtin_reads_ok=False):
    """Is the `!py` expression `e` (wire PyExpr, or PyW with {'w': [x, e]}), evaluated on a context whose items are
    `items` (key -> wire value), inside the domain on which the Lean evaluator (evalPy / evalPyW) claims to be
    Python's eval? Returns None when it is, else the reason:
      len-shadowed   `len(…)` is SYNTAX of PyExpr (always the builtin); in Python `len` is a name looked up in the
                     namespace, where a context key `len` - or a `(len := …)` of the same evaluation - wins
      float-arith    `+ - *` are exact on dyadic rationals in the model (Num.add/sub/mul never round), Python
                     rounds to binary64: conservatively, any arithmetic node in an expression that reads a name
                     whose context value holds a float anywhere (constants are never floats)
      builtin-read   a name that is not a context key, not bound by := in the expression, but a Python builtin:
                     NameError in the model, the builtin object in Python"""
    facts = {'reads': set(), 'binds': set(), 'len': False, 'arith': False, 'floatconst': False}
    _py_walk(e, facts)
    if facts['len'] and ('len' in items or 'len' in facts['binds']):
        return 'len-shadowed'
    if facts['floatconst']:
        return 'float-arith'
    if facts['arith'] and any(_has_float_w(items[n]) for n in facts['reads'] if n in items):
        return 'float-arith'
    if not builtin_reads_ok and any(n in PY_BUILTINS and n not in items and n not in facts['binds'] for n in facts['reads']):
        return 'builtin-read'
    return None


def py_exprs_w(w):
    """the wire PyExprs inside a wire value"""
    if isinstance(w, list):
        for x in w:
            yield from py_exprs_w(x)
    elif isinstance(w, dict):
        if 'py' in w:
            yield w['py']
        for key in ('t', 'set'):
            if key in w:
                yield from py_exprs_w(w[key])
        if 'd' in w:
            for k, v in w['d']:
                yield from py_exprs_w(k)
                yield from py_exprs_w(v)
        if 'jsonify' in w:
            yield from py_exprs_w(w['jsonify'])


def case_py_domain(case):
    """None when every !py expression of a generated case is inside the evaluator's domain, else the first reason.
    Formatting cases: every !py in the context and the value, on the context. Sessions: every modelled !py call
    and every !py inside a formatted value, on the context as it is at that call."""
    if case.get('kind') == 'session':
        items = {k: v for k, v in case['ctx']['d']}
        for call in case['calls']:
            if 'set' in call:
                items[call['set'][0]] = call['set'][1]
            elif 'del' in call:
                items.pop(call['del'], None)
            else:
                # reads of builtin names that are not context keys (max, sum) are generated on purpose in sessions:
                # those calls are skipped at comparison time (see check_sessions), not dropped
                if 'pyw' in call:
                    es = [call['pyw']]
                elif 'fmt' in call:
                    es = list(py_exprs_w(call['fmt'])) + [e for v in items.values() for e in py_exprs_w(v)]
                else:                     # implementation-only call: the model has no opinion
                    es = []
                for e in es:
                    why = py_in_domain(e, items, builtin_reads_ok=True)
                    if why:
                        return why
        return None
    if 'ctx' not in case:
        return None
    items = {k: v for k, v in case['ctx']['d'] if isinstance(k, str)}
    for e in list(py_exprs_w(case['ctx'])) + list(py_exprs_w(case.get('v'))):
        why = py_in_domain(e, items)
        if why:
            return why
    return None


# --------------------------------------------------------------------------
# generators
# --------------------------------------------------------------------------

PLAIN = ['', 'x', 'abc', 'a b', 'héy', '€5', 'it\'s', 'q"q', 'both\'"', 'tab\there', 'nl\n', '\U0001F600',
         '0', '12', 'True', '>5', '^7', '08', 'rf', 'ff', 'back\\slash', '[0]', 'a.b', 'x:y', 'a!r']
LITS = ['a', ' ', 'x ', ' - ', 'hé', '{{', '}}', '{{x}}', '}}{{', 'text', ':', '!', '[', ']', '.', '\n', "'",
        '"', '€', '0']
KEYS = ['a', 'b', 'c', 'd', 'k1', 'key2', 'e', 'f', 'g', 'h']
MISSING = ['zz', 'nokey', 'A']
assert 'len' not in KEYS and not (set(MISSING) & set(dir(__import__('builtins'))))   # see py_in_domain


class Gen:
    def __init__(self, rng):
        self.r = rng
        self.nobj = 0

    # ---- plain values -------------------------------------------------
    def scalar(self):
        r = self.r
        k = r.randrange(12)
        if k == 0:
            return None
        if k == 1:
            return r.random() < 0.5
        if k in (2, 3):
            return r.choice([0, 1, 2, 5, 7, 10, 42, -1, -17, 123456, 10 ** 12, 255, 65, 1234, -1234567, 8364])
        if k == 4:
            n, kk = r.choice([(3, 1), (-1, 2), (5, 0), (0, 0), (25, 3), (-7, 1)])
            return {'f': [n, kk]}
        if k == 5:
            return {'b': r.choice(['', '00', '01ff', '616263'])}
        if k == 6:
            self.nobj += 1
            return {'o': self.nobj}
        return r.choice(PLAIN)

    def key_scalar(self):
        r = self.r
        k = r.randrange(8)
        if k == 0:
            return r.choice([0, 1, 2, 7])
        if k == 1:
            return r.choice([True, None]) if r.random() < 0.3 else r.choice(['k', 'x y'])
        return r.choice(['k', 'n', 'x y', 'key', '0', '1', 'a', 'b', '', 'hé'])

    def value(self, depth, refs):
        """a nested value whose strings may refer to the context keys in `refs`"""
        r = self.r
        k = r.randrange(20)
        if depth <= 0 or k < 8:
            if refs and r.random() < 0.45:
                return self.fmt_string(refs, small=True)
            return self.scalar()
        if k < 11:
            return [self.value(depth - 1, refs) for _ in range(r.randrange(0, 4))]
        if k < 13:
            return {'t': [self.value(depth - 1, refs) for _ in range(r.randrange(0, 3))]}
        if k < 16:
            prs, seen = [], set()
            for _ in range(r.randrange(0, 4)):
                kk = self.fmt_string(refs, small=True) if refs and r.random() < 0.15 else self.key_scalar()
                ck = canon(kk)
                if ck in seen or kk in (True, 1) and ({canon(True), canon(1)} & seen) \
                        or kk in (False, 0) and ({canon(False), canon(0)} & seen):
                    continue
                seen.add(ck)
                prs.append([kk, self.value(depth - 1, refs)])
            return {'d': prs}
        if k < 17:
            # a set: hashable members, at most one that contains an expression
            items, seen = [], set()
            for _ in range(r.randrange(0, 3)):
                x = r.choice([0, 1, 2, 'x', 'abc', '', None, 7])
                if canon(x) not in seen:
                    seen.add(canon(x))
                    items.append(x)
            if refs and r.random() < 0.5:
                s = self.fmt_string(refs, small=True)
                if canon(s) not in seen:
                    # what the expression gives may be ==-equal to a number in the set (True == 1): which of the
                    # two survives depends on CPython's (per-process) set iteration order - not an observable
                    items = [x for x in items if not isinstance(x, int)]
                    items.append(s)
            items.sort(key=canon)
            return {'set': items}
        if k < 18:
            return {'sic': r.choice(PLAIN + ['x{a}', '{zz}', '{{', '{', '}{'])}
        if k < 19:
            return {'py': self.py_expr(refs)}
        inner = self.value(depth - 1, refs)
        if isinstance(inner, dict) and ('sic' in inner or 'py' in inner or 'jsonify' in inner):
            inner = [inner]
        return {'jsonify': inner}

    def py_expr(self, refs):
        """a `!py` expression over the keys in `refs`; asserted to stay inside the evaluator's domain
        (py_in_domain: no `len` shadowing, no arithmetic on floats, no read of a builtin name)"""
        e = self._py_expr(refs)
        why = py_in_domain(e, refs)
        assert why is None, (why, e)
        return e

    def _py_expr(self, refs):
        r = self.r
        names = [k for k in refs if k.isidentifier()]
        k = r.randrange(8)
        if not names or k == 0:
            return {'c': r.choice([1, 'lit', True, None, -3])}
        n = r.choice(names)
        v = refs[n]
        if k == 1:
            return {'n': r.choice(MISSING[:2])}
        if isinstance(v, bool) or v is None:
            return r.choice([{'n': n}, {'not': {'n': n}}])
        if isinstance(v, int):
            return r.choice([{'n': n}, {'op': '+', 'a': {'n': n}, 'b': {'c': 2}},
                             {'op': '==', 'a': {'n': n}, 'b': {'c': v}}, {'op': '<', 'a': {'n': n}, 'b': {'c': 3}},
                             {'op': '*', 'a': {'n': n}, 'b': {'c': -2}}])
        if isinstance(v, str):
            return r.choice([{'n': n}, {'len': {'n': n}}, {'op': '+', 'a': {'n': n}, 'b': {'c': '{b}'}},
                             {'op': '==', 'a': {'n': n}, 'b': {'c': 'x'}}])
        if isinstance(v, list):
            c = [{'n': n}, {'len': {'n': n}}, {'not': {'n': n}}]
            if v:
                c.append({'idx': [{'n': n}, {'c': r.randrange(len(v))}]})
            return r.choice(c)
        return r.choice([{'n': n}, {'not': {'n': n}}])

    # ---- format strings ----------------------------------------------
    def path(self, refs, small=False):
        """a field name: first key + 0..3 accessors, mostly type-directed so that it resolves"""
        r = self.r
        q = r.random()
        if q < 0.05:
            first, cur = r.choice(MISSING), None
        elif q < 0.07:
            first, cur = r.choice(['', '0', '1', '00', '12']), None
        else:
            first = r.choice(list(refs))
            cur = refs[first]
        name = first
        for _ in range(r.choice([0, 0, 0, 1, 1, 2, 3]) if not small else r.choice([0, 0, 0, 1, 2])):
            q = r.random()
            if isinstance(cur, dict) and 'd' in cur and cur['d'] and q < 0.8:
                k, v = r.choice(cur['d'])
                if isinstance(k, str) and k and not any(ch in k for ch in ']{}') and not k.isdigit():
                    name += f'[{k}]'
                    cur = v
                    continue
                if isinstance(k, int) and not isinstance(k, bool):
                    name += f'[{k}]'
                    cur = v
                    continue
            seq = cur if isinstance(cur, list) else (cur['t'] if isinstance(cur, dict) and 't' in cur else None)
            if seq is not None and q < 0.8:
                if seq and r.random() < 0.9:
                    i = r.randrange(len(seq))
                    name += f'[{i}]' if r.random() < 0.9 else f'[0{i}]'
                    cur = seq[i]
                else:
                    name += f'[{len(seq) + r.randrange(3)}]'
                    cur = None
                continue
            if isinstance(cur, str) and cur and q < 0.3:
                name += '[0]'
                cur = None
                continue
            if isinstance(cur, dict) and 'o' in cur and q < 0.7:
                name += '.ident'
                cur = cur['o']
                continue
            tag = next((t for t in ('sic', 'py', 'jsonify') if isinstance(cur, dict) and t in cur), None)
            if tag is not None and q < 0.75:
                # what the special-tag objects of pypyr/dsl.py really have: .value (the untouched scalar) / .yaml_tag
                if r.random() < 0.7:
                    name += '.value'
                    cur = py_src(cur['py']) if tag == 'py' else cur[tag]
                else:
                    name += '.yaml_tag'
                    cur = '!' + tag
                continue
            if q < 0.55:
                break
            name += r.choice(['[zz]', '[0]', '[7]', '.zz', '.q1', '[x y]', '.a b', '[k]', '[]', '.', '[', '[0]x', '..a',
                              '[0', '.ident', '[-1]', '[1.5]', '.value', '.yaml_tag'])
            cur = None
            break
        return name, cur

    # forms of the standard mini-language beyond [[fill]align][sign][0][width][s|d]: grouping, alternate form,
    # integer presentation types, precision, z - valid ones and the error of every kind
    INT_SPECS = [',', '_', '08,', '012_', '#x', '#X', '#b', '#o', 'x', 'X', 'b', 'o', 'c', 'n', '_x', '_b', '_o', '#_x',
                 '#010_b', '+,', ' ,d', '<12,', '^+#12x', '=+8_d', '0=9,', '*>#8b', '+c', '#c', ',x', ',c', '_n', ',n', ',_', '_,',
                 ',,', '.2', '.2d', '5.1x', 'z', 'zd', '08_x', '#06x', '+#06X', '-#o', ' #b', '5c', '<4c', '05c', '9n', '+n', '#n',
                 ',d', '_d', '01,', '02,', '03,', '04,', '05,', '06,', '07,', '010,', '0=+7_', ',b', '.0c', 'e', '.2f', ',.1f', 'g', '%']
    STR_SPECS = ['.3', '.0', '.1', '.10', '5.2', '<6.1', '*^7.2', '>8.3s', '.', '.s', '.2d', ',', '_', ',s', '_s', ',_', '#', 'z',
                 '#s', 'zs', '.3x', '05.1', '0>5.2', '=.2', '+.2', ' .2', '.2 ', '.02', '3.', '08.3s', 'é^9.1']

    def spec(self, target):
        r = self.r
        q = r.random()
        if q < 0.5:
            return ''
        if q < 0.62:
            if isinstance(target, int):          # bool too: it formats as an int
                return r.choice(self.INT_SPECS)
            if isinstance(target, str):
                return r.choice(self.STR_SPECS)
            return r.choice(self.INT_SPECS + self.STR_SPECS)
        if q < 0.87:
            s = ''
            if r.random() < 0.5:
                if r.random() < 0.5:
                    s += r.choice(['x', '*', ' ', '0', 'é', '<', '+', '{{', 'r'])[:1]
                s += r.choice('<>^=')
            if r.random() < 0.25:
                s += r.choice('+- ')
            if r.random() < 0.03:
                s += 'z'
            if r.random() < 0.15:
                s += '#'
            if r.random() < 0.3:
                s += '0'
            if r.random() < 0.8:
                s += str(r.choice([0, 1, 3, 5, 8, 12, 20]))
            if r.random() < 0.2:
                s += r.choice([',', ',', '_', '_', ',_', '_,'])
            if r.random() < 0.2:
                s += '.' + r.choice(['0', '1', '2', '3', '10', ''])
            if r.random() < 0.4:
                s += r.choice('sdsdsdqbboxXcnxe')
            return s
        if q < 0.95:
            return r.choice(['>5', '^7', '08', 'd', 's', '5d', '+d', '=+6', 'x<4', '-3', ' 4', 'zz', 'dd', '5 ', 's5'])
        return r.choice(['>>5', '<<', '{{<5', '==', '+', '-', ' ', '0', '00', '005', '1'])

    def field(self, refs, small=False):
        r = self.r
        name, cur = self.path(refs, small)
        conv = ''
        q = r.random()
        if q < 0.12:
            conv = '!' + r.choice('rsa')
        elif q < 0.13:
            conv = '!' + r.choice('xR ')
        spec = ''
        q = r.random()
        if q < 0.22:
            spec = r.choice(['rf', 'ff']) + (self.spec(cur) if r.random() < 0.3 else '')
        elif q < 0.5:
            spec = self.spec(cur)
        elif q < 0.56 and refs:
            # nested spec: {x:{w}} / {x:>{w}} / {x:{w}{t}}
            w, _ = self.path(refs, small=True)
            spec = r.choice(['{%s}', '>{%s}', '{%s}d', 'rf{%s}', '{%s!s}', '{%s:{%s}}', 'x^{%s}']).replace('%s', w)
        return '{' + name + conv + (':' + spec if spec or r.random() < 0.03 else '') + '}'

    def fmt_string(self, refs, small=False):
        r = self.r
        if small:
            n = r.choice([1, 1, 1, 2, 2, 3])
        else:
            n = r.choice([0, 1, 1, 1, 2, 2, 3, 3, 4, 5])
        out = []
        for _ in range(n):
            if r.random() < 0.55:
                out.append(self.field(refs, small))
            else:
                out.append(r.choice(LITS))
        s = ''.join(out)
        if r.random() < 0.02:
            s += r.choice(['{', '}', '{a', '{a!', '{a!r', '{a:', '{a:{', '{a!r:'])
        return s

    def context(self):
        """keys k0..kn; the value of key i may refer to keys after it only (no cycles);
        returns (ctx wire, refs) — refs maps key -> wire value"""
        r = self.r
        n = r.choice([1, 2, 3, 3, 4, 5, 6])
        keys = r.sample(KEYS, n)
        refs = {}
        # build from the last key backwards so that earlier keys can point at later ones
        for k in reversed(keys):
            if refs and r.random() < 0.35:
                # a reference chain: this key stands for (something containing) the next one
                nxt = next(iter(refs))
                v = r.choice(['{%s}', '{%s}', '{%s:rf}', 'x{%s:rf}', ['{%s}'], {'d': [['k', '{%s}']]}, '{%s:ff}', 'a{%s}'])
                v = json.loads(json.dumps(v).replace('%s', nxt))
                refs = {k: v, **refs}
            else:
                refs = {k: self.value(r.choice([0, 1, 1, 2, 3]), dict(refs)), **refs}
        return {'d': [[k, refs[k]] for k in keys]}, refs

    def case(self):
        ctxw, refs = self.context()
        r = self.r
        q = r.random()
        if q < 0.75:
            v = self.fmt_string(refs)
        elif q < 0.85:
            v = self.value(2, refs)
        else:
            k = r.choice(list(refs)[:2])
            v = '{' + k + r.choice(['', '', ':rf', ':ff', '!r', '!s']) + '}'
        return {'kind': 'grammar', 'ctx': ctxw, 'v': v}

    def cyclic(self):
        """a context whose references form a cycle that formatting follows (divergence class)"""
        r = self.r
        k = r.randrange(6)
        if k == 0:
            ctx = {'a': '{a}'}
        elif k == 1:
            ctx = {'a': '{b}', 'b': '{c}', 'c': '{a}'}
        elif k == 2:
            ctx = {'a': ['x', '{a}']}
        elif k == 3:
            ctx = {'a': 'x{a:rf}'}
        elif k == 4:
            ctx = {'a': {'d': [['k', '{b[0]}']]}, 'b': [{'t': ['{a[k]}']}]}
        else:
            ctx = {'a': '{b:rf}', 'b': 'lit {c} lit', 'c': '-{b}-'}
        extra = r.choice(KEYS[3:])
        ctxw = {'d': [[kk, vv] for kk, vv in ctx.items()] + [[extra, self.scalar()]]}
        v = r.choice(['{a}', ['{a}'], {'d': [['k', '{a}']]}, 'x{a:rf}', {'t': ['{a:rf}']}])
        return {'kind': 'cyclic', 'ctx': ctxw, 'v': v}


MAL_ALPHA = '{}[].:!a0 '
MAL_CTX = {'d': [['a', {'d': [['a', 'A'], [0, 'zero'], ['0', 'szero'], [' ', 'sp'], ['a0', [1, 2]]]}],
                 ['0', 'key0'], [' ', [10, 20, 'x{a[a]}']], ['aa', 'x{a[0]}'], ['a0', 5], ['', {'t': [1, 'two']}],
                 ['a ', 'hello'], ['00', -3]]}


def malformed(rng):
    n = rng.randrange(0, 13)
    return ''.join(rng.choice(MAL_ALPHA) for _ in range(n))


def biased_malformed(rng):
    """random strings that more often form (almost) valid fields"""
    parts = []
    for _ in range(rng.randrange(1, 4)):
        q = rng.random()
        if q < 0.5:
            body = ''.join(rng.choice('a0 a0.[]!:') for _ in range(rng.randrange(0, 6)))
            parts.append('{' + body + ('}' if rng.random() < 0.85 else ''))
        elif q < 0.7:
            parts.append(rng.choice(['a', '0', ' ', '{{', '}}', '}', '{', ':', '!', '.', '[', ']']))
        else:
            nm = rng.choice(['a', '0', ' ', 'aa', 'a0', '', 'a ', '00'])
            acc = rng.choice(['', '', '[a]', '[0]', '[ ]', '[a0]', '.a', '[a0][0]', '[00]', '[a', '[]', '.', '[0]a', '[0].', '[1]',
                              '[2]', '[9]'])
            tail = rng.choice(['', '', '!r', '!s', '!a', '!', '!0', ':', ':0', ':a', ': ', ':00', ':{a0}', ':{0}', ':{}', ':{a0', '!r:',
                               ':{a0:{a0}}', ':{a0:{a0:{a0}}}', ':0{a0}', '!r:0{a0}', ':a>{a0}'])
            parts.append('{' + nm + acc + tail + '}')
    return ''.join(parts)[:16]


# --------------------------------------------------------------------------
# the C parser, observed
# --------------------------------------------------------------------------

def impl_parse(s):
    import string
    out, err = [], None
    try:
        for lit, name, spec, conv in string.Formatter().parse(s):
            out.append([lit, name, spec, conv])
    except ValueError as e:
        err = {'name': 'ValueError', 'msg': str(e)}
    return {'tuples': out, 'err': err}


def impl_split(s):
    import _string
    try:
        first, it = _string.formatter_field_name_split(s)
    except ValueError as e:
        return {'early': {'name': 'ValueError', 'msg': str(e)}}
    rest, err = [], None
    try:
        for is_attr, k in it:
            rest.append([bool(is_attr), k])
    except ValueError as e:
        err = {'name': 'ValueError', 'msg': str(e)}
    return {'first': first, 'rest': rest, 'err': err}


# --------------------------------------------------------------------------
# monitors: the property judged on the implementation alone
# --------------------------------------------------------------------------

def _deep_same(a, b):
    """equal values of equal types, recursively (True != 1, (1,) != [1])"""
    try:
        return canon(canon_w(enc(a))) == canon(canon_w(enc(b)))
    except ValueError:
        return a == b and type(a) is type(b)


def top_fields(s):
    """the replacement fields of s as CPython parses them, or None when s does not parse"""
    import string
    try:
        return [(lit, name, spec, conv) for lit, name, spec, conv in string.Formatter().parse(s)]
    except ValueError:
        return None


def monitor_string(ctxw, s, count=None):
    """Monitors for a top-level str `s`. Returns a list of (clause, detail, signature, impl_obs).
    `count(key)` (optional) records which clauses applied."""
    count = count or (lambda key: None)
    import _string
    import string
    from pypyr.context import Context
    from pypyr.errors import KeyNotInContextError
    out = []
    tups = top_fields(s)
    if tups is None:
        return out
    ctx = Context(dec(ctxw))

    def run(x):
        try:
            return ('ok', ctx.get_formatted_value(x))
        except RecursionError:
            return ('rec', None)
        except Exception as e:  # noqa
            return ('err', e)

    fields = [(n, sp, cv) for _, n, sp, cv in tups if n is not None]
    lits = [l for l, _, _, _ in tups if l]
    # --- escapes: a string without any field is its text with {{ }} unescaped, whatever the context
    if not fields:
        got = run(s)
        want = ''.join(lits)
        if got[0] != 'ok' or got[1] != want or type(got[1]) is not str:
            out.append(('escapes', f'literal-only string {s!r} must format to {want!r}', {'monitor': 'escapes'}, repr(got)))
        return out

    def first_of(name):
        try:
            first, _ = _string.formatter_field_name_split(name)
        except ValueError:
            return None
        return first

    def lookup(name):
        return string.Formatter().get_field(name, None, ctx)[0]

    named = all(n != '' and not n.isdigit() for n, _, _ in fields)

    def resolves(n, sp, cv):
        """does the expression get past the loop of the formatter — documented meaning: its lookup, the expansion of
        its format spec (Python's own flat formatter), the recursion an expanded `rf` asks for and the conversion
        that goes with rf / ff all succeed? (a plain expression is converted and format()ed after the loop)"""
        try:
            lookup(n)
            # Python's own formatter at the nesting level of a format spec (str.format allows one level of
            # fields inside a spec: '{a:{b:{c}}}'.format_map raises "Max string recursion exceeded")
            exp = string.Formatter()._vformat(sp, (), ctx, set(), 1)[0] if '{' in sp else sp
        except Exception:  # noqa
            return False
        if exp[:2] == 'rf':
            if run('{' + n + ':rf}')[0] != 'ok':
                return False
        if exp[:2] in ('rf', 'ff') and cv not in (None, 'r', 's', 'a'):
            return False
        return True

    # --- missing key: never a partial result; and exactly the key-lookup error at EVERY position: the first
    #     expression whose first name is not a context key decides, provided every expression before it resolves
    #     (theorem missing_key_any_field) - whatever specs / conversions / syntax errors come after it
    missing = [n for n, _, _ in fields if isinstance(first_of(n), str) and first_of(n) not in ctx]
    if missing and named:
        got = run(s)
        if got[0] == 'ok':
            out.append(('missing-key', f'{s!r} refers to missing key {missing[0]!r} but formatting returned {got[1]!r}',
                        {'monitor': 'missing-key', 'outcome': 'partial-result'}, repr(got[1])))
        elif got[0] == 'err':
            expected, pos = None, 0
            for pos, (n, sp, cv) in enumerate(fields):
                if isinstance(first_of(n), str) and first_of(n) not in ctx:
                    try:
                        lookup(n)
                    except KeyNotInContextError as e:
                        expected = e
                    except Exception:  # noqa   (a malformed rest of the name: no claim)
                        pass
                    break
                if not resolves(n, sp, cv):
                    break
            if expected is not None:
                count('monitor:missing-key:position=' + ('first' if pos == 0 else 'later'))
            if expected is not None and not (isinstance(got[1], KeyNotInContextError) and str(got[1]) == str(expected)):
                out.append(('missing-key', f'{s!r}: expression {pos} refers to a missing key and everything before it '
                            f'resolves: expected KeyNotInContextError({str(expected)!r}), got {type(got[1]).__name__}: {got[1]}',
                            {'monitor': 'missing-key', 'outcome': 'wrong-error', 'position': 'first' if pos == 0 else 'later'},
                            repr(got[1])))
    # --- a string that is exactly one expression
    if len(tups) == 1 and not lits and named:
        name, spec, conv = fields[0]
        try:
            obj = ('ok', lookup(name))
        except Exception as e:  # noqa
            obj = ('err', e)
        got = run(s)
        if obj[0] == 'err':
            if got[0] != 'err' or type(got[1]) is not type(obj[1]):
                out.append(('single-lookup-error', f'{s!r}: lookup raises {type(obj[1]).__name__}, formatting gave {got!r}',
                            {'monitor': 'single', 'outcome': 'lookup-error-lost'}, repr(got)))
        elif conv is None and spec == '':
            want = run(obj[1])
            if want[0] != got[0] or (want[0] == 'ok' and not _deep_same(want[1], got[1])) or \
                    (want[0] == 'err' and type(want[1]) is not type(got[1])):
                out.append(('single-keeps-type', f'{s!r} must give the referenced object recursively formatted: '
                            f'want {want!r} got {got!r}', {'monitor': 'single', 'outcome': 'differs'}, repr(got)))
        elif conv is None and spec == 'ff':
            if got[0] != 'ok' or not (got[1] is obj[1] or (isinstance(obj[1], (str, int, bytes)) and _deep_same(got[1], obj[1]))):
                out.append(('ff-is-flat', f'{s!r} must give the referenced object itself, unformatted: got {got!r}',
                            {'monitor': 'ff'}, repr(got)))
    # --- flat subset: Python's own str.format_map is the oracle
    def expanded(sp):
        if '{' not in sp:
            return sp
        try:
            return string.Formatter()._vformat(sp, (), ctx, set(), 1)[0]
        except Exception:  # noqa
            return ''
    if len(fields) + len(lits) >= 2 and named and all(first_of(n) != '' for n, _, _ in fields) and not any(expanded(sp)[:2] in ('rf', 'ff') for _, sp, _ in fields):
        got = run(s)
        try:
            want = ('ok', s.format_map(ctx))
        except RecursionError:
            want = ('rec', None)
        except Exception as e:  # noqa
            want = ('err', e)
        if want[0] != got[0] or (want[0] == 'ok' and (want[1] != got[1] or type(got[1]) is not str)):
            out.append(('flat-format_map', f'{s!r}: str.format_map gives {want!r}, formatting gives {got!r}',
                        {'monitor': 'flat', 'outcome': 'differs-from-format_map'}, repr(got)))
    return out


def monitor_value(ctxw, vw):
    """Monitors for special tags at top level."""
    from pypyr.context import Context
    from pypyr.dsl import SicString, PyString, Jsonify
    out = []
    ctx = Context(dec(ctxw))
    v = dec(vw)

    def run(x):
        try:
            return ('ok', ctx.get_formatted_value(x))
        except RecursionError:
            return ('rec', None)
        except Exception as e:  # noqa
            return ('err', e)
    if isinstance(v, SicString):
        got = run(v)
        if got[0] != 'ok' or got[1] is not v.value:
            out.append(('sic-verbatim', f'!sic {v.value!r} gave {got!r}', {'monitor': 'sic'}, repr(got)))
    elif isinstance(v, PyString):
        got = run(v)
        try:
            want = ('ok', eval(v.value, {}, dict(ctx)))
        except Exception as e:  # noqa
            want = ('err', e)
        if want[0] != got[0] or (want[0] == 'ok' and not _deep_same(want[1], got[1])) or \
                (want[0] == 'err' and type(want[1]) is not type(got[1])):
            out.append(('py-evaluates', f'!py {v.value!r}: eval gives {want!r}, formatting {got!r}', {'monitor': 'py'},
                        repr(got)))
    elif isinstance(v, Jsonify):
        got = run(v)
        inner = run(v.value)
        if inner[0] == 'ok':
            try:
                want = ('ok', json.dumps(inner[1]))
            except Exception as e:  # noqa
                want = ('err', e)
        else:
            want = inner
        if want[0] != got[0] or (want[0] == 'ok' and want[1] != got[1]) or \
                (want[0] == 'err' and type(want[1]) is not type(got[1])):
            out.append(('jsonify', f'!jsonify: want {want!r} got {got!r}', {'monitor': 'jsonify'}, repr(got)))
    return out


# --------------------------------------------------------------------------
# sessions: several formatting calls on ONE Context, with context updates in between
# --------------------------------------------------------------------------
#
# case  = {'kind': 'session', 'ctx': wire dict, 'calls': [call…]}
# call  = {'fmt': wire value}            context.get_formatted_value(value)
#       | {'pyw': E}                     … of PyString(src(E)); E = wire PyExpr plus {'w': [x, E]} for (x := E)
#       | {'pysrc': src}                 … of PyString(src), arbitrary Python (comprehensions, lambdas):
#                                        IMPLEMENTATION-ONLY, the model answers `opaque` (no opinion)
#       | {'set': [key, wire value]}     context[key] = value
#       | {'del': key}                   context.pop(key, None)

LEFTOVER_SIG = {'site': 'get_eval_string', 'construct': 'walrus-in-comprehension'}


def py_src_w(e) -> str:
    """Render the walrus sub-language to Python source (fully parenthesised, like common.py_src)."""
    if 'w' in e:
        return f"({e['w'][0]} := {py_src_w(e['w'][1])})"
    if 'n' in e:
        return e['n']
    if 'c' in e:
        c = e['c']
        if c is None or c is True or c is False:
            return repr(c)
        if isinstance(c, int):
            return f'({c})' if c < 0 else str(c)
        return repr(c)
    if 'not' in e:
        return f"(not {py_src_w(e['not'])})"
    if 'len' in e:
        return f"len({py_src_w(e['len'])})"
    if 'idx' in e:
        return f"{py_src_w(e['idx'][0])}[{py_src_w(e['idx'][1])}]"
    if 'op' in e:
        return f"({py_src_w(e['a'])} {e['op']} {py_src_w(e['b'])})"
    raise ValueError(e)


def walrus_facts(src):
    """Names an expression binds with := by where the binding sits, and the names it reads.
    Returns {'top': set, 'comp': set, 'lambda': set, 'reads': set}; None when src does not parse."""
    import ast
    try:
        tree = ast.parse(src, mode='eval')
    except SyntaxError:
        return None
    facts = {'top': set(), 'comp': set(), 'lambda': set(), 'reads': set()}
    comps = (ast.ListComp, ast.SetComp, ast.DictComp, ast.GeneratorExp)

    def walk(node, where):
        if isinstance(node, ast.NamedExpr):
            facts[where].add(node.target.id)
            walk(node.value, where)
            return
        if isinstance(node, ast.Name) and isinstance(node.ctx, ast.Load):
            facts['reads'].add(node.id)
        if isinstance(node, ast.Lambda):
            where = 'lambda'
        elif isinstance(node, comps) and where != 'lambda':
            where = 'comp'
        for ch in ast.iter_child_nodes(node):
            walk(ch, where)
    walk(tree, 'top')
    return facts


def call_src(call):
    if 'pyw' in call:
        return py_src_w(call['pyw'])
    if 'pysrc' in call:
        return call['pysrc']
    return None


def _outcome(thunk):
    try:
        return ('ok', thunk())
    except RecursionError:
        return ('rec', None)
    except Exception as e:  # noqa
        return ('err', e)


def _obs(o, py=False):
    """wire observation of an outcome; `!py` errors are compared by exception name (the model's TypeError /
    IndexError texts are abbreviations), NameError with its text"""
    if o[0] == 'rec':
        return {'err': {'name': 'OutOfFuel', 'msg': ''}}
    if o[0] == 'err':
        ob = canon_err(exc_name(o[1]), str(o[1]))
        if py and ob['err']['name'] != 'NameError':
            ob['err']['msg'] = ''
        return ob
    try:
        return {'ok': canon_w(enc(o[1]))}
    except ValueError as e:
        return {'unencodable': str(e)}


def _same_outcome(want, got):
    if want[0] != got[0]:
        return False
    if want[0] == 'ok':
        return _deep_same(want[1], got[1])
    if want[0] == 'err':
        return type(want[1]) is type(got[1])
    return True


def _show(o):
    return f'{type(o[1]).__name__}: {o[1]}' if o[0] == 'err' else repr(o[1]) if o[0] == 'ok' else 'RecursionError'


def _brace_free(v):
    """no '{' / '}' in any string of v, no special tag or object in v"""
    return all('{' not in x and '}' not in x for x in _strings(v))


def _strings(v):
    if isinstance(v, str):
        yield v
    elif isinstance(v, dict):
        for k, x in v.items():
            yield from _strings(k)
            yield from _strings(x)
    elif isinstance(v, (list, tuple, set, frozenset)):
        for x in v:
            yield from _strings(x)
    elif not isinstance(v, (int, float, bytes, type(None))):
        yield '{'        # special tags / objects: not "plain"


def _strings_w(w):
    """the strings of a wire value"""
    if isinstance(w, str):
        yield w
    elif isinstance(w, list):
        for x in w:
            yield from _strings_w(x)
    elif isinstance(w, dict):
        for key in ('t', 'set'):
            if key in w:
                yield from _strings_w(w[key])
        if 'd' in w:
            for k, v in w['d']:
                yield from _strings_w(k)
                yield from _strings_w(v)
        if 'jsonify' in w:
            yield from _strings_w(w['jsonify'])


def _py_names_w(w):
    """names read by the !py expressions inside a wire value"""
    out = set()
    if isinstance(w, list):
        for x in w:
            out |= _py_names_w(x)
    elif isinstance(w, dict):
        if 'py' in w:
            f = walrus_facts(py_src(w['py']))
            out |= f['reads'] if f else set()
        for key in ('t', 'set'):
            if key in w:
                out |= _py_names_w(w[key])
        if 'd' in w:
            for k, v in w['d']:
                out |= _py_names_w(k) | _py_names_w(v)
        if 'jsonify' in w:
            out |= _py_names_w(w['jsonify'])
    return out


def _replica_eval(src, items):
    """What eval gives when globals is a ChainMap posing as a dict (context first) and locals a child of it:
    the documented mechanism of ADR 0001, rebuilt here from collections alone. Used only to CONFIRM the cause
    of a deviation that the plain-Python oracle has already established."""
    import builtins
    import collections

    class _Chain(collections.ChainMap, dict):
        pass
    g = _Chain(items, {})
    dict.__setitem__(g, '__builtins__', builtins.__dict__)
    return eval(src, g, g.new_child())


def _ctx_state(ctx):
    return [(k, id(v), canon(canon_w(enc(v)))) for k, v in ctx.items()]


def run_session(case):
    """Run one session on the implementation. Returns (observations, violations, hidden):
    observations: one wire obs per call (None for updates);
    violations:   [(clause, detail, signature, obs)] judged from the property text alone:
      * py-evaluates-at-that-moment: a !py call gives what plain Python eval(src, dict(context)) — the context keys
        as variables and nothing else — gives for the context as it is at that call (missing name: NameError)
      * fresh-context: any formatting call gives what the same call gives on a NEW Context with the same items
      * name-read: '{name}' gives the (brace-free) context value of name, KeyNotInContextError when it is not a key
      * context-changed: a formatting call leaves keys, order, values and value identities of the context alone
    hidden: True when an evaluation left something in the raw dict slot of context._pystring_namespace."""
    from pypyr.context import Context
    from pypyr.dsl import PyString
    from pypyr.errors import KeyNotInContextError
    ctx = Context(dec(case['ctx']))
    obs, viol = [], []
    bound_before = []          # (call index, where, names) of earlier := bindings
    hidden = False
    for i, call in enumerate(case['calls']):
        if 'set' in call:
            ctx[call['set'][0]] = dec(call['set'][1])
            obs.append(None)
            continue
        if 'del' in call:
            ctx.pop(call['del'], None)
            obs.append(None)
            continue
        src = call_src(call)
        is_py = src is not None
        make = (lambda: PyString(src)) if is_py else (lambda: dec(call['fmt']))
        # the oracles, computed before the call under test
        want_py = _outcome(lambda: eval(src, dict(ctx))) if is_py else None
        want_fresh = _outcome(lambda: Context(dict(ctx)).get_formatted_value(make()))
        before = _ctx_state(ctx)
        ns_before = getattr(ctx, '_pystring_namespace', None)
        ns_before = dict(dict.items(ns_before)) if isinstance(ns_before, dict) else None
        got = _outcome(lambda: ctx.get_formatted_value(make()))
        after = _ctx_state(ctx)
        o = _obs(got, py=is_py)
        obs.append(o)
        facts = walrus_facts(src) if is_py else None

        def sig_for(clause):
            """the signature of a deviation; the known cause (an assignment expression inside a comprehension
            compiles to STORE_GLOBAL / LOAD_GLOBAL, which hit the raw dict slot of the namespace object instead
            of the chain map) is named only when its mechanism is confirmed on this very call"""
            sig = {'monitor': 'py-session', 'clause': clause}
            reads = facts['reads'] if facts else set()
            if not is_py:
                reads = {n.split('.')[0].split('[')[0] for x in _strings_w(call.get('fmt'))
                         for _, n, _, _ in (top_fields(x) or []) if n} | _py_names_w(call.get('fmt'))
            own = sorted(facts['comp'] & facts['reads']) if facts else []
            if own and got[0] != 'rec' and _same_outcome(_outcome(lambda: _replica_eval(src, dict(ctx))), got):
                return dict(sig, **LEFTOVER_SIG, effect='read-back-misses-binding', name=own[0],
                            target_is_context_key=own[0] in ctx)
            slot = set(dict.keys(ns_before)) - {'__builtins__'} if ns_before is not None else set()
            for j, where, names in bound_before:
                hit = sorted(names & reads & slot)
                if where == 'comp' and hit and hit[0] not in ctx:
                    return dict(sig, **LEFTOVER_SIG, effect='persists-in-namespace-dict', name=hit[0],
                                target_is_context_key=False)
            for j, where, names in bound_before:
                hit = sorted(names & reads)
                if hit:
                    sig.update(construct='walrus-' + where, name=hit[0], bound_by_call=j)
                    return sig
            return sig

        if before != after:
            viol.append(('context-changed', f'call {i} ({src or call.get("fmt")!r}) changed the context: '
                         f'{[(k, c) for k, _, c in before]} -> {[(k, c) for k, _, c in after]}',
                         sig_for('context-changed'), o))
        if is_py and not _same_outcome(want_py, got):
            viol.append(('py-evaluates-at-that-moment',
                         f'call {i}: !py {src!r} with context {dict(ctx)!r}: Python gives {_show(want_py)}, '
                         f'formatting gives {_show(got)}', sig_for('py-evaluates-at-that-moment'), o))
        elif not _same_outcome(want_fresh, got):
            viol.append(('fresh-context', f'call {i} ({src or call.get("fmt")!r}) with context {dict(ctx)!r}: a new Context '
                         f'with the same items gives {_show(want_fresh)}, this one gives {_show(got)}',
                         sig_for('fresh-context'), o))
        if not is_py and isinstance(call['fmt'], str):
            s = call['fmt']
            if len(s) > 2 and s[0] == '{' and s[-1] == '}' and s[1:-1].isidentifier():
                n = s[1:-1]
                if n not in ctx:
                    ok = got[0] == 'err' and isinstance(got[1], KeyNotInContextError)
                    want_txt = 'KeyNotInContextError'
                else:
                    ok = not _brace_free(ctx[n]) or (got[0] == 'ok' and _deep_same(got[1], ctx[n]))
                    want_txt = repr(ctx[n])
                if not ok:
                    viol.append(('name-read', f'call {i}: {s!r} with context {dict(ctx)!r} must give {want_txt}, '
                                 f'gave {_show(got)}', sig_for('name-read'), o))
        if facts:
            for where in ('top', 'comp', 'lambda'):
                if facts[where]:
                    bound_before.append((i, where, set(facts[where])))
        ns = getattr(ctx, '_pystring_namespace', None)
        if ns is not None and set(dict.keys(ns)) - {'__builtins__'}:
            hidden = True
    return obs, viol, hidden


# ---- session generator -------------------------------------------------------------------------

S_NAMES = ['a', 'b', 'n', 'x', 'limit', 'total', 'count', 'max', 'sum']   # max / sum: context keys shadow builtins
BUILTIN_NAMES = {'max', 'sum'}
S_LISTS = ['items', 'xs']
S_MISSING = ['zz', 'nokey']
S_TARGETS = S_NAMES + ['tmp', 'w1', 'items']
assert 'len' not in S_TARGETS + S_LISTS + S_MISSING     # `len` is syntax in the model: see py_in_domain


class SessGen:
    def __init__(self, rng):
        self.r = rng

    def int_const(self):
        return self.r.choice([0, 1, 2, 3, 5, 7, 10, -1, -4, 42, 10 ** 12, True, False])

    def ctx(self):
        r = self.r
        kv = {}
        for k in r.sample(S_NAMES, r.randint(1, 4)):
            kv[k] = self.int_const()
        for k in S_LISTS:
            if r.random() < 0.6:
                kv[k] = [r.choice([1, 2, 3, 8, 12, -5]) for _ in range(r.randint(0, 4))]
        if r.random() < 0.3:
            kv['s'] = r.choice(['abc', '', 'two words', 'x{a}' if 'a' in kv else 'pl'])
        items = list(kv.items())
        r.shuffle(items)
        return dict(items)

    def int_expr(self, depth, env, targets, allow_w=True):
        """env: name -> 'int' | 'list' | 'str' (context keys and what this expression has bound so far, in
        evaluation order); targets: collects the names this expression binds"""
        r = self.r
        ints = [k for k, t in env.items() if t == 'int']
        lists = [k for k, t in env.items() if t == 'list']
        q = r.random()
        if depth <= 0 or q < 0.22:
            if ints and r.random() < 0.7:
                return {'n': r.choice(ints)}
            if r.random() < 0.08:
                return {'n': r.choice([n for n in S_MISSING + S_TARGETS if env.get(n) in (None, 'int')])}   # maybe unbound
            return {'c': self.int_const()}
        if q < 0.5 and allow_w:
            t = r.choice(S_TARGETS)
            a = self.int_expr(depth - 1, env, targets)
            env[t] = 'int'
            targets.add(t)
            return {'w': [t, a]}
        if q < 0.58 and lists:
            return {'len': {'n': r.choice(lists)}}
        if q < 0.64 and lists:
            return {'idx': [{'n': r.choice(lists)}, {'c': r.choice([0, 1, -1, 2, 5])}]}
        if q < 0.72:
            op = r.choice(['and', 'or'])
            a = self.int_expr(depth - 1, env, targets)
            b = self.int_expr(depth - 1, dict(env), targets)       # may not run: binds nothing for sure
            return {'op': op, 'a': a, 'b': b}
        if q < 0.78:
            return {'not': self.int_expr(depth - 1, env, targets)}
        if q < 0.86:
            op = r.choice(['==', '!=', '<', '<=', '>', '>='])
        else:
            op = r.choice(['+', '+', '-', '*'])
        a = self.int_expr(depth - 1, env, targets)
        b = self.int_expr(depth - 1, env, targets)
        return {'op': op, 'a': a, 'b': b}

    def pysrc(self, kv, targets):
        """arbitrary-Python forms (implementation-only): := in comprehensions / lambdas, nested-scope reads"""
        r = self.r
        t = r.choice(S_TARGETS[:-1])
        L = r.choice([k for k in S_LISTS if k in kv] or ['[1, 2, 3]'])
        if r.random() < 0.25:
            L = '[1, 2, 3]'
        ints = [k for k, v in kv.items() if isinstance(v, int)]
        K = r.choice(ints) if ints else '4'
        forms = [
            ('[({t} := i) for i in {L}]', True), ('[{t} for i in {L} if ({t} := i * 2) > 2]', True),
            ('any(({t} := i) > 1 for i in {L})', True), ('{{i: ({t} := i) for i in {L}}}', True),
            ('(lambda: ({t} := 5))()', True), ('(lambda q: ({t} := q) + 1)({K})', True),
            ('[(lambda: ({t} := i))() for i in {L}]', True), ('sum([({t} := i) for i in {L}]) + {K}', True),
            ('[({t} := i) for i in {L}] and {t}', True), ('({t} := {K}) + sum([{t} for i in {L}])', True),
            ('[i + {K} for i in {L}]', False), ('(lambda: {K} + 1)()', False), ('[(lambda: {K})() for i in {L}]', False),
            ('[j for i in {L} for j in [i, {K}]]', False), ('sorted({L})', False), ('len({L}) + {K}', False),
        ]
        f, binds = r.choice(forms)
        if binds:
            targets.add(t)
        return f.format(t=t, L=L, K=K)

    def case(self):
        r = self.r
        kv = self.ctx()
        ctx0 = {'d': [[k, list(v) if isinstance(v, list) else v] for k, v in kv.items()]}
        calls = []
        seen_targets = []

        def types():
            return {k: ('int' if isinstance(v, int) else 'list' if isinstance(v, list) else 'str') for k, v in kv.items()}

        def reads(names):
            for t in names:
                q = r.random()
                if q < 0.75:
                    if isinstance(kv.get(t, 0), int):
                        calls.append({'pyw': r.choice([{'n': t}, {'op': '*', 'a': {'n': t}, 'b': {'c': 2}},
                                                       {'op': '+', 'a': {'c': 1}, 'b': {'n': t}}])})
                    else:           # list / str valued key: no arithmetic outside PyEval's operator table
                        calls.append({'pyw': r.choice([{'n': t}, {'len': {'n': t}}])})
                if q > 0.4:
                    calls.append({'fmt': _subst(r.choice(['{%s}', '{%s}', 'v={%s}', '{%s:>4}', ['{%s}', 1]]), t)})

        for _ in range(r.randint(2, 4)):
            q = r.random()
            tg = set()
            if q < 0.45:
                e = self.int_expr(r.randint(1, 3), types(), tg, allow_w=r.random() < 0.8)
                calls.append({'pyw': e})
            elif q < 0.58:
                names = [k for k in kv] + seen_targets + S_MISSING[:1]
                t = r.choice(names)
                v = _subst(r.choice(['{%s}', 'is {%s}!', '{%s:>5}', ['{%s}', {'d': [['k', 'x{%s}']]}], {'t': ['{%s}', 2]}]), t)
                if r.random() < 0.3:
                    v = [v, {'py': {'n': t}}]
                calls.append({'fmt': v})
            elif q < 0.74:
                t = r.choice(seen_targets + S_NAMES if seen_targets and r.random() < 0.7 else S_NAMES + S_LISTS)
                v = self.int_const() if t not in S_LISTS else [r.choice([1, 2, 9]) for _ in range(r.randint(0, 3))]
                kv[t] = v
                calls.append({'set': [t, v]})
                if r.random() < 0.8:
                    reads([t])
            elif q < 0.8:
                t = r.choice(seen_targets + list(kv) if seen_targets else list(kv) or ['a'])
                kv.pop(t, None)
                calls.append({'del': t})
                if r.random() < 0.8:
                    reads([t])
            else:
                calls.append({'pysrc': self.pysrc(kv, tg)})
            if tg:
                names = sorted(tg)
                seen_targets.extend(n for n in names if n not in seen_targets)
                reads(names if r.random() < 0.9 else names[:1])
        return {'kind': 'session', 'ctx': ctx0, 'calls': calls}


def _subst(v, t):
    return json.loads(json.dumps(v).replace('%s', t))
