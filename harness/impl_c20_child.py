"""C20 child: ONE fresh interpreter per configuration.

Started by harness/impl_c20.py with a scrubbed environment and cwd = the scratch cwd of the
case. Imports pypyr from $C20_REPO, runs `config.init()` on the module-level singleton (what
`pypyr.cli.main` does) and prints one JSON line: the error (if any), every writable property
*after* the call (also after a failed call: in-place mutation is observable), `skip_init`,
`config_loaded_paths`, and the `handle_path` calls in the order they were made.

Never imported by the harness process; never edits anything.
"""
import ast
import json
import os
import re
import sys


def enc(v):
    """Python value -> wire form of harness/common.py (subset: what yaml/toml config holds)."""
    if v is None or isinstance(v, bool):
        return v
    if isinstance(v, int):
        return int(v)
    if isinstance(v, float):
        n, d = float(v).as_integer_ratio()
        return {'f': [n, d.bit_length() - 1]}
    if isinstance(v, str):
        return str(v)
    if isinstance(v, (list, tuple)):
        return [enc(x) for x in v]
    if isinstance(v, dict):
        return {'d': [[enc(k), enc(x)] for k, x in v.items()]}
    return {'unencodable': type(v).__name__}


def classify(e):
    msg = str(e)
    m = re.match(r'Could not open config file at (.*)\.$', msg, re.S)
    if m:
        return {'kind': 'notFound', 'path': m.group(1)}
    m = re.match(r'Config file (.*) should be a mapping', msg, re.S)
    if m:
        return {'kind': 'notMapping', 'path': m.group(1)}
    m = re.match(r'Unexpected config props: (.*)$', msg, re.S)
    if m:
        try:
            keys = sorted(k if isinstance(k, str) else f'<non-str {k!r}>' for k in ast.literal_eval(m.group(1)))
        except Exception:
            keys = None
        return {'kind': 'unknownProps', 'keys': keys}
    return {'kind': 'other'}


def main():
    repo = os.environ['C20_REPO']
    sys.path.insert(0, repo)
    import pypyr.config as pc
    import pypyr.errors
    out = {'pypyr_file': pc.__file__}
    calls = []
    try:
        orig = pc.Config.handle_path

        def recorder(self, path, *a, **kw):
            rnf = kw.get('raise_not_found', a[1] if len(a) > 1 else False)
            calls.append([str(path), bool(rnf)])
            return orig(self, path, *a, **kw)
        pc.Config.handle_path = recorder
    except AttributeError:      # a refactor renamed it: the call order is then not observed
        calls = None
    cfg = pc.config
    err = None
    try:
        cfg.init()
    except Exception as e:       # noqa: the error type is the observation
        err = {'type': type(e).__name__, 'config_error': isinstance(e, pypyr.errors.ConfigError),
               'msg': str(e)[:400]}
        err.update(classify(e))
    out['err'] = err
    out['props'] = {k: enc(getattr(cfg, k, {'missing': True})) for k in sorted(pc.Config.all_writable_props)}
    out['skip_init'] = bool(getattr(cfg, 'skip_init', None))
    out['loaded'] = [str(p) for p in (cfg.config_loaded_paths or [])]
    out['calls'] = calls
    sys.stdout.write(json.dumps(out, ensure_ascii=True) + '\n')


if __name__ == '__main__':
    main()
