"""C20 child: ONE fresh interpreter per configuration / per history.

Started by harness/impl_c20.py with a scrubbed environment and cwd = the scratch cwd of the
case. Imports pypyr from $C20_REPO - the module-level singleton `pypyr.config.config` (object 0) is
built right there, under the environment the process started with - and then plays the script of
$C20_SCRIPT (a JSON file; absent = `[{"op": "init", "obj": 0}]`, what `pypyr.cli.main` does):

  {"op": "env", "env": {NAME: value}}   the variables of interest become exactly this mapping
                                        (set / changed / removed in os.environ)
  {"op": "new", "obj": k}               objs[k] = pypyr.config.Config()
  {"op": "init", "obj": k}              objs[k].init()

$C20_PLATFORM (macos | windows) makes the process pretend to be that OS (sys.platform, os.pathsep patched before
pypyr is imported); $C20_SYSPATH_EXTRA ('|'-separated) is appended to sys.path.

and prints one JSON line: for the import and for every new / init step the error (if any), every
writable property of that object *after* the step (also after a failed call: in-place mutation is
observable), `skip_init`, `config_loaded_paths`, the `handle_path` calls made during the step in
order, every file below the scratch root that was opened during the step (audit hook), and the
variables of interest as os.environ had them at that moment.

Never imported by the harness process; never edits anything.
"""
import ast
import json
import os
import re
import sys

NAMES = ['PYPYR_SKIP_INIT', 'PYPYR_CONFIG_GLOBAL', 'PYPYR_CONFIG_LOCAL', 'PYPYR_NO_CACHE', 'PYPYR_ENCODING',
         'PYPYR_CMD_ENCODING', 'XDG_CONFIG_HOME', 'XDG_CONFIG_DIRS', 'ANDROID_DATA', 'ANDROID_ROOT', 'ALLUSERSPROFILE']


def enc(v):
    """Python value -> wire form of harness/common.py (subset: what yaml/toml config holds)."""
    if v is None or isinstance(v, bool):
        return v
    if isinstance(v, int):
        return int(v)
    if isinstance(v, float):
        n, d = float(v).as_integer_ratio()
        return {'f': [n, d.bit_length() - 1]}
    if isinstance(v, str):
        return str(v)
    if isinstance(v, (list, tuple)):
        return [enc(x) for x in v]
    if isinstance(v, dict):
        return {'d': [[enc(k), enc(x)] for k, x in v.items()]}
    return {'unencodable': type(v).__name__}


def classify(e):
    msg = str(e)
    m = re.match(r'Could not open config file at (.*)\.$', msg, re.S)
    if m:
        return {'kind': 'notFound', 'path': m.group(1)}
    m = re.match(r'Config file (.*) should be a mapping', msg, re.S)
    if m:
        return {'kind': 'notMapping', 'path': m.group(1)}
    m = re.match(r'Unexpected config props: (.*)$', msg, re.S)
    if m:
        try:
            keys = sorted(k if isinstance(k, str) else f'<non-str {k!r}>' for k in ast.literal_eval(m.group(1)))
        except Exception:
            keys = None
        return {'kind': 'unknownProps', 'keys': keys}
    mod = type(e).__module__ or ''
    if mod.startswith('ruamel') or mod.startswith('tomllib') or mod.startswith('tomli') or isinstance(e, UnicodeError):
        return {'kind': 'parse'}
    if isinstance(e, AttributeError) and "has no attribute 'get'" in msg:
        return {'kind': 'toolNotTable'}
    if isinstance(e, OSError) and 'Cannot find path to android app folder' in msg:
        return {'kind': 'androidDir'}
    return {'kind': 'other'}


def alone():
    """$C20_ALONE = path of ONE yaml file: this pristine process (nothing was parsed in it before) builds a fresh
    `Config()` and prints what `load_yaml` makes of the file - the payload the file states when loaded alone."""
    repo = os.environ['C20_REPO']
    sys.path.insert(0, repo)
    import pypyr.config as pc
    out = {'pypyr_file': pc.__file__}
    path = os.environ['C20_ALONE']
    try:
        try:
            loader = pc.Config().load_yaml
        except AttributeError:      # a refactor renamed it: a parser of its own, built here and used once
            import ruamel.yaml

            def loader(p):
                with open(p, encoding='utf-8') as f:
                    return ruamel.yaml.YAML().load(f)
        obj = loader(path)
        if obj is None:
            out['alone'] = {'kind': 'none'}
        elif isinstance(obj, dict):
            out['alone'] = {'kind': 'map', 'kvs': [[k if isinstance(k, str) else f'<non-str {k!r}>', enc(v)] for k, v in obj.items()]}
        else:
            out['alone'] = {'kind': 'nonmap', 'truthy': bool(obj)}
    except Exception as e:          # noqa: a file that does not parse: the class is the payload
        out['alone'] = {'kind': 'parse', 'exc': type(e).__name__}
    sys.stdout.write(json.dumps(out, ensure_ascii=True) + '\n')


def main():
    if os.environ.get('C20_ALONE'):
        return alone()
    repo = os.environ['C20_REPO']
    root = os.path.realpath(os.environ.get('C20_ROOT') or os.path.dirname(os.getcwd()))
    script = [{'op': 'init', 'obj': 0}]
    if os.environ.get('C20_SCRIPT'):
        with open(os.environ['C20_SCRIPT']) as f:
            script = json.load(f)
    opened = []

    def hook(event, args):
        if event == 'open' and args and isinstance(args[0], (str, bytes, os.PathLike)):
            try:
                p = os.fsdecode(args[0])
                if os.path.realpath(p).startswith(root + os.sep):
                    opened.append(p)
            except Exception:       # noqa: an audit hook must never raise
                pass
    sys.addaudithook(hook)
    sys.path.insert(0, repo)
    # which OS this process pretends to be: pypyr.platform asks sys.platform and os.pathsep when init() runs
    plat = os.environ.get('C20_PLATFORM')
    if plat == 'macos':
        sys.platform = 'darwin'
    elif plat == 'windows':
        sys.platform = 'win32'
        os.pathsep = ';'
    for extra in filter(None, os.environ.get('C20_SYSPATH_EXTRA', '').split('|')):
        sys.path.append(extra)          # what Android._get_android_dir scans when jnius is not there
    import pypyr.config as pc
    import pypyr.errors
    out = {'pypyr_file': pc.__file__}
    calls = []
    try:
        orig = pc.Config.handle_path

        def recorder(self, path, *a, **kw):
            rnf = kw.get('raise_not_found', a[1] if len(a) > 1 else False)
            calls.append([str(path), bool(rnf)])
            return orig(self, path, *a, **kw)
        pc.Config.handle_path = recorder
    except AttributeError:      # a refactor renamed it: the call order is then not observed
        calls = None
    objs = {0: pc.config}

    def snapshot(op, k, err):
        cfg = objs.get(k)
        if cfg is None:         # the construction itself raised
            return {'op': op, 'obj': k, 'err': err, 'props': {}, 'skip_init': False, 'loaded': [],
                    'calls': None if calls is None else list(calls), 'opened': list(opened),
                    'env_seen': {n: os.environ[n] for n in NAMES if n in os.environ}}
        return {'op': op, 'obj': k, 'err': err,
                'props': {p: enc(getattr(cfg, p, {'missing': True})) for p in sorted(pc.Config.all_writable_props)},
                'skip_init': bool(getattr(cfg, 'skip_init', None)),
                'loaded': [str(p) for p in (cfg.config_loaded_paths or [])],
                'calls': None if calls is None else list(calls),
                'opened': list(opened),
                'env_seen': {n: os.environ[n] for n in NAMES if n in os.environ}}

    steps = [snapshot('new', 0, None)]
    for st in script:
        del opened[:]
        if calls is not None:
            del calls[:]
        if st['op'] == 'env':
            for n in NAMES:
                if n in st['env']:
                    os.environ[n] = st['env'][n]
                else:
                    os.environ.pop(n, None)
            continue
        k = st['obj']
        err = None
        try:
            if st['op'] == 'new':
                objs[k] = pc.Config()
            elif st['op'] == 'init':
                objs[k].init()
            else:
                raise SystemExit(f'unknown script op {st!r}')
        except Exception as e:       # noqa: the error type is the observation
            err = {'type': type(e).__name__, 'config_error': isinstance(e, pypyr.errors.ConfigError),
                   'msg': str(e)[:400]}
            err.update(classify(e))
        steps.append(snapshot(st['op'], k, err))
    out['steps'] = steps
    sys.stdout.write(json.dumps(out, ensure_ascii=True) + '\n')


if __name__ == '__main__':
    main()
