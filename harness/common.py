"""Shared machinery of the /verif checks.

One check = ./check Cxx --tier quick|thorough  (see DESIGN.md section 2.4):
  1. regenerate lean/Generated/*.lean from the source under test (extract.py)
  2. lake build the property's theorem modules + the model driver
  3. audit: forbidden tokens, `#print axioms`-equivalent for every theorem
  4. correspondence: run model (pmdriver) and implementation on the same cases
  5. decide: property findings (a concrete input on which the implementation
     breaks the property) -> VIOLATION with that replay; broken proof or broken
     correspondence without such an input -> VIOLATION ... no-failing-input-found
  6. write evidence/Cxx.json

Exit codes: 0 held, 1 violation (a VIOLATION line was printed), 2 infrastructure.
"""
from __future__ import annotations

import hashlib
import json
import math
import os
import random
import re
import subprocess
import sys
import time
from pathlib import Path

VERIF = Path(__file__).resolve().parent.parent
LEAN = VERIF / 'lean'
REPO = Path(os.environ.get('PYPYR_REPO', '/repo')).resolve()
DRIVER_BIN = LEAN / '.lake' / 'build' / 'bin' / 'pmdriver'
ALLOWED_AXIOMS = {'propext', 'Classical.choice', 'Quot.sound'}
FORBIDDEN = re.compile(
    r'\b(sorry|admit|native_decide|bv_decide|implemented_by|unsafe)\b|^\s*axiom\s|maxHeartbeats\s+0\b')


def use_repo():
    """Put the tree under test first on sys.path, whatever the editable install says."""
    p = str(REPO)
    if p in sys.path:
        sys.path.remove(p)
    sys.path.insert(0, p)
    for name in list(sys.modules):
        if name == 'pypyr' or name.startswith('pypyr.'):
            f = getattr(sys.modules[name], '__file__', None)
            if f and not str(f).startswith(p):
                del sys.modules[name]


class Infra(Exception):
    """Infrastructure failure: exit 2, never a VIOLATION."""


class Reject(Exception):
    """The driver rejected a request at protocol level."""


# --------------------------------------------------------------------------
# wire encoding of values (mirror of lean/PypyrModel/Json.lean)
# --------------------------------------------------------------------------

def dyadic(x: float):
    """float -> (n, k) with x == n / 2**k exactly, normalised (n odd or k == 0)."""
    if x != x or x in (float('inf'), float('-inf')):
        raise ValueError('not finite')
    n, d = x.as_integer_ratio()
    k = d.bit_length() - 1
    assert d == 1 << k
    return n, k


class Opaque:
    """An arbitrary object with an identity the model calls `obj id`."""

    def __init__(self, ident):
        self.ident = ident

    def __repr__(self):
        return f'<obj {self.ident}>'


PY_REGISTRY = {}   # rendered source -> wire PyExpr, so PyStrings built by the yaml loader encode back


def py_src(e) -> str:
    """Render a PyExpr (wire form) to Python source; must equal Lean's PyExpr.src."""
    s = _py_src(e)
    PY_REGISTRY[s] = e
    return s


def _py_src(e) -> str:
    if 'n' in e:
        return e['n']
    if 'c' in e:
        c = e['c']
        if c is None:
            return 'None'
        if c is True:
            return 'True'
        if c is False:
            return 'False'
        if isinstance(c, int):
            return f'({c})' if c < 0 else str(c)
        return repr(c)
    if 'not' in e:
        return f"(not {py_src(e['not'])})"
    if 'len' in e:
        return f"len({py_src(e['len'])})"
    if 'idx' in e:
        return f"{py_src(e['idx'][0])}[{py_src(e['idx'][1])}]"
    if 'op' in e:
        return f"({py_src(e['a'])} {e['op']} {py_src(e['b'])})"
    raise ValueError(e)


def enc(v, objs=None):
    """Python value -> wire JSON. `objs` maps id(obj) -> small int for opaque objects."""
    from pypyr.dsl import Jsonify, PyString, SicString
    if v is None or isinstance(v, bool):
        return v
    if isinstance(v, int):
        return v
    if isinstance(v, float):
        n, k = dyadic(v)
        return {'f': [n, k]}
    if isinstance(v, str):
        return v
    if isinstance(v, (bytes, bytearray)):
        return {'b': bytes(v).hex()}
    if isinstance(v, SicString):
        return {'sic': v.value}
    if isinstance(v, PyString):
        e = getattr(v, '_vexpr', None)
        if e is None:
            e = PY_REGISTRY.get(v.value)
        if e is None:
            raise ValueError('PyString without model expression')
        return {'py': e}
    if isinstance(v, Jsonify):
        return {'jsonify': enc(v.value, objs)}
    if isinstance(v, tuple):
        return {'t': [enc(x, objs) for x in v]}
    if isinstance(v, list):
        return [enc(x, objs) for x in v]
    if isinstance(v, dict):
        return {'d': [[enc(k, objs), enc(x, objs)] for k, x in v.items()]}
    if isinstance(v, (set, frozenset)):
        items = [enc(x, objs) for x in v]
        items.sort(key=canon)
        return {'set': items}
    if isinstance(v, Opaque):
        return {'o': v.ident}
    if objs is not None:
        return {'o': objs.setdefault(id(v), len(objs) + 1000)}
    raise ValueError(f'cannot encode {type(v)}')


def dec(w, objs=None):
    """wire JSON -> Python value (plain dict/list/tuple/set + pypyr special tags)."""
    from pypyr.dsl import Jsonify, PyString, SicString
    if w is None or isinstance(w, (bool, int, str)):
        return w
    if isinstance(w, list):
        return [dec(x, objs) for x in w]
    if 'f' in w:
        n, k = w['f']
        return n / (1 << k)
    if 'b' in w:
        return bytes.fromhex(w['b'])
    if 't' in w:
        return tuple(dec(x, objs) for x in w['t'])
    if 'd' in w:
        return {dec(k, objs): dec(x, objs) for k, x in w['d']}
    if 'set' in w:
        return {dec(x, objs) for x in w['set']}
    if 'sic' in w:
        return SicString(w['sic'])
    if 'py' in w:
        p = PyString(py_src(w['py']))
        p._vexpr = w['py']
        return p
    if 'jsonify' in w:
        return Jsonify(dec(w['jsonify'], objs))
    if 'o' in w:
        if objs is None:
            return Opaque(w['o'])
        return objs.setdefault(w['o'], Opaque(w['o']))
    raise ValueError(w)


def canon(w) -> str:
    """Canonical text of a wire value (sets sorted)."""
    return json.dumps(w, sort_keys=True, separators=(',', ':'), ensure_ascii=True)


def exc_name(e: BaseException) -> str:
    from pypyr.errors import get_error_name
    return get_error_name(e)


# --------------------------------------------------------------------------
# lean side
# --------------------------------------------------------------------------

def sh(cmd, cwd=None, timeout=3600):
    p = subprocess.run(cmd, cwd=cwd, stdout=subprocess.PIPE, stderr=subprocess.STDOUT,
                       text=True, timeout=timeout)
    return p.returncode, p.stdout


def lake_build(targets):
    """lake build the given targets. Returns (ok, log)."""
    rc, out = sh(['lake', 'build', *targets], cwd=LEAN)
    return rc == 0, out


class Driver:
    """pmdriver subprocess, line protocol."""

    def __init__(self):
        if not DRIVER_BIN.exists():
            ok, log = lake_build(['pmdriver'])
            if not ok:
                raise Infra('pmdriver does not build:\n' + log[-3000:])
        self.p = subprocess.Popen([str(DRIVER_BIN)], stdin=subprocess.PIPE, stdout=subprocess.PIPE,
                                  text=True, bufsize=1)
        self.n = 0

    def ask(self, op, **payload):
        self.n += 1
        req = {'op': op, 'id': self.n, **payload}
        try:
            self.p.stdin.write(json.dumps(req, ensure_ascii=True) + '\n')
            self.p.stdin.flush()
            line = self.p.stdout.readline()
        except BrokenPipeError:
            raise Infra('pmdriver died')
        if not line:
            raise Infra(f'pmdriver closed the stream on request {json.dumps(req)[:500]}')
        resp = json.loads(line)
        if 'reject' in resp:
            raise Reject(resp['reject'])
        return resp['obs']

    def ask_many(self, reqs):
        """reqs: list of (op, payload). Returns list of obs or Reject instances.
        Requests are written by a helper thread so large batches cannot deadlock."""
        import threading
        lines = []
        for op, payload in reqs:
            self.n += 1
            lines.append(json.dumps({'op': op, 'id': self.n, **payload}, ensure_ascii=True) + '\n')

        def writer():
            for ln in lines:
                self.p.stdin.write(ln)
            self.p.stdin.flush()
        t = threading.Thread(target=writer)
        t.start()
        out = []
        for _ in lines:
            line = self.p.stdout.readline()
            if not line:
                raise Infra('pmdriver closed the stream')
            resp = json.loads(line)
            out.append(Reject(resp['reject']) if 'reject' in resp else resp['obs'])
        t.join()
        return out

    def close(self):
        try:
            self.p.stdin.close()
            self.p.wait(timeout=5)
        except Exception:
            self.p.kill()


AUDIT_TEMPLATE = '''import Lean
{imports}
open Lean Elab Command in
#eval show CommandElabM Unit from do
  let env ← getEnv
  for modName in [{mods}] do
    let some modIdx := env.getModuleIdx? modName | throwError "no module {{modName}}"
    for (n, ci) in env.constants.map₁.toList do
      if env.getModuleIdxFor? n == some modIdx then
        if let .thmInfo _ := ci then
          if !n.isInternalDetail then
            let axs ← Lean.collectAxioms n
            IO.println s!"THEOREM {{modName}} {{n}} AXIOMS {{axs.toList}}"
'''


def import_closure(modules):
    """Source files of the given modules and of all project-local modules they import."""
    seen, todo = {}, list(modules)
    while todo:
        m = todo.pop()
        if m in seen:
            continue
        f = LEAN / (m.replace('.', '/') + '.lean')
        if not f.exists():
            continue
        seen[m] = f
        for line in f.read_text().splitlines():
            mm = re.match(r'\s*import\s+(\S+)', line)
            if mm and mm.group(1).split('.')[0] in ('PypyrModel', 'Props', 'Generated', 'Driver'):
                todo.append(mm.group(1))
    return [seen[k] for k in sorted(seen)]


def audit(modules):
    """Return (theorems, problems). theorems: list of {module, name, axioms}."""
    problems = []
    # 1. forbidden tokens in the sources of these modules and of every project module they
    #    import, transitively (comments stripped)
    for f in import_closure(modules):
        txt = f.read_text()
        txt = re.sub(r'/-.*?-/', '', txt, flags=re.S)
        for i, line in enumerate(txt.splitlines(), 1):
            line = line.split('--', 1)[0]
            if FORBIDDEN.search(line):
                problems.append(f'forbidden token in {f.relative_to(LEAN)}:{i}: {line.strip()[:120]}')
    # 2. axioms of every theorem
    d = LEAN / '.audit'
    d.mkdir(parents=True, exist_ok=True)
    tag = hashlib.sha1(' '.join(modules).encode()).hexdigest()[:10]
    src = d / f'Audit_{tag}.lean'
    src.write_text(AUDIT_TEMPLATE.format(
        imports='\n'.join(f'import {m}' for m in modules),
        mods=', '.join('`' + m for m in modules)))
    rc, out = sh(['lake', 'env', 'lean', str(src)], cwd=LEAN)
    theorems = []
    for line in out.splitlines():
        m = re.match(r'THEOREM (\S+) (\S+) AXIOMS \[(.*)\]', line)
        if m:
            axs = [a.strip() for a in m.group(3).split(',') if a.strip()]
            theorems.append({'module': m.group(1), 'name': m.group(2), 'axioms': axs})
            bad = [a for a in axs if a not in ALLOWED_AXIOMS]
            if bad:
                problems.append(f'theorem {m.group(2)} depends on axioms {bad}')
    if rc != 0:
        problems.append('audit file does not check: ' + out[-1500:])
    return theorems, problems


# --------------------------------------------------------------------------
# known findings
# --------------------------------------------------------------------------

def load_known(pid):
    f = VERIF / 'known_findings.json'
    if not f.exists():
        return []
    return [k for k in json.loads(f.read_text()) if k['property'] == pid and k.get('status') == 'open']


def matches_known(finding, known):
    """A finding matches a known entry iff every key of entry['match'] equals finding['signature'][key]."""
    sig = finding.get('signature') or {}
    for k in known:
        if all(sig.get(a) == b for a, b in k['match'].items()):
            return k
    return None


# --------------------------------------------------------------------------
# the check runner
# --------------------------------------------------------------------------

class Env:
    def __init__(self, pid, tier, seed):
        self.pid, self.tier, self.seed = pid, tier, seed
        self.rng = random.Random(seed)
        self.quick = tier == 'quick'
        self._driver = None
        self.t0 = time.time()
        self.escalated = False
        self.deadline = None     # wall-clock limit of an escalated failing-input search

    def out_of_time(self):
        return self.deadline is not None and time.time() > self.deadline

    @property
    def driver(self):
        if self._driver is None:
            self._driver = Driver()
        return self._driver

    def n(self, quick, thorough):
        return quick if self.quick else thorough


class Result:
    """What a property module's run() returns."""

    def __init__(self):
        self.evaluations = 0
        self.nontrivial = set()      # canonical keys of distinct non-trivial cases
        self.rule = ''
        self.samples = []
        self.distribution = {}
        self.findings = []           # dicts: kind ('property'|'correspondence'), case, detail, signature
        self.traces_validated = 0
        self.extra = {}

    def count(self, key, by=1):
        self.distribution[key] = self.distribution.get(key, 0) + by

    def case(self, case, nontrivial=True):
        self.evaluations += 1
        if nontrivial:
            self.nontrivial.add(hashlib.sha1(canon(case).encode()).hexdigest())
        if len(self.samples) < 3:
            self.samples.append(case)

    def mismatch(self, case, model, impl, note=''):
        self.findings.append({'kind': 'correspondence', 'case': case, 'model': model, 'impl': impl,
                              'detail': note})

    def violation(self, case, detail, signature=None, impl=None):
        self.findings.append({'kind': 'property', 'case': case, 'detail': detail,
                              'signature': signature or {}, 'impl': impl})


OUT = Path(os.environ.get('VERIF_OUT', str(VERIF))).resolve()   # where evidence/ and replays/ go


def write_replay(pid, seed, tag, payload):
    d = OUT / 'replays'
    d.mkdir(parents=True, exist_ok=True)
    f = d / f'{pid}-{seed}-{tag}.json'
    f.write_text(json.dumps(payload, indent=1, ensure_ascii=True, default=str))
    return f.relative_to(OUT) if OUT == VERIF else f


def run_check(pid, module, tier, seed, replay=None):
    t0 = time.time()
    env = Env(pid, tier, seed)
    trusted = list(getattr(module, 'TRUSTED', []))
    lean_mods = list(getattr(module, 'LEAN_MODULES', [f'Props.{pid}']))
    checker_cmd = ('cd lean && lake build ' + ' '.join(lean_mods) +
                   ' pmdriver && lake env lean .audit/Audit_*.lean  # collectAxioms on every theorem')
    proof_problems = []
    theorems = []
    # 1. extraction: regenerate lean/Generated/*.lean from the source under test
    try:
        from . import extract as _extract
        _extract.generate()
        if hasattr(module, 'extract'):
            module.extract(env)
    except Infra:
        raise
    except Exception as e:  # the source no longer has the shape the extractor reads
        proof_problems.append(f'extractor failed: {type(e).__name__}: {e}')
    # 2. build
    ok, log = lake_build(['pmdriver'])
    if not ok:
        if os.environ.get('VERIF_DEV') and DRIVER_BIN.exists():
            # development only: another area's model is mid-edit; use the last driver that built
            print('warning: pmdriver does not build; VERIF_DEV=1 -> using the existing binary', file=sys.stderr)
        else:
            raise Infra('pmdriver does not build:\n' + log[-4000:])
    ok, log = lake_build(lean_mods)
    if not ok:
        errs = [ln for ln in log.splitlines() if 'error' in ln][:8]
        proof_problems.append('lake build ' + ' '.join(lean_mods) + ' failed: ' + ' | '.join(errs))
    # 3. audit
    if ok:
        theorems, problems = audit(lean_mods)
        proof_problems += problems
        if not theorems:
            proof_problems.append('no theorems found in ' + ' '.join(lean_mods))
    if tier == 'thorough' and ok and not os.environ.get('VERIF_NO_LEANCHECKER'):
        rc, out = sh(['lake', 'env', 'leanchecker', *lean_mods], cwd=LEAN, timeout=3600)
        if rc != 0:
            proof_problems.append('leanchecker rejected: ' + out[-800:])
        checker_cmd += ' && lake env leanchecker ' + ' '.join(lean_mods)
    # 4. correspondence + monitors
    use_repo()
    res = Result()
    try:
        if replay:
            case = json.loads(Path(replay).read_text())
            module.replay(env, res, case)
        else:
            try:
                module.run(env, res)
            except (Infra, KeyboardInterrupt):
                raise
            except BaseException as e:  # noqa
                # an exception that comes out of the tree under test and that the property's harness does not
                # classify is a broken correspondence (the implementation did something the model has no
                # counterpart for), not an infrastructure failure; a crash of the harness itself still is one
                import traceback as _tb
                frames = _tb.extract_tb(e.__traceback__)
                in_repo = [f for f in frames if str(f.filename).startswith(str(REPO))]
                if not in_repo or isinstance(e, (SystemExit, MemoryError)):
                    raise
                last = in_repo[-1]
                res.mismatch({'unclassified': True}, None,
                             {'raised': type(e).__name__, 'msg': str(e)[:300],
                              'at': f'{Path(last.filename).relative_to(REPO)}:{last.lineno} in {last.name}'},
                             f'the implementation raised {type(e).__name__} at '
                             f'{Path(last.filename).relative_to(REPO)}:{last.lineno} and the harness has no '
                             'classification for it (run aborted after '
                             f'{res.evaluations} cases)')
    finally:
        if env._driver:
            env._driver.close()
    # 4b. a proof obligation or the correspondence broke and the quick streams found no input on which the
    #     implementation breaks the property: widen the failing-input search to the thorough streams
    #     (time-boxed) before reporting no-failing-input-found
    escalated = None
    if (not replay and tier == 'quick' and not os.environ.get('VERIF_NO_ESCALATE')
            and (proof_problems or any(f['kind'] == 'correspondence' for f in res.findings))
            and not any(f['kind'] == 'property' for f in res.findings)):
        env2 = Env(pid, 'thorough', seed)
        env2.escalated = True
        env2.deadline = time.time() + float(os.environ.get('VERIF_ESCALATE_S', '420'))
        res2 = Result()
        try:
            module.run(env2, res2)
        except Infra:
            pass
        except Exception as e:  # the search is best effort
            res2.extra['escalation_error'] = f'{type(e).__name__}: {e}'
        finally:
            if env2._driver:
                env2._driver.close()
        escalated = {'evaluations': res2.evaluations, 'rule': res2.rule,
                     'property_findings': sum(1 for f in res2.findings if f['kind'] == 'property')}
        res.findings += [f for f in res2.findings if f['kind'] == 'property']
        res.extra['escalated_search'] = escalated
    # 5. decide
    known = load_known(pid)
    prop_findings = [f for f in res.findings if f['kind'] == 'property']
    corr_findings = [f for f in res.findings if f['kind'] == 'correspondence']
    violations = 0
    printed_known = set()
    new_prop = []
    for f in prop_findings:
        k = matches_known(f, known)
        if k:
            if k['what'] not in printed_known:
                printed_known.add(k['what'])
                print(f"KNOWN-FINDING: property={pid} {k['what']}")
        else:
            new_prop.append(f)
    seen_sig = set()
    for i, f in enumerate(new_prop):
        sig = canon(f.get('signature') or {}) + '|' + str(f.get('detail'))[:80]
        if sig in seen_sig or len(seen_sig) >= 5:
            continue
        seen_sig.add(sig)
        path = write_replay(pid, seed, f'v{len(seen_sig)}', {
            'property': pid, 'tier': tier, 'seed': seed, 'kind': 'property-violation-on-implementation',
            'detail': f['detail'], 'signature': f.get('signature'), 'case': f['case'], 'impl': f.get('impl'),
            'broken_proof_obligations': proof_problems})
        print(f'VIOLATION property={pid} replay={path}')
        violations += 1
    if not new_prop and (proof_problems or corr_findings):
        # the property is no longer shown to hold; search found no failing input
        first = corr_findings[0] if corr_findings else None
        path = write_replay(pid, seed, 'nf', {
            'property': pid, 'tier': tier, 'seed': seed, 'kind': 'no-failing-input-found',
            'no_longer_checks': {
                'proof_obligations': proof_problems,
                'correspondence': (f"model and implementation disagree on {len(corr_findings)} case(s) "
                                   f"of the {pid} correspondence" if corr_findings else None)},
            'first_diverging_case': first,
            'searched': {'evaluations': res.evaluations, 'rule': res.rule, 'escalated': escalated}})
        print(f'VIOLATION property={pid} replay={path} no-failing-input-found')
        violations += 1
    # 6. evidence
    n_thm = len(theorems)
    bad_thm = sum(1 for t in theorems if any(a not in ALLOWED_AXIOMS for a in t['axioms']))
    discharged = 0 if proof_problems and not theorems else n_thm - bad_thm
    axioms_seen = sorted({a for t in theorems for a in t['axioms']})
    ev = {
        'property_id': pid, 'tier': tier, 'seed': seed, 'level': 'proof',
        'coverage': {
            'obligations': max(n_thm, 1), 'discharged': discharged if not proof_problems else min(discharged, max(n_thm - 1, 0)),
            'checker_cmd': checker_cmd,
            'trusted_base': ['Lean 4.33.0 kernel', 'axioms seen: ' + ', '.join(axioms_seen)] + trusted,
            'theorems': [t['name'] for t in theorems],
            'proof_problems': proof_problems,
            'evaluations': res.evaluations,
            'distinct_nontrivial': len(res.nontrivial),
            'rule': res.rule,
            'samples': res.samples[:3],
            'traces_validated_against_impl': res.traces_validated or res.evaluations,
            'distribution': res.distribution,
            'correspondence_mismatches': len(corr_findings),
            'known_findings_seen': sorted(printed_known),
            **res.extra,
        },
        'assumptions': list(getattr(module, 'ASSUMPTIONS', [])),
        'wall_s': round(time.time() - t0, 2),
        'violations': violations,
    }
    (OUT / 'evidence').mkdir(parents=True, exist_ok=True)
    (OUT / 'evidence' / f'{pid}.json').write_text(json.dumps(ev, indent=1, ensure_ascii=True, default=str))
    print(f'{pid} {tier} seed={seed}: theorems={n_thm} discharged={ev["coverage"]["discharged"]} '
          f'cases={res.evaluations} nontrivial={len(res.nontrivial)} mismatches={len(corr_findings)} '
          f'violations={violations} wall={ev["wall_s"]}s')
    return 1 if violations else 0
