"""The probe step of the /verif flow harness (mirrored by `probeStep` in lean/PypyrModel/Flow/Steps.lean).

Reads its raw configuration from context['p'] (given through the step's `in`):
  tag       str
  keys      [str]        context keys to snapshot into the event
  set       {k: v}       raw assignments applied after the event is recorded
  del       [k]          keys removed
  clearAll  bool         context.clear()
  failIf    expr         evaluated with get_formatted_as_type(.., bool); true -> raise ProbeError
  fails     [name|null]  per-execution script (by execution count of this tag): error class to raise
  failRest  name|null    what to do once the script is exhausted
  msg       str          message of the raised error (default 'boom <tag>')
  cause     str          how the error is raised: 'from:<Class>' = `raise err from <Class>('low level')` (explicit
                         __cause__), 'none:<Class>' = inside `except <Class>`: `raise err from None`,
                         'context:<Class>' = inside `except <Class>`: `raise err` (implicit __context__).
                         The error the step raises is `err` in every case (the model has no use for `cause`).
"""
import builtins

TRACE = []
MISSING = object()


class ProbeError(Exception):
    pass


class OtherError(Exception):
    pass


class FalsyError(Exception):
    """an exception object that is falsy (like pypyr.errors.MultiError without sub-errors: it has a length)"""

    def __len__(self):
        return 0


class FalsyBoolError(Exception):
    """an exception object whose truth value is False by __bool__"""

    def __bool__(self):
        return False


class EqAllError(Exception):
    """an exception object that claims to be equal to everything (and is hashable)"""

    def __eq__(self, other):
        return True

    def __hash__(self):
        return 7


def _raise(err, cause):
    """raise `err` the way `cause` says (see the module docstring)"""
    if isinstance(cause, str) and ':' in cause:
        how, _, cname = cause.partition(':')
        low = _cls(cname)('low level')
        if how == 'from':
            raise err from low
        try:
            raise low
        except Exception:
            if how == 'none':
                raise err from None
            raise err
    raise err


def _cls(name):
    if name == 'vprobe.FalsyBoolError':
        return FalsyBoolError
    if name == 'vprobe.EqAllError':
        return EqAllError
    if name == 'vprobe.ProbeError':
        return ProbeError
    if name == 'vprobe.OtherError':
        return OtherError
    if name == 'vprobe.FalsyError':
        return FalsyError
    mod, _, cls = name.rpartition('.')
    if mod:
        # an error class of some other top-level module next to this one (built.py, main.py)
        import importlib
        return getattr(importlib.import_module(mod), cls)
    if not hasattr(builtins, name):
        # a class of module `__main__` / `builtins` declared inside a class or a function (probe/main.py)
        import importlib
        bare = importlib.import_module('main').BARE
        if name in bare:
            return bare[name]
    return getattr(builtins, name)


def run_step(context):
    cfg = dict.get(context, 'p', MISSING)
    if cfg is MISSING:
        context['p']  # raises KeyNotInContextError
    tag = cfg.get('tag', '?')
    cnt_key = '_n_' + tag
    cnt = dict.get(context, cnt_key, 0)
    cnt = (cnt if isinstance(cnt, int) and not isinstance(cnt, bool) and cnt >= 0 else 0) + 1
    context[cnt_key] = cnt
    run_errors = dict.get(context, 'runErrors', None)
    TRACE.append({
        'tag': tag,
        'i': dict.get(context, 'i', MISSING),
        'w': dict.get(context, 'whileCounter', MISSING),
        'r': dict.get(context, 'retryCounter', MISSING),
        'nerr': len(run_errors) if isinstance(run_errors, list) else 0,
        'pipe': context.current_pipeline.name if context.current_pipeline else '',
        'depth': context.get_stack_depth(),
        'keys': [(k, dict.get(context, k, MISSING)) for k in (cfg.get('keys') or [])],
    })
    sets = cfg.get('set')
    if isinstance(sets, dict):
        for k, v in sets.items():
            if isinstance(k, str):
                context[k] = v
    for k in (cfg.get('del') or []):
        context.pop(k, None)
    if cfg.get('clearAll') is True:
        context.clear()
    msg = cfg.get('msg') if isinstance(cfg.get('msg'), str) else 'boom ' + tag
    if 'failIf' in cfg:
        if context.get_formatted_as_type(cfg['failIf'], out_type=bool):
            _raise(ProbeError(msg), cfg.get('cause'))
    script = cfg.get('fails') if isinstance(cfg.get('fails'), list) else []
    scripted = script[cnt - 1] if cnt - 1 < len(script) else cfg.get('failRest')
    if isinstance(scripted, str):
        _raise(_cls(scripted)(msg), cfg.get('cause'))
