"""See built.py: a top-level module called `main` is not `__main__`."""


class MainError(Exception):
    pass
