"""See built.py: a top-level module called `main` is not `__main__`."""


class MainError(Exception):
    pass


class Scripts:
    """error classes whose module is `__main__` / `builtins` (a script run directly; a C-extension style class) and
    that are declared inside a class / a function: the canonical name is the bare class name"""

    class MainNested(Exception):
        pass

    class BuiltinsNested(Exception):
        pass


def _declare():
    class MainLocal(Exception):
        pass
    return MainLocal


Scripts.MainNested.__module__ = '__main__'
Scripts.BuiltinsNested.__module__ = 'builtins'
MainLocal = _declare()
MainLocal.__module__ = '__main__'
# by canonical (bare) name, for the probe step
BARE = {'MainNested': Scripts.MainNested, 'BuiltinsNested': Scripts.BuiltinsNested, 'MainLocal': MainLocal}
