"""A custom step-support module with a short top-level name (harness/probe/vprobe.py raises its error class on
request). pypyr names an error `module.Class` unless the module is exactly `builtins` or `__main__`."""


class BuiltError(Exception):
    pass


class Service:
    """exception classes declared inside a class (the `Model.DoesNotExist` / `Client.Timeout` idiom): the canonical
    error name is still `module.ClassName` = `built.Fatal` / `built.Timeout` (the class's `__name__`)"""

    class Fatal(Exception):
        pass

    class Inner:
        class Timeout(Exception):
            pass


def _declare():
    class Quota(Exception):
        """declared inside a function: `__qualname__` is `_declare.<locals>.Quota`, the canonical name `built.Quota`"""

    class Holder:
        class Deep(Exception):
            pass
    return Quota, Holder.Deep


Fatal = Service.Fatal
Timeout = Service.Inner.Timeout
Quota, Deep = _declare()
