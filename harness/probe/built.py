"""A custom step-support module with a short top-level name (harness/probe/vprobe.py raises its error class on
request). pypyr names an error `module.Class` unless the module is exactly `builtins` or `__main__`."""


class BuiltError(Exception):
    pass
