"""Context parser of the /verif flow harness (mirrored by `runParser "vparser"` in the Lean model)."""


def get_parsed_context(args):
    args = args or []
    if 'FAIL' in args:
        raise ValueError('vparser told to fail')
    return {'parsed': list(args)}
