"""C14, the pyimport SOURCE LANGUAGE: which name an import statement handed to pypyr.steps.pyimport binds to
which object (model: lean/PypyrModel/PyImportSrc.lean, driver op pyns.importBind).

A case is a session on ONE Context: 1..n pyimport steps, each with a source of 1..n statements
(`import a, b.c as d, …`, `from [.…]m import n as x, …`, `from m import *`, statements that import nothing),
over REAL throw-away packages written to a tempfile.mkdtemp() directory that is put on sys.path for the
run (top-level names unique per process; removed from sys.modules / sys.path / disk afterwards).

Implementation side, per step: a fresh `moduleloader.ImportVisitor().get_namespace(source)` (what it returns /
raises), then the real `pypyr.steps.pyimport.run_step` on the session's Context, then `!py` reads through the
real `PyString.get_value`. Observables are identities: every object is named by where it lives
({'mod': dotted} = sys.modules[dotted], {'attr': [dotted, name]} = that attribute of that module).

Monitor (from the property text, no model involved): the oracle for "names imported through pyimport" is plain
Python — `exec(source, g)` in a throw-away dict g, one exec per step on the same g. After a step that plain
Python accepts, EVERY name g holds must be readable via `!py` from the top level, from a comprehension with two
for-clauses and from a lambda, and be the SAME object (`is`); for `import a.b.c` the chain `a.b.c` must be
readable too. The context (keys, identities) must be as before the step apart from nothing: imports stay out.
"""
from __future__ import annotations

import importlib
import os
import shutil
import sys
import tempfile

TOPS = ('P', 'Q', 'H', 'K')      # logical top-level names that exist; 'Z' is a top-level name that does not

# the package layout every generated case uses (a case carries it, so a replay rebuilds exactly this)
LAYOUT = {
    'mods': [['P'], ['P', 's'], ['P', 's', 'd'], ['P', 's', 'e'], ['P', 'm'], ['Q'], ['Q', 's'], ['Q', 't'],
             ['H'], ['K']],
    'pkgs': [['P'], ['P', 's'], ['Q']],
    # [module, attribute name, kind]   kind: obj | func | cls | mod:<logical dotted>
    'attrs': [[['P'], 'X', 'obj'], [['P'], 'f', 'func'], [['P'], 'al', 'mod:H'], [['P', 's'], 'Y', 'obj'],
              [['P', 's'], 'C', 'cls'], [['P', 's', 'd'], 'X', 'obj'], [['Q'], 'X', 'obj'], [['Q', 's'], 'Y', 'obj'],
              [['H'], 'f', 'func'], [['H'], 'X', 'obj'], [['K'], 'Y', 'obj'], [['K'], 'kal', 'mod:P.s']],
}


class Sandbox:
    """The throw-away packages of one layout, on disk and on sys.path."""

    def __init__(self, layout):
        self.layout = layout
        self.dir = tempfile.mkdtemp(prefix='c14imp_')
        self.uid = 'c14i' + os.path.basename(self.dir)[-6:].replace('-', '_').replace('.', '_') + format(os.getpid(), 'x')
        self.uid = ''.join(c if c.isalnum() or c == '_' else '_' for c in self.uid)
        self.real = {t: f'{self.uid}{t}' for t in TOPS + ('Z',)}
        self.logical = {v: k for k, v in self.real.items()}
        pkgs = {tuple(p) for p in layout['pkgs']}
        bodies = {}
        for p in layout['mods']:
            bodies[tuple(p)] = [f"NAME = {'.'.join(p)!r}"]
        for p, name, kind in layout['attrs']:
            b = bodies[tuple(p)]
            tag = '.'.join(p) + ':' + name
            if kind == 'obj':
                b.append(f'{name} = [{tag!r}]')
            elif kind == 'func':
                b.append(f'def {name}(n):\n    return n * 3')
            elif kind == 'cls':
                b.append(f'class {name}:\n    tag = {tag!r}')
            elif kind.startswith('mod:'):
                b.append(f'import {self.dotted(kind[4:].split("."))} as {name}')
            else:
                raise ValueError(kind)
        for p, body in bodies.items():
            parts = [self.real[p[0]]] + list(p[1:])
            if p in pkgs:
                d = os.path.join(self.dir, *parts)
                os.makedirs(d, exist_ok=True)
                f = os.path.join(d, '__init__.py')
            else:
                os.makedirs(os.path.join(self.dir, *parts[:-1]), exist_ok=True)
                f = os.path.join(self.dir, *parts[:-1], parts[-1] + '.py')
            with open(f, 'w') as fh:
                fh.write('\n'.join(body) + '\n')
        sys.path.insert(0, self.dir)
        importlib.invalidate_caches()

    def dotted(self, path):
        """real dotted name of a logical path (top-level component renamed)"""
        return '.'.join([self.real.get(path[0], path[0])] + list(path[1:])) if path else ''

    def ident(self, o):
        """name an object by where it lives (logical names)"""
        for p in self.layout['mods']:
            if sys.modules.get(self.dotted(p)) is o:
                return {'mod': list(p)}
        for p, name, kind in self.layout['attrs'] + [[p, 'NAME', 'obj'] for p in self.layout['mods']]:
            m = sys.modules.get(self.dotted(p))
            if m is not None and getattr(m, name, self) is o:
                return {'attr': [list(p), name]}
        return {'unknown': type(o).__name__}

    def close(self):
        try:
            sys.path.remove(self.dir)
        except ValueError:
            pass
        for k in [k for k in sys.modules if k.startswith(self.uid)]:
            del sys.modules[k]
        importlib.invalidate_caches()
        shutil.rmtree(self.dir, ignore_errors=True)


_boxes = {}


def sandbox(layout):
    key = repr(layout)
    if key not in _boxes:
        _boxes[key] = Sandbox(layout)
    return _boxes[key]


def close_all():
    for b in _boxes.values():
        b.close()
    _boxes.clear()


# --------------------------------------------------------------------------
# rendering
# --------------------------------------------------------------------------

def src_stmt(box, s):
    nm = lambda x: box.real.get(x, x)                                   # noqa: E731
    if 'imp' in s:
        return 'import ' + ', '.join(box.dotted(p) + (f' as {nm(a)}' if a else '') for p, a in s['imp'])
    if 'from' in s:
        level, path, names = s['from']
        return (f"from {'.' * level}{box.dotted(path)} import "
                + ', '.join(n + (f' as {nm(a)}' if a else '') for n, a in names))
    return s['other']


def src_source(box, source):
    return source.get('sep', '\n').join(src_stmt(box, s) for s in source['stmts']) + '\n'


def item_kind(p, a):
    return ('aliased-' if a else '') + ('plain' if len(p) == 1 else 'dotted' if len(p) == 2 else 'dotted-deeper')


def stmt_form(s):
    if 'imp' in s:
        return 'import[' + ','.join(item_kind(p, a) for p, a in s['imp']) + ']'
    if 'from' in s:
        level, path, names = s['from']
        return ('from-relative[' if level else 'from[' if len(path) == 1 else 'from-dotted[') + ','.join(
            'star' if n == '*' else 'aliased' if a else 'name' for n, a in names) + ']'
    return 'other'


def python_binders(source):
    """name -> the statement that binds it last, by the rule of the Python language reference: `import a.b` binds
    a, `import a.b as x` binds x, `from m import n as x` binds x, else n (star: not listed)"""
    out = {}
    for s in source['stmts']:
        if 'imp' in s:
            for p, a in s['imp']:
                out[a or p[0]] = s
        elif 'from' in s:
            for n, a in s['from'][2]:
                if n != '*':
                    out[a or n] = s
    return out


def dotted_chains(source):
    """`import a.b.c` (no asname): the expression a.b.c must be readable afterwards"""
    return [p for s in source['stmts'] if 'imp' in s for p, a in s['imp'] if not a and len(p) > 1]


def payload(case):
    lay = case['layout']
    attrs = []
    for p, name, kind in lay['attrs']:
        attrs.append([p, name, {'mod': kind[4:].split('.')} if kind.startswith('mod:') else {'attr': [p, name]}])
    attrs += [[p, 'NAME', {'attr': [p, 'NAME']}] for p in lay['mods']]
    return {'world': {'mods': lay['mods'], 'attrs': attrs},
            'sources': [[({'other': True} if 'other' in s else s) for s in src['stmts']] for src in case['sources']]}


# --------------------------------------------------------------------------
# implementation side + monitors
# --------------------------------------------------------------------------

def err_kind(e):
    return type(e).__name__


def run_impl(case):
    """-> (steps, findings). steps[i] = {'res': {'ok': [[name, ident]…]} | {'err': cls}, 'globals': [[name, ident]…] | None,
    'step': 'ok' | cls}"""
    from pypyr.context import Context
    from pypyr.dsl import PyString
    from pypyr.moduleloader import ImportVisitor
    import pypyr.steps.pyimport as pyimport_step
    box = sandbox(case['layout'])
    lg = lambda k: box.logical.get(k, k)                                 # noqa: E731
    cargo = [0]
    context = Context({'nums': cargo, 'k1': 'v1'})
    g = {}                       # the plain-Python reading of the session
    steps, findings = [], []

    def items(d):
        return [[lg(k), box.ident(v)] for k, v in d.items()]

    for si, source in enumerate(case['sources']):
        src = src_source(box, source)
        st = {}
        try:
            st['res'] = {'ok': items(ImportVisitor().get_namespace(src))}
        except Exception as e:          # noqa: an import that fails is an observation
            st['res'] = {'err': err_kind(e)}
        # plain Python
        g_before = dict(g)
        try:
            exec(compile(src, '<pyimport source>', 'exec'), g)
            py_ok = True
        except Exception as e:          # noqa
            py_ok = False
            py_err = err_kind(e)
            g.clear()
            g.update(g_before)
        # the real step
        context['pyImport'] = src
        before = [(k, id(v)) for k, v in dict.items(context)]
        try:
            pyimport_step.run_step(context)
            st['step'] = 'ok'
        except Exception as e:          # noqa
            st['step'] = err_kind(e)
        after = [(k, id(v)) for k, v in dict.items(context)]
        gl = getattr(context, '_pystring_globals', None)
        st['globals'] = items(gl) if isinstance(gl, dict) else None
        steps.append(st)
        binders = python_binders(source)
        if after != before:
            findings.append((f'pyimport step {si} ({src!r}) changed the context: keys {[k for k, _ in before]} -> '
                             f'{[k for k, _ in after]}',
                             {'site': 'steps.pyimport', 'effect': 'context-changed'}, {'before': before, 'after': after}))
        if not py_ok:
            # plain Python refuses the source (or fails half-way): nothing to read; the step has to refuse too
            if st['step'] == 'ok':
                forms = sorted({stmt_form(s) for s in source['stmts']})
                star_or_rel = any('star' in f or 'relative' in f for f in forms)
                if not star_or_rel:
                    findings.append((f'pyimport step {si} ({src!r}) succeeded where plain Python raises {py_err}',
                                     {'site': 'moduleloader.ImportVisitor', 'effect': 'accepts-what-python-refuses',
                                      'form': '+'.join(forms)}, {'impl': st, 'python': py_err}))
            continue
        if st['step'] != 'ok':
            forms = sorted({stmt_form(s) for s in source['stmts']})
            if any('star' in f for f in forms):
                # documented: wildcard imports are not supported (raises; nothing is bound)
                g.clear()
                g.update(g_before)
                continue
            findings.append((f'pyimport step {si} ({src!r}) raised {st["step"]}; plain Python imports it',
                             {'site': 'moduleloader.ImportVisitor', 'effect': 'refuses-what-python-imports',
                              'form': '+'.join(forms)}, {'impl': st}))
            g.clear()
            g.update(g_before)
            continue
        # every name plain Python holds now must read as the same object, from every nesting
        done = False
        for name, want in g.items():
            if name == '__builtins__' or dict.__contains__(context, name):
                continue
            last = next((source2 for source2 in reversed(case['sources'][:si + 1]) if lg(name) in python_binders(source2)),
                        None)
            if last is None:
                continue            # not bound by an import statement (`__doc__` of a source with a docstring)
            form = stmt_form(python_binders(last)[lg(name)])
            for how, expr in (('top', name), ('comprehension', f'[{name} for _a in nums for _b in (0,)][0]'),
                              ('lambda', f'(lambda: {name})()')):
                try:
                    got = PyString(expr).get_value(context)
                except Exception as e:  # noqa
                    findings.append((
                        f'after pyimport of {src!r} (step {si}): !py {expr!r} raises {err_kind(e)}: {e}; plain Python '
                        f'binds {lg(name)} to {box.ident(want)}',
                        {'site': 'moduleloader.ImportVisitor', 'form': form, 'effect': 'imported-name-not-readable'},
                        {'impl': {'err': err_kind(e)}, 'expected': box.ident(want)}))
                    done = True
                    break
                if got is not want:
                    findings.append((
                        f'after pyimport of {src!r} (step {si}): !py {expr!r} is {box.ident(got)}; plain Python binds '
                        f'{lg(name)} to {box.ident(want)}',
                        {'site': 'moduleloader.ImportVisitor', 'form': form, 'effect': 'imported-name-is-another-object'},
                        {'impl': box.ident(got), 'expected': box.ident(want)}))
                    done = True
                    break
            if done:
                break
        if done:
            continue
        for p in dotted_chains(source):
            expr = box.dotted(p)
            if dict.__contains__(context, expr.split('.')[0]):
                continue
            try:
                want = eval(expr, g)
            except Exception:           # noqa: a later item of the source rebound the head; not judged
                continue
            try:
                got = PyString(f'(lambda: {expr})()').get_value(context)
            except Exception as e:      # noqa
                got = e
            if got is not want:
                findings.append((
                    f'after pyimport of {src!r} (step {si}): !py {expr!r} gives '
                    f'{err_kind(got) if isinstance(got, Exception) else box.ident(got)}; plain Python: {box.ident(want)}',
                    {'site': 'moduleloader.ImportVisitor', 'form': 'import-chain', 'effect': 'dotted-chain-not-readable'},
                    {'expected': box.ident(want)}))
                break
    findings = [(d.replace(box.uid, ''), sig, obs) for d, sig, obs in findings]
    return steps, findings


def compare(msteps, isteps):
    """model answer vs implementation: -> None | (model view, impl view)"""
    mv, iv = [], []
    for m, i in zip(msteps, isteps):
        mv.append({'res': m['res'], 'globals': m['globals'], 'step': 'ok' if 'ok' in m['res'] else m['res']['err']})
        iv.append({'res': i['res'], 'globals': i['globals'] if i['globals'] is not None else m['globals'], 'step': i['step']})
    return None if mv == iv and len(msteps) == len(isteps) else (mv, iv)


# --------------------------------------------------------------------------
# generators
# --------------------------------------------------------------------------

ITEM_POOL = {
    'plain': [['H'], ['K'], ['P'], ['Q']],
    'dotted': [['P', 's'], ['Q', 's'], ['P', 'm'], ['Q', 't']],
    'dotted-deeper': [['P', 's', 'd'], ['P', 's', 'e']],
}
KINDS = ('plain', 'dotted', 'dotted-deeper', 'aliased-plain', 'aliased-dotted', 'aliased-dotted-deeper')
ALIASES = ('x', 'y', 'z', 'P', 'H', 'nums', 'len')
MISSING = [['Z'], ['P', 'zz'], ['H', 'f'], ['P', 'X'], ['P', 'al'], ['P', 's', 'zz'], ['Z', 's']]
FROMS = [   # (module, names that exist there: attribute or sub-module)
    (['P'], ['X', 'f', 'al', 's', 'm']), (['P', 's'], ['Y', 'C', 'd', 'e']), (['P', 's', 'd'], ['X', 'NAME']),
    (['Q'], ['X', 's', 't']), (['H'], ['f', 'X', 'NAME']), (['K'], ['Y', 'kal'])]
OTHERS = ('pass', '"""imports for the pipeline"""', '0', '# only a comment')


def mk_item(kind, choice, alias):
    base = kind.replace('aliased-', '')
    pool = ITEM_POOL[base]
    return [list(pool[choice % len(pool)]), alias if kind.startswith('aliased-') else None]


def case_of(sources, family):
    return {'kind': 'import-src', 'family': family, 'layout': LAYOUT,
            'sources': [s if isinstance(s, dict) else {'stmts': s} for s in sources]}


def directed():
    out = []
    imp = lambda *items: {'imp': [list(i) for i in items]}              # noqa: E731
    frm = lambda lvl, mod, *names: {'from': [lvl, mod, [list(n) for n in names]]}   # noqa: E731
    # every single-item form x every module of that shape
    for kind in KINDS:
        base = kind.replace('aliased-', '')
        for c in range(len(ITEM_POOL[base])):
            out.append(case_of([[imp(mk_item(kind, c, 'x'))]], 'single'))
    for p in MISSING:
        out.append(case_of([[imp([p, None])]], 'missing'))
        out.append(case_of([[imp([p, 'x'])]], 'missing'))
        out.append(case_of([[imp([['K'], None], [p, None], [['H'], None])]], 'missing'))
    # every ordered pair of item shapes in ONE statement: same package twice / two packages
    for k1 in KINDS:
        for k2 in KINDS:
            for c1, c2 in ((0, 0), (0, 1), (1, 0)):
                out.append(case_of([[imp(mk_item(k1, c1, 'x'), mk_item(k2, c2, 'y'))]], 'pair'))
            out.append(case_of([[imp(mk_item(k1, 0, 'x'), mk_item(k2, 1, 'x'))]], 'pair-same-alias'))
    # every ordered triple
    for i1, k1 in enumerate(KINDS):
        for i2, k2 in enumerate(KINDS):
            for i3, k3 in enumerate(KINDS):
                out.append(case_of([[imp(mk_item(k1, i2, 'x'), mk_item(k2, i3 + 1, 'y'), mk_item(k3, i1 + 2, 'z'))]],
                                   'triple'))
    # aliases that are names of other modules / context keys / builtins
    for a in ('P', 'H', 'K', 'nums', 'len'):
        out.append(case_of([[imp([['P', 's'], a], [['K'], None])]], 'alias-collision'))
        out.append(case_of([[imp([['K'], None], [['Q', 's'], a])], [imp([['H'], None], [['P'], None])]], 'alias-collision'))
    # from-forms
    for mod, names in FROMS:
        for n in names:
            out.append(case_of([[frm(0, mod, [n, None])]], 'from'))
            out.append(case_of([[frm(0, mod, [n, 'x'])]], 'from'))
        for i in range(len(names)):
            for j in range(len(names)):
                if i != j:
                    out.append(case_of([[frm(0, mod, [names[i], None], [names[j], 'y'])]], 'from-pair'))
                    out.append(case_of([[frm(0, mod, [names[i], 'x'], [names[j], None])]], 'from-pair'))
        out.append(case_of([[frm(0, mod, *[[n, None] for n in names])]], 'from-all'))
        out.append(case_of([[frm(0, mod, [names[0], None], ['zz', None])]], 'from-missing'))
        out.append(case_of([[frm(0, mod, ['*', None])]], 'from-star'))
    out.append(case_of([[frm(0, ['Z'], ['x', None])]], 'from-missing'))
    out.append(case_of([[frm(0, ['P', 'zz'], ['x', None])]], 'from-missing'))
    out.append(case_of([[frm(0, ['P', 'X'], ['x', None])]], 'from-missing'))
    for lvl, mod in ((1, []), (2, []), (1, ['P']), (1, ['P', 's']), (3, ['H'])):
        out.append(case_of([[frm(lvl, mod, ['X', None])]], 'from-relative'))
        out.append(case_of([[imp([['H'], None]), frm(lvl, mod, ['s', 'x'])]], 'from-relative'))
    # several statements per source: separators, statements that import nothing, later statement overrides
    singles = [imp([['P', 's'], None]), imp([['H'], 'x']), imp([['P', 's', 'd'], 'x']), imp([['K'], None], [['Q', 't'], None]),
               frm(0, ['P'], ['X', 'x'], ['s', None]), frm(0, ['P', 's'], ['d', 'P']), imp([['Q'], 'P']),
               frm(0, ['H'], ['f', 'K'])]
    for i, s1 in enumerate(singles):
        for j, s2 in enumerate(singles):
            out.append(case_of([{'stmts': [s1, s2], 'sep': ('\n', '; ', '\n\n')[(i + j) % 3]}], 'two-statements'))
    for i, s1 in enumerate(singles):
        out.append(case_of([{'stmts': [{'other': OTHERS[i % 4]}, s1, {'other': OTHERS[(i + 1) % 4]},
                                       singles[(i + 3) % len(singles)]]}], 'with-other-statements'))
    # several pyimport steps on one Context: later binding overrides, a failing step changes nothing
    for i, s1 in enumerate(singles):
        s2 = singles[(i + 1) % len(singles)]
        s3 = singles[(i + 4) % len(singles)]
        out.append(case_of([[s1], [s2], [s3]], 'steps'))
        out.append(case_of([[s1], [imp([['K'], None], [['Z'], None])], [s2]], 'steps-failing-middle'))
        out.append(case_of([[s1, s2], [frm(1, [], ['x', None])], [s1]], 'steps-failing-middle'))
    return out


def random_case(rng):
    def item():
        if rng.random() < 0.06:
            return [list(rng.choice(MISSING)), rng.choice([None, 'x'])]
        return mk_item(rng.choice(KINDS), rng.randrange(8), rng.choice(ALIASES))

    def stmt():
        r = rng.random()
        if r < 0.55:
            return {'imp': [item() for _ in range(rng.choice((1, 1, 2, 2, 2, 3, 3, 4)))]}
        if r < 0.9:
            mod, names = rng.choice(FROMS)
            lvl = 1 if rng.random() < 0.04 else 0
            ns = []
            for _ in range(rng.choice((1, 1, 2, 3))):
                n = rng.choice(names) if rng.random() < 0.95 else rng.choice(('zz', '*'))
                ns.append([n, rng.choice(ALIASES) if n != '*' and rng.random() < 0.4 else None])
            if any(n == '*' for n, _ in ns):
                ns = [['*', None]]
            return {'from': [lvl, list(mod), ns]}
        return {'other': rng.choice(OTHERS)}

    sources = []
    for _ in range(rng.choice((1, 1, 2, 3))):
        stmts = [stmt() for _ in range(rng.choice((1, 1, 2, 3, 4)))]
        if all('other' in s and s['other'].startswith('#') for s in stmts):
            stmts.append({'other': 'pass'})
        sep = rng.choice(('\n', '\n', '; '))
        if sep == '; ' and any('other' in s and s['other'].startswith('#') for s in stmts):
            sep = '\n'
        sources.append({'stmts': stmts, 'sep': sep})
    return case_of(sources, 'random')
