#!/usr/bin/env python3
"""tools/seed.py <PID> <k> [--tier quick|thorough] [--no-suite]

Confirm a seeded change produced by an independent sub-agent (/tmp/mut/<PID>/MUTANT<k>) in a fresh scratch
worktree of /repo, run ./check <PID> against it, and store it as /verif/seeded/<PID>-<k>/ (patch.diff, demo.py,
meta.json with what was run and what the check said). Nothing is applied to /repo itself.
"""
import json
import os
import shutil
import subprocess
import sys
import tempfile
from pathlib import Path

V = Path(__file__).resolve().parent.parent
DESELECT = ['--deselect', 'tests/unit/pypyr/steps/debug_test.py::test_complex_object',
            '--deselect', 'tests/unit/pypyr/steps/debug_test.py::test_pformat_called_when_logging_is_enabled']


def sh(cmd, cwd=None, env=None, timeout=3600):
    p = subprocess.run(cmd, cwd=cwd, env=env, stdout=subprocess.PIPE, stderr=subprocess.STDOUT, text=True,
                       timeout=timeout)
    return p.returncode, p.stdout


def main():
    pid, k = sys.argv[1], sys.argv[2]
    tier = 'quick'
    if '--tier' in sys.argv:
        tier = sys.argv[sys.argv.index('--tier') + 1]
    src = Path(sys.argv[sys.argv.index('--from') + 1]) if '--from' in sys.argv else Path(f'/tmp/mut/{pid}/MUTANT{k}')
    wt = tempfile.mkdtemp(prefix='seedwt.')
    os.rmdir(wt)
    ran = []
    rc, out = sh(['git', '-C', '/repo', 'worktree', 'add', '-q', wt, 'HEAD'])
    assert rc == 0, out
    try:
        shutil.copytree(src, Path(wt) / 'MUT')
        env = dict(os.environ, PYTHONDONTWRITEBYTECODE='1')
        # demo on the clean tree
        rc0, o0 = sh(['/venv/bin/python', 'MUT/demo.py'], cwd=wt, env=env, timeout=600)
        ran.append(f'clean HEAD: demo exit {rc0}')
        rc, out = sh(['git', 'apply', 'MUT/patch.diff'], cwd=wt)
        if rc != 0:
            print('PATCH DOES NOT APPLY', out)
            return 2
        rc1, o1 = sh(['/venv/bin/python', 'MUT/demo.py'], cwd=wt, env=env, timeout=600)
        ran.append(f'patched: demo exit {rc1}')
        where = [ln for ln in o1.splitlines() if 'pypyr/__init__' in ln or 'pypyr.__file__' in ln][:1]
        suite = 'skipped'
        if '--no-suite' not in sys.argv:
            rcs, os_ = sh(['/venv/bin/python', '-m', 'pytest', '-q', '-p', 'no:cacheprovider', '-n', '6', *DESELECT],
                          cwd=wt, env=env, timeout=1800)
            suite = os_.strip().splitlines()[-1] if os_.strip() else ''
            ran.append(f'patched: suite (2 env-broken debug tests deselected): {suite}')
            if rcs != 0:
                print('SUITE FAILS WITH PATCH:', suite)
        ok = rc0 == 0 and rc1 != 0
        print(f'{pid}-{k}: demo clean={rc0} patched={rc1} suite={suite} {where}')
        if not ok:
            print('NOT CONFIRMED'); print(o0[-1500:]); print(o1[-1500:])
            return 2
        # run the check against the patched worktree
        outd = tempfile.mkdtemp(prefix='seedout.')
        e2 = dict(os.environ, PYPYR_REPO=wt, VERIF_OUT=outd, VERIF_DEV='1')
        # a private copy of /verif: the check regenerates lean/Generated from the tree under test
        vcopy = tempfile.mkdtemp(prefix='seedverif.', dir='/var/tmp')
        sh(['rsync', '-a', '--exclude', '.git', '--exclude', 'seeded', '--exclude', 'replays', str(V) + '/', vcopy + '/'])
        try:
            rcc, oc = sh(['./check', pid, '--tier', tier], cwd=vcopy, env=e2, timeout=7200)
        finally:
            shutil.rmtree(vcopy, ignore_errors=True)
        lines = [ln for ln in oc.splitlines() if ln.startswith(('VIOLATION', 'KNOWN-FINDING', pid + ' ')) or 'INFRA' in ln]
        print('\n'.join(ln[:300] for ln in lines))
        replays = []
        for f in sorted(Path(outd, 'replays').glob('*.json')) if Path(outd, 'replays').exists() else []:
            d = json.loads(f.read_text())
            r = {kk: d.get(kk) for kk in ('kind', 'detail', 'signature', 'no_longer_checks') if d.get(kk)}
            replays.append(r)
            print('  replay:', json.dumps(r)[:900])
        ran.append(f'PYPYR_REPO=<worktree with patch> ./check {pid} --tier {tier}: exit {rcc}; ' + ' | '.join(lines)[:600])
        shutil.rmtree(outd, ignore_errors=True)
        dst = V / 'seeded' / f'{pid}-{k}'
        dst.mkdir(parents=True, exist_ok=True)
        if src.resolve() != dst.resolve():
            shutil.copy(src / 'patch.diff', dst / 'patch.diff')
            shutil.copy(src / 'demo.py', dst / 'demo.py')
        meta = {}
        try:
            meta = json.loads((src / 'meta.json').read_text())
            for kk in ('rebased',):
                pass
        except Exception:
            pass
        caught = 'concrete-input' if (rcc == 1 and any('no-failing-input-found' not in ln for ln in lines if ln.startswith('VIOLATION'))) \
            else ('no-failing-input-found' if rcc == 1 else 'MISSED' if rcc == 0 else f'exit {rcc}')
        m = {'property': pid, 'summary': meta.get('summary'), 'needs_to_manifest': meta.get('needs_to_manifest'),
             'clause_broken': meta.get('clause_broken'), 'author': 'independent sub-agent given only the property text and a scratch worktree',
             'rebased': meta.get('rebased'),
             'confirmed_by_me': ran, f'check_{tier}': {'exit': rcc, 'caught': caught, 'replays': replays[:3]}}
        old = dst / 'meta.json'
        if old.exists():
            try:
                prev = json.loads(old.read_text())
                for kk, vv in prev.items():
                    if kk.startswith('check_') and kk not in m:
                        m[kk] = vv
                if 'history' in prev:
                    m['history'] = prev['history']
                if 'first_verdict' in prev:
                    m['first_verdict'] = prev['first_verdict']
                if 'also_caught_by' in prev:
                    m['also_caught_by'] = prev['also_caught_by']
            except Exception:
                pass
        m.setdefault('first_verdict', caught)
        old.write_text(json.dumps(m, indent=1) + '\n')
        print(f'==> {pid}-{k}: {caught}')
        return 0
    finally:
        sh(['git', '-C', '/repo', 'worktree', 'remove', '--force', wt])


if __name__ == '__main__':
    sys.exit(main())
