#!/usr/bin/env python3
"""Re-insert the as-built sections (tools/design/11.md, 12.md and the generated section 13) into DESIGN.md,
between the AS-BUILT markers (placed before Appendix A)."""
import subprocess
from pathlib import Path
V = Path(__file__).resolve().parent.parent
B, E = '<!-- AS-BUILT BEGIN -->', '<!-- AS-BUILT END -->'
d = (V / 'DESIGN.md').read_text()
matrix = subprocess.run(['python3', str(V / 'tools/catchmatrix.py')], capture_output=True, text=True).stdout
s13 = (V / 'tools/design/13.md').read_text().replace('@@MATRIX@@', matrix)
body = '\n'.join([(V / 'tools/design/11.md').read_text(), '-' * 75 + '\n', (V / 'tools/design/12.md').read_text(),
                  '-' * 75 + '\n', s13])
if B in d:
    d = d[:d.index(B)] + B + '\n\n' + body + '\n' + d[d.index(E):]
else:
    a = d.index('## Appendix A')
    d = d[:a] + B + '\n\n' + body + '\n' + E + '\n\n' + '-' * 75 + '\n\n' + d[a:]
(V / 'DESIGN.md').write_text(d)
print('DESIGN.md updated')
