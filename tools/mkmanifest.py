#!/usr/bin/env python3
"""Regenerate MANIFEST.json from the table below. Usage: tools/mkmanifest.py C02 C04 ...  (ids to claim)"""
import json
import sys
from pathlib import Path

V = Path(__file__).resolve().parent.parent
props = [json.loads(l) for l in (V / 'properties.jsonl').read_text().splitlines() if l.strip()]

INFO = {
 'C01': ('Theorems over the flow interpreter model: effective-groups rule, run_step_groups characterised as the case split the property describes (main phase, success only after all ok, failure handler once, original error object returned, handler errors dropped, only Stop of the handler gives a quiet end), first non-ok ends a group/group list, root outcome. Tie: model vs real pypyr on directed straight-line pipelines with an independent oracle + random pipelines.', '4 C01'),
 'C02': ('Theorems for every decorator stack, body, called groups, program, state and fuel: an instruction passes retry/swallow/foreach/while/invoke unchanged with the state of that moment (never retried, never swallowed, never recorded); every instruction a step returns originates in its body or called groups (origin theorem); stopstepgroup ends only its group, stoppipeline only its pipeline (also from a parser-failure handler), stop reaches the root, root reports success. Tie: signal kind x position x decorator subsets directed family with expectations from the property text + random pipelines, model vs real pypyr.', '4 C02'),
 'C03': ('Theorems: counters and call/switch config restored after call for EVERY callee and every result; call resumes with the next step; jump abandons the rest of the group and runs the targets; switch takes the first true case or trailing default. Tie: clobber/switch/jump directed families + random call graphs, model vs real pypyr.', '4 C03'),
 'C04': ('Theorems: truth rule closed form, body runs iff run and not skip at each iteration, swallow decided after the body, in-arguments visible/overriding/removed on normal completion for every body and loop combination. Tie: truth table over all value kinds x forms, per-iteration directed family, random pipelines.', '4 C04'),
 'C05': ('Theorems: foreach once per item in order with first non-ok ending it, while counter sequence / count / sleeps / exhaustion closed forms for all max, nesting equation while>foreach>conditional>retry>invoke, unswallowed error ends all loops. Tie: loop-product directed family with closed-form expectations + random pipelines.', '4 C05'),
 'C06': ('Theorems: retry attempt characterisation and closed forms (attempts, counters, n-1 sleeps, last error object), filters decision table, fixed-list closed form by induction on the deque, linear/exponential/cap, jitter bounds. Tie: exact-arithmetic comparison of the real back-off classes with the rational model + retry directed family with scripted failures + random pipelines.', '4 C06'),
 'C07': ('Theorems: save_error entry contents, exactly one entry per unhandled error at the conditional layer, none for handled/ok/signals, retry records nothing, append-only through the layers. Tie: directed families (swallowed loops, retries, called groups depth 1-3 under swallow/retry, failing handlers) with expected entries + random pipelines + invariants on every runErrors seen.', '4 C07'),
 'C08': ('Theorems over the faithful formatter model (parser, field lookup, conversions, specs, rf/ff, special tags): single expression keeps type, mixed is flat str, rf/ff, escapes, sic/py/jsonify, missing key is an error. Tie: grammar + malformed streams, model vs Context.get_formatted_value and str.format_map.', '4 C08'),
 'C09': ('Theorems: container kinds/shape preserved, non-string leaves unchanged, brace-free identity and idempotence; heap-level model: existing cells never written, leaves by reference. Tie: nested values incl. ruamel maps, id()-graph and deep snapshots vs model.', '4 C09'),
 'C10': ('Theorems by induction on the incoming tree: merge frame condition, per-kind merge table, lists extend with existing members first, defaults never overwrite (even None) and add exactly the missing. Tie: kind x kind directed table + random trees vs real Context.merge/set_defaults and the steps.', '4 C10'),
 'C11': ('Theorems: pype argument defaults table, own-context isolation (only out keys change) for every child behaviour, result table (error/raiseError, Stop passes, StopPipeline ends only the child), pipeline stack balanced after every run-function (global fuel induction). Tie: parent/child/grandchild directed family over all endings x modes + random pipelines.', '4 C11'),
 'C12': ('', '4 C12'),
 'C13': ('Theorems for all schedules and any number of threads: mutual exclusion, single-flight, same object, failure not cached, clear refreshes, no_cache transparent, pipeline key injective (+ pre-fix collision witness), sys.path once. Tie: real cache classes driven by real threads under a deterministic scheduler following model schedules.', '4 C13'),
 'C14': ('Theorems by induction on a binding-only mini-language: context read everywhere, eval frame (+ pre-fix walrus leak witness), exec frame = old + saved, imports beside context, in-place mutation visible. Tie: rendered programs through the real PyString/py/pyimport with provenance markers.', '4 C14'),
 'C15': ('Theorems for every chunk count and fault point/kind: source always whole, raise leaves no temp (+ pre-fix leak witness), success keeps entries, kill leaves source whole, unmatched untouched. Tie: real rewriters with faults injected at every modelled point incl. process kill.', '4 C15'),
 'C16': ('Theorems: fmtDoc maps every string node (keys too) and nothing else; write/fetch round-trip and fileformat document spec under an explicit codec hypothesis (RoundTrips d); JSON printer/parser pair modelled and exercised, its general round-trip theorem pending. Tie: generated payloads through the real filewrite/fetch/fileformat steps; YAML/TOML codecs validated by generation only.', '4 C16'),
 'C17': ('Theorems for all command lists, exit codes and completion permutations: serial ok iff all zero, started = prefix to first non-zero, cmdOut per started command in order, async all started, sub-list prefix, results order-independent, aggregate error lists all failures. Tie: real subprocesses released in chosen completion orders.', '4 C17'),
 'C18': ('Theorems: exit-code spec, argv pass-through, parser algebra for all argument lists (kvpairs first-= split and last duplicate wins, list order, string join, keys true, json as is), parse-input table. Tie: real parsers/get_args in-process + python -m pypyr subprocesses by way of termination.', '4 C18'),
 'C19': ('Theorems: first existing candidate in the documented order for every existence predicate, absolute only, not-found lists searched, child-parent default table, sys.path has the pipeline dir. Tie: real directory layouts over all subsets x name forms x pype depth.', '4 C19'),
 'C20': ('Theorems by induction over the file list: init order, scalar highest wins, dict union with precedence, unknown rejected atomically, non-mapping rejected (+ pre-fix witness), skip-init. Tie: fresh subprocess per configuration over all location subsets and env vars.', '4 C20'),
}

claimed = [a.upper() for a in sys.argv[1:]]
checks = []
for p in props:
    pid = p['id']
    if pid not in claimed:
        continue
    text, ref = INFO[pid]
    checks.append({
        'property_id': pid,
        'quick_cmd': f'./check {pid} --tier quick',
        'thorough_cmd': f'./check {pid} --tier thorough',
        'evidence_file': f'evidence/{pid}.json',
        'replay_cmd_template': f'./check {pid} --replay {{path}}',
        'engine': 'lean-model+correspondence',
        'level_claimed': {'category': 'proof', 'text': text, 'design_ref': 'DESIGN.md section ' + ref},
        'level_note': ('Trusted: Lean 4.33 kernel (axioms per theorem audited on every run: subset of propext, '
                       'Classical.choice, Quot.sound; no sorry/native_decide); the hand-written model is tied to the '
                       'code by the correspondence harness only (generators, canonicaliser, probes - listed in the '
                       'evidence file); CPython and third-party libraries are modelled, not verified. See DESIGN.md section 7.'),
        'technique': 'Lean 4 theorems over an executable model + differential correspondence model vs implementation',
    })
na = [{'property_id': p['id'],
       'reason': 'not claimed yet: model/proofs/correspondence under construction (DESIGN.md build order); no other technique substituted'}
      for p in props if p['id'] not in claimed]
m = {
 'version': 1,
 'setup_cmd': 'cd lean && (lake build || lake build pmdriver)',
 'hooks': {'guard': 'PYPYR_VERIF',
           'enable': 'no source hooks: the harness instruments the implementation from outside (monkeypatching in the harness process); PYPYR_VERIF is reserved and unused',
           'baseline_off_cmd': 'cd /repo && /venv/bin/python -m pytest -ra -q -p no:cacheprovider --timeout=900 --continue-on-collection-errors',
           'source_commits': [], 'add_only': True},
 'engines': [{'name': 'lean-model+correspondence', 'path': 'check', 'serves_properties': claimed,
              'kind_free_text': 'Lean 4 theorems over hand-written executable models (lean/PypyrModel, lean/Props) + differential correspondence harness (harness/) driving model (pmdriver) and implementation on the same inputs'}],
 'checks': checks,
 'notes': 'Technique family: machine-checked proof in Lean 4. See DESIGN.md. Genuine defects F1-F8 repaired as fix: commits in /repo; see known_findings.json.',
 'not_applicable': na,
}
(V / 'MANIFEST.json').write_text(json.dumps(m, indent=1) + '\n')
print('claimed', claimed)
