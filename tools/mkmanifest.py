#!/usr/bin/env python3
"""Regenerate MANIFEST.json from the table below. Usage: tools/mkmanifest.py C02 C04 ...  (ids to claim)"""
import json
import sys
from pathlib import Path

V = Path(__file__).resolve().parent.parent
props = [json.loads(l) for l in (V / 'properties.jsonl').read_text().splitlines() if l.strip()]

INFO = {
 'C01': ('Theorems over the flow interpreter model (all programs, states, fuel): defaulting rule, declaration order, first non-ok ends a list and where it came from, success only after all ok, run_step_groups characterised case by case (failure handler once, original error object returned, handler errors dropped incl. malformed handler groups, only a Stop of the handler gives a quiet end), root outcome. Static tie: semantic routing agreement of the extracted except ladders. Dynamic tie: straight-line and malformed-group families with expectations from the property text + random pipelines, model vs real pypyr; every third case is the second run of one Pipeline object.', '4 C01'),
 'C02': ('Theorems for every decorator stack, body, called groups, program, state and fuel: an instruction passes retry/swallow/foreach/while/invoke unchanged (never retried, swallowed or recorded), origin theorem (every instruction a step returns comes from its body or called groups), stopstepgroup ends only its group, stoppipeline only its pipeline (also from a parser-failure handler), stop reaches the root, root reports success. Static tie: routing agreement. Dynamic tie: signal kind x position (11 positions incl. parser-failure handler of a child and own-context child with out) x decorator subsets (11.8k directed) + random pipelines.', '4 C02'),
 'C03': ('Theorems: counters and call/switch config restored after a call for an ARBITRARY callee and every way it ends (side condition discharged for the real call/switch steps, instantiated with the real runGroups closure), call resumes, call under foreach for all n, jump abandons the rest and runs the targets, switch first-true/default/no-match + converses + error table. Tie: restore family over falsy foreach items x clobber modes x decorators x depth, mid-loop, switch and jump families + random call graphs.', '4 C03'),
 'C04': ('Theorems: truth rule closed form, body runs iff run and not skip at each iteration (foreach and while), swallow decided after the body, in-arguments visible/overriding/removed on normal completion for every body and loop combination, description only words the notification. Static tie: cast_to_bool TRANSLATED from the source and proved equal to the model. Dynamic tie: truth table over all value kinds x forms, per-iteration families incl. described steps, random pipelines.', '4 C04'),
 'C05': ('Theorems: foreach once per item in order with i bound, iterable evaluated once per loop entry, first non-ok ends it; while counter sequence / count / post-exec stop / sleeps between iterations / exhaustion closed forms for all max; nesting equation while>foreach>conditional>retry>invoke; unswallowed error ends all loops. Tie: loop-product and literal-items families with closed-form expectations + random pipelines.', '4 C05'),
 'C06': ('Theorems: retry attempt characterisation and closed forms (attempts, counters, n-1 sleeps, last error object), filters decision table, fixed-list closed form by induction on the deque, linear/exponential/cap, jitter bounds. Static tie: all six strategy classes, min, randomize and builtin_backoffs TRANSLATED from pypyr/retries.py and proved equal to the model. Dynamic tie: exact-arithmetic comparison of the real classes with the rational model, scripted-failure and retry re-entry families, random pipelines.', '4 C06'),
 'C07': ('Theorems: save_error entry contents incl. 0-based to 1-based line/col, exactly one entry per unhandled error at the conditional layer, none for handled/ok/signals, retry and loops record nothing, called errors not recorded again, append-only through every layer and for whole runs (fuel induction). Static tie: get_error_name TRANSLATED. Dynamic tie: 33 base cases x 13 yaml layouts with expected entries + random pipelines + invariants on every runErrors seen.', '4 C07'),
 'C08': ("Theorems over the faithful formatter model (CPython's format-string parser incl. malformed input, field lookup, conversions, specs, rf/ff, special tags): single expression keeps type, mixed is flat str, rf/ff, escapes, sic/py/jsonify, missing key is an error, refinement to a short spec; session theorems (a := stays inside its evaluation, earlier calls do not matter). Tie: grammar + malformed streams vs Context.get_formatted_value and str.format_map; sessions of several calls on one Context judged against plain Python eval.", '4 C08'),
 'C09': ('Theorems: container kinds/shape preserved, non-string leaves unchanged, brace-free identity and idempotence; heap-level model: existing cells never written, leaves by reference, sharing through the memo. Tie: nested values incl. ruamel maps, position-wise identity monitor, deep snapshots with key order and identities, equal-but-distinct hashable siblings, implementation-only !py stream. One open known finding (containers whose constructor does not take one iterable).', '4 C09'),
 'C10': ('Theorems by induction on the incoming tree: merge frame condition, per-kind merge table, lists extend with existing members first, defaults never overwrite (even None) and add only missing paths, the steps equal the Context methods. Tie: kind x kind table + random trees vs real Context.merge/set_defaults and the steps. Three open known findings (aliasing).', '4 C10'),
 'C11': ('Theorems: pype argument defaults table, own-context isolation for an arbitrary child (frame for every key not in out, exact context on every outcome), shared context, result table (error/raiseError, Stop passes, StopPipeline never leaves a pipeline), child error after its failure handler, pipeline stack balanced after every run-function (global fuel induction), parent is current again. Tie: parent/child/grandchild family over all endings x modes + random pipelines.', '4 C11'),
 'C12': ("Theorems over the heap model (regions definition/config/run): separation invariant preserved by every operation of the code as it is and any schedule, definitions/config arenas unchanged (deep-equal to the loader's), every op-granular interleaving gives each run its solo result, re-run after any history equals the first run; pre-fix counter-examples. Tie: id()-reachability of shared objects from the context after every real step vs the model, history monitor, order-independence stream, real threads parked at probe steps. Partial: sub-step interleavings not modelled.", '4 C12'),
 'C13': ('Theorems for all schedules and any number of threads: mutual exclusion, refinement to the atomic get-or-create spec, single-flight, same object, failure not cached, clear refreshes, no_cache transparent, pipeline key injective (+ pre-fix collision witness), sys.path once. Tie: real cache classes driven by real threads under a deterministic scheduler following model schedules. Partial: atomicity of dict operations and of the lock assumed.', '4 C13'),
 'C14': ("Theorems over a binding-only model of eval/exec namespaces: the whole state except the heap survives an evaluation, one namespace in every scope (own bindings, context, imports, builtins), a := shadows everywhere and never reaches context, exec frame = old + explicitly saved, imports beside context, rehydration invisible, in-place mutation visible; pre-fix witnesses. Tie: rendered sessions through the real PyString/py/pyimport with provenance markers, M1-M6 monitors. Partial: CPython's scoping rules are validated by the correspondence only.", '4 C14'),
 'C15': ("Theorems for every chunk count and fault point/kind: source always whole, raise leaves no temp (+ pre-fix leak witness), success keeps entries, kill leaves source whole, unmatched untouched, multi-file; same-file-ness is inode identity over a link table (every alias of in routes in place and is all-or-nothing, another file's out never touches in). Tie: real rewriters with faults injected at every modelled point incl. process kill, 20 aliasing forms. Partial: atomicity of os.replace is the OS's.", '4 C15'),
 'C16': ("Theorems: fmtDoc maps every string node (keys too) and nothing else; write/fetch round-trip and fileformat document spec under an explicit codec hypothesis, DISCHARGED for JSON by a proved printer/parser round-trip (parse (print d) = d for every float-free document). Tie: generated payloads through the real filewrite/fetch/fileformat steps and file parsers. Partial: YAML/TOML codecs validated by generation only; two open known findings are ruamel's.", '4 C16'),
 'C17': ('Theorems for all command lists, exit codes (0, positive, signal) and unstartable commands, all completion orders: serial ok iff all zero, started = prefix to first failure, cmdOut one result per command run in order, async all started, sub-list prefix, results order-independent, aggregate error lists all failures. Tie: real subprocesses released in chosen completion orders, self-killing children, missing/non-executable/unquotable commands, marker files.', '4 C17'),
 'C18': ('Theorems: exit-code spec for a fault in ANY phase of cli.main (config, logging, run), trichotomy 0/130/255, main never escapes, argv pass-through, parse-input table; the extracted shape of cli.main (calls inside the try, handler ladder, text written) proved to be what the model assumes; six argument parsers TRANSLATED from the source and proved equal to the model. Tie: in-process phase ladder + python -m pypyr subprocesses with natural and injected faults per phase and per source line.', '4 C18'),
 'C19': ('Theorems: first existing candidate in the documented order for every existence predicate, absolute only, not-found lists the places searched, child-parent default table, sys.path has the pipeline dir. Tie: real directory layouts over all subsets x name forms x pype depth.', '4 C19'),
 'C20': ("Theorems by induction over the file list: init order, scalar highest wins, dict union with precedence, unknown rejected atomically, non-mapping rejected (+ pre-fix witness), skip-init; extracted config property sets proved equal to the model's. Tie: a fresh subprocess per configuration over all location subsets and env vars.", '4 C20'),
}

claimed = [a.upper() for a in sys.argv[1:]]
checks = []
for p in props:
    pid = p['id']
    if pid not in claimed:
        continue
    text, ref = INFO[pid]
    checks.append({
        'property_id': pid,
        'quick_cmd': f'./check {pid} --tier quick',
        'thorough_cmd': f'./check {pid} --tier thorough',
        'evidence_file': f'evidence/{pid}.json',
        'replay_cmd_template': f'./check {pid} --replay {{path}}',
        'engine': 'lean-model+correspondence',
        'level_claimed': {'category': 'proof', 'text': text, 'design_ref': 'DESIGN.md sections ' + ref + ' and 11.2'},
        'level_note': ('Trusted: Lean 4.33 kernel (axioms per theorem audited on every run: subset of propext, '
                       'Classical.choice, Quot.sound; no sorry/native_decide); the hand-written model is tied to the '
                       'code by the correspondence harness only (generators, canonicaliser, probes - listed in the '
                       'evidence file); CPython and third-party libraries are modelled, not verified. See DESIGN.md section 7.'),
        'technique': 'Lean 4 theorems over an executable model + differential correspondence model vs implementation',
    })
na = [{'property_id': p['id'],
       'reason': 'not claimed yet: model/proofs/correspondence under construction (DESIGN.md build order); no other technique substituted'}
      for p in props if p['id'] not in claimed]
m = {
 'version': 1,
 'setup_cmd': 'cd lean && (lake build || lake build pmdriver)',
 'hooks': {'guard': 'PYPYR_VERIF',
           'enable': 'no source hooks: the harness instruments the implementation from outside (monkeypatching in the harness process); PYPYR_VERIF is reserved and unused',
           'baseline_off_cmd': 'cd /repo && /venv/bin/python -m pytest -ra -q -p no:cacheprovider --timeout=900 --continue-on-collection-errors',
           'source_commits': [], 'add_only': True},
 'engines': [{'name': 'lean-model+correspondence', 'path': 'check', 'serves_properties': claimed,
              'kind_free_text': 'Lean 4 theorems over hand-written executable models (lean/PypyrModel, lean/Props) + differential correspondence harness (harness/) driving model (pmdriver) and implementation on the same inputs'}],
 'checks': checks,
 'notes': 'Technique family: machine-checked proof in Lean 4. See DESIGN.md (sections 11-13: as built, defects and false alarms, seeded changes). Genuine defects repaired as fix: commits in /repo and open findings: known_findings.json.',
 'not_applicable': na,
}
(V / 'MANIFEST.json').write_text(json.dumps(m, indent=1) + '\n')
print('claimed', claimed)
