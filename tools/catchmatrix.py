#!/usr/bin/env python3
"""tools/catchmatrix.py - print the table of seeded changes (seeded/*/meta.json) and what the checks said,
as markdown (pasted into DESIGN.md section 12)."""
import json
from pathlib import Path

V = Path(__file__).resolve().parent.parent


def short(s, n=150):
    s = ' '.join(str(s or '').split())
    return s if len(s) <= n else s[:n - 1] + '…'


def main():
    rows = []
    for d in sorted((V / 'seeded').iterdir()):
        f = d / 'meta.json'
        if not f.exists():
            continue
        m = json.loads(f.read_text())
        res = []
        for k in sorted(m):
            if k.startswith('check_'):
                r = m[k]
                res.append(f"{k[6:]}: {r.get('caught')}")
        extra = m.get('also_caught_by')
        if extra:
            res.append('also: ' + extra)
        hist = m.get('first_verdict')
        rows.append((d.name, m.get('property'), short(m.get('summary')), short(m.get('needs_to_manifest'), 120),
                     '; '.join(res), short(hist, 160) if hist else ''))
    print('| id | what was changed | needs, to manifest | own check now | first verdict / what was strengthened |')
    print('|---|---|---|---|---|')
    for r in rows:
        print(f'| {r[0]} | {r[2]} | {r[3]} | {r[4]} | {r[5]} |')
    n = len(rows)
    caught = sum(1 for r in rows if 'concrete-input' in r[4])
    nf = sum(1 for r in rows if 'no-failing-input-found' in r[4] and 'concrete-input' not in r[4])
    missed = sum(1 for r in rows if 'MISSED' in r[4] and 'concrete-input' not in r[4])
    print(f'\n{n} seeded changes: {caught} caught with a concrete failing input, {nf} reported as '
          f'no-failing-input-found, {missed} missed by the property\'s own check.')


if __name__ == '__main__':
    main()
