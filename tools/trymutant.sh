#!/bin/sh
# tools/trymutant.sh <PID> <mutant-dir> [tier]  - run a check against a scratch worktree of /repo with the
# mutant's patch applied (PYPYR_REPO), evidence/replays redirected to a scratch dir. Prints the verdict.
pid="$1"; mdir="$(cd "$2" && pwd)"; tier="${3:-quick}"
wt="$(mktemp -d /tmp/mutrun.XXXXXX)"; rmdir "$wt"
git -C /repo worktree add -q "$wt" HEAD || exit 2
out="$(mktemp -d /tmp/mutout.XXXXXX)"
( cd "$wt" && git apply "$mdir/patch.diff" ) || { echo "PATCH DOES NOT APPLY"; git -C /repo worktree remove --force "$wt"; exit 2; }
vc="$(mktemp -d /var/tmp/mutverif.XXXXXX)"
rsync -a --exclude .git --exclude seeded --exclude replays /verif/ "$vc/"
cd "$vc"
VERIF_DEV=1 PYPYR_REPO="$wt" VERIF_OUT="$out" ./check "$pid" --tier "$tier" > "$out/log" 2>&1
rc=$?
cd /verif; rm -rf "$vc"
echo "== $pid $(basename "$mdir") tier=$tier exit=$rc"
grep -E "VIOLATION|KNOWN-FINDING|INFRA|^C[0-9]+ " "$out/log" | cut -c1-400
for f in "$out"/replays/*.json; do [ -f "$f" ] && { echo "-- $f"; python3 -c "
import json,sys
d=json.load(open('$f'))
print(json.dumps({k:d.get(k) for k in ('kind','detail','signature','no_longer_checks')})[:1200])"; }; done
git -C /repo worktree remove --force "$wt"
rm -rf "$out"
exit $rc
