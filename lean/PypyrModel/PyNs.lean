/-
  PyNs — a binding-only model of what inline Python in pypyr can see and touch (property C14).

  This is NOT a model of Python. It is a model of *name binding*: which namespace object every
  name operation of a `!py` expression / `pypyr.steps.py` block hits, for the namespace
  arrangement that pypyr builds. Values are opaque tokens tagged with where they were first bound
  (context key / pyimport name / builtin / constant) plus references into a heap of mutable cells
  (lists, tuples, function objects, class objects, frames), so that *provenance* of every read and
  *identity* of every context value are observable.

  Mirrors
    * `pypyr.context.Context.get_eval_string`   — `runEval false` (arrangement `.evalFixed`, the code
                                                   NOW: one throw-away `_EvalNamespace` as globals and
                                                   locals); `runEval true` (`.evalOld`, the code before
                                                   commit 62901c4); `runEvalChild` (`.evalChild`, the code
                                                   of commits 62901c4..81f45d6^, kept as a witness only)
    * `pypyr.moduleloader._EvalNamespace` (`__getitem__`/`__setitem__`/`__delitem__`/`__ior__`/`pop`/
      `popitem`/`clear`, and `MutableMapping.setdefault`/`update` on top of them) — `nsopOwn`;
      `pypyr.moduleloader._ChainMapPretendDict` — `localsGetItem` / `globalsGetItem` / `globalsRaw`
                                                   / `storeName` / `storeGlobal` / `delName`
    * `pypyr.steps.py.run_step`, `get_save`     — `runPyStep`, `doSave`; the `save` function object
                                                   called AFTER its step has ended (kept by the block
                                                   directly or inside a helper function) — `runSaveCall`
    * `pypyr.steps.pyimport.run_step`, `Context.pystring_globals_update` — `runPyImport`
    * `pypyr.steps.set.run_step` with a `!py` value — `runEvalSet`; `pypyr.dsl.Step.foreach_loop`
      over a `!py` value — `runForeach` / `foreachLoop`
    * CPython 3.12 `LOAD_NAME/STORE_NAME/DELETE_NAME/LOAD_GLOBAL/STORE_GLOBAL`, symtable scope
      classification, PEP 709 comprehension inlining, PEP 572 target scoping — `load`, `store`,
      `chainLoad`, `chainStore`, `Expr.assigned`, `Expr.compWalrus`.

  ## Findings of the experiments (/venv/bin/python 3.12.1, `dis` + eval/exec against the real
     `_ChainMapPretendDict`; these are what the definitions below encode)

  E1  Code compiled for `eval`/`exec` uses, at module level, `LOAD_NAME`/`STORE_NAME`:
        LOAD_NAME  x : locals[x] via the mapping protocol (`__getitem__`, KeyError = miss)
                       → `PyDict_GetItem(globals, x)` — the RAW dict slot of the globals object,
                         NOT its `__getitem__` → builtins.
        STORE_NAME x : locals[x] = v via `__setitem__`.
      For `_ChainMapPretendDict` `__getitem__/__setitem__` are `ChainMap`'s: lookup walks `maps`
      left to right (a `Context` miss raises `KeyNotInContextError`, a `KeyError` subclass, so the
      walk continues), a store goes to `maps[0]`. The raw dict slot holds only `__builtins__`.
  E2  Inside a function scope (lambda, def, generator expression) a name that is not a local or a
      cell compiles to `LOAD_GLOBAL`: since globals is not an *exact* dict CPython calls
      `globals.__getitem__` (the ChainMap walk over (context, pystring_globals)), then builtins. The
      raw dict slot is NOT consulted: `(lambda: __builtins__)()` is a NameError while top-level
      `__builtins__` resolves. `STORE_GLOBAL` writes the raw dict slot of the globals object.
  E3  PEP 709 (3.12): list comprehensions are inlined. Iteration variables are isolated fast
      locals/cells of the enclosing code (saved, cleared and restored around the comprehension);
      every other name in a module-level list comprehension compiles exactly like module-level
      code (`LOAD_NAME`), so `[(x, y) for x in l1 for y in l2]` finds l2 in *locals*. Generator
      expressions are still functions: first iterable evaluated outside, everything else
      `LOAD_GLOBAL`. In a class body an inlined comprehension cannot see class locals
      (`LOAD_GLOBAL`), only its first iterable is evaluated with `LOAD_NAME`.
  E4  PEP 572: `(y := e)` inside a comprehension/genexp binds in the enclosing *function*; when
      there is none (module level) the target becomes an explicit global of the module code: the
      store is `STORE_GLOBAL y` and EVERY other use of `y` in the module-level code (outside the
      comprehension as well) becomes `LOAD_GLOBAL`/`STORE_GLOBAL`.
      Consequence with pypyr's arrangement: `[(y := x) for x in l]` leaves `y` in the raw dict slot
      of `context._pystring_namespace` (not a context key, but it persists for the life of the
      Context: a later top-level `!py y` finds it through E1's raw-slot fallback, a later
      `(lambda: y)()` does not), and `([(y := x) for x in l], y)` is a NameError unless the context
      has a key y, in which case the read sees the context's y.
  E5  (historical, `.evalChild`: commits 62901c4..81f45d6^, `eval(src, ns, ns.new_child())`)
      top-level `(x := a)` is `STORE_NAME` → `child.__setitem__` → the child's throw-away first map.
      It is visible to later top-level reads and inlined list comprehensions of the same expression
      (`LOAD_NAME` walks scratch first) but NOT from a lambda or generator expression (`LOAD_GLOBAL`
      walks the parent's maps only): `((x := a), (lambda: x)())` is a NameError; and E4's leftover in
      the raw dict slot of the per-Context namespace object is still there.
      Before 62901c4 (`.evalOld`: `eval(src, ns)`, locals is globals) the same store went to
      `ns.__setitem__` → `maps[0]` = the context: `walrus_leak_pre_fix`.
  E5' (NOW, `.evalFixed`: commits 81f45d6 + 2f08756)
        namespace = _EvalNamespace(*self._pystring_namespace.maps); eval(src, namespace, namespace)
      `_EvalNamespace` is a `_ChainMapPretendDict(context, imports)` whose OWN dict instance starts as
      `{__builtins__: builtins.__dict__}` and whose
        `__getitem__(k)` = own dict first (`dict.get(self, k, self)`), then the ChainMap walk
                           (context, then imports), KeyError on a miss;
        `__setitem__`/`__delitem__` = the own dict only (never `maps[0]`).
      So: LOAD_NAME = `__getitem__` (own → context → imports) → raw own dict (same dict again) →
      builtins; LOAD_GLOBAL = `__getitem__` (globals is not an exact dict) → builtins; STORE_NAME =
      `__setitem__` → own dict; STORE_GLOBAL = raw dict store → the same own dict. Every scope reads
      and writes the same three layers in the same order, i.e. exactly what a plain `dict` of
      (imports overlaid by context) as globals would give, except that nothing reaches the context.
      The object is dropped after the eval: nothing but heap mutations survives; the per-Context
      `_pystring_namespace` (its raw dict slot `hidden`) is not even handed to `eval` any more.
      Corollary: the own dict's `__builtins__` entry stands in front of a CONTEXT key
      `__builtins__`, in every scope (`!py __builtins__` is the builtins dict, also inside a lambda,
      where it used to be a NameError / the context's value).
  E6  `pypyr.steps.py`: `context.copy()` is `dict.copy` → an exact `dict`; `exec(src, d)` uses it as
      globals and locals, so E1/E2 collapse: every module-level and global operation hits `d`,
      then builtins. `d['__builtins__']` and `d['save']` are set AFTER the copy and therefore hide
      context keys of those names from the block. `save(*names, **kw)` builds `{name: d[name]…}`
      (KeyError on a miss, before anything is written), `.update(kw)`, then `context.update(...)`
      immediately — what was saved before a later exception stays saved.
  E7  A class body reads with `LOAD_NAME` (class dict → raw globals → builtins) and stores into the
      class dict; functions defined in it do not see class locals.
  E8  A read of a local/cell that is not bound yet is UnboundLocalError / NameError("free
      variable…") — both `NameError` subclasses; the model has one `nameError`.

  E9  NOT modelled (a defect of the CPython 3.12.1 compiler, not a rule of the language): when a list
      comprehension is inlined, its symbols are merged into the enclosing scope's symbol table; a
      read of such a name from ANOTHER inlined comprehension of the same code unit — or, through
      `analyze_cells`, a free variable of a nested function of a function-like unit — is then
      compiled against the merged entry (a hidden fast local / a cell) instead of as the global it is:
      `[([0 for z in U], [z for y in U]) for a in T]` is an UnboundLocalError although `z` is a
      global. The harness detects (over-approximating, `impl_c14.inlining_quirk`) programs where this
      can happen and stops the comparison before them.
  E10 A function object — and a generator object — keeps the namespace object of the run that made it
      as its globals (the dict of a finished `exec`, the throw-away `_EvalNamespace` of a finished
      `eval`: pypyr drops its reference, the object does not). Whoever calls / pulls it and whenever,
      its body resolves globals against THAT object: `St.nss` keeps the namespace objects that are
      still referenced, `Closure.ns` / `GenObj.ns` say which, `target` + `callFn` / `pullGen` switch
      `cur`. An `_EvalNamespace`'s `maps` are the live `Context` and the live `_pystring_globals`
      dict (the objects themselves: `_EvalNamespace(*self._pystring_namespace.maps)`), so a deferred
      body sees: what its own evaluation bound (own dict) → the context AS IT IS WHEN THE BODY RUNS →
      the imports as they are then → builtins. Routes by which the body runs after its evaluation has
      returned: `foreach: !py (… for …)` (`Step.foreach_loop` pulls; it writes `context['i']`
      between pulls — `runForeach`), `set: f: !py lambda: …` then a later `!py f()` (`runEvalSet`),
      `save('f')` from a py block, a generator kept in the context and drained later.
      A generator expression evaluates its FIRST iterable (and `iter()`s it) when the expression is
      evaluated; everything else at the pulls. `contextclearall` empties the SAME two objects. After
      a rehydration of the Context (`runRehydrate`) the older `_EvalNamespace` objects chain to the
      object left behind: marked `stale`, running code against them is `outOfDomain`.
  E11 Rebinding `__builtins__` in the namespace changes the builtins of frames created afterwards:
      the driver rejects such programs. (REMOVING the entry — `globals().clear()` / `popitem()` /
      `pop('__builtins__')` — does not: frames created afterwards inherit the caller's builtins.)
  E12 `globals()` — and `locals()` at the top level of the code — IS the namespace object. Its
      mutating methods (`nsop`): see `nsopOwn`. Everything else reachable from it by reflection
      (`.maps[0]` is the Context itself, `.parents`, `.copy()`, `.new_child()`) is not in the model;
      the harness exercises the methods of those objects in an implementation-only stream.

  No imports: model files stay Mathlib-free so the driver links.
-/

namespace Pypyr.PyNs

/-! ### values -/

/-- Where a token object comes from. `ctx`/`imp` are inert marker objects, `mod` a module object,
    `bi` a real builtin, `special` one of pypyr's own injected objects (`save`, `__builtins__`, the
    `py` source string). -/
inductive Org where
  | ctx | imp | mod | bi | special
  deriving DecidableEq, Repr, Inhabited

inductive V where
  | tok (o : Org) (name : String)
  | cst (n : Nat)
  | none
  | ref (r : Nat)
  deriving DecidableEq, Repr, Inhabited

abbrev Env := List (String × V)

namespace Env

def get? (c : Env) (k : String) : Option V :=
  match c with
  | [] => Option.none
  | (k', v) :: rest => if k' = k then some v else get? rest k

/-- `dict.__setitem__`: an existing key keeps its position, a new key goes last. -/
def set (c : Env) (k : String) (v : V) : Env :=
  match c with
  | [] => [(k, v)]
  | (k', v') :: rest => if k' = k then (k, v) :: rest else (k', v') :: set rest k v

def erase (c : Env) (k : String) : Env :=
  match c with
  | [] => []
  | (k', v') :: rest => if k' = k then erase rest k else (k', v') :: erase rest k

/-- `dict.update(other)`, left to right. -/
def update (c : Env) (kvs : Env) : Env := kvs.foldl (fun acc kv => set acc kv.1 kv.2) c

def keys (c : Env) : List String := c.map (·.1)

end Env

inductive Err where
  | nameError | typeError | attributeError | keyError | valueError | indexError
  | outOfFuel      -- the model's recursion budget ran out (non-termination / very deep program)
  | outOfDomain    -- the program did something to a real builtin / pypyr object the model has no semantics for
  deriving DecidableEq, Repr, Inhabited

def Err.name : Err → String
  | .nameError => "NameError" | .typeError => "TypeError" | .attributeError => "AttributeError"
  | .keyError => "KeyError" | .valueError => "ValueError" | .indexError => "IndexError" | .outOfFuel => "OutOfFuel" | .outOfDomain => "OutOfDomain"

inductive R (α : Type) where
  | ok (a : α)
  | err (e : Err)
  deriving DecidableEq, Repr, Inhabited

/-! ### syntax -/

/-- The methods of the namespace object (`globals()`; at the top level of the code also `locals()`)
    that can change it: `pop('k')`, `pop('k', e)`, `popitem()`, `clear()`, `setdefault('k', e)`,
    `update(k=e)`, `__setitem__('k', e)`, `__delitem__('k')`, `__ior__({'k': e})` (what `ns |= {…}` calls). -/
inductive NsMeth where
  | pop1 | pop2 | popitem | clear | setdefault | update | setitem | delitem | ior
  deriving DecidableEq, Repr, Inhabited

def NsMeth.hasArg : NsMeth → Bool
  | .pop2 => true | .setdefault => true | .update => true | .setitem => true | .ior => true
  | _ => false

/-- Expressions. `comp gen elt clauses`: list comprehension (`gen = false`) or a generator
    expression consumed on the spot (`[*( … )]`, `gen = true`); a clause is
    `(target, iterable, conditions)`. `append t e` is `t.append(e)`.
    `gen elt clauses` is a generator expression as a VALUE (`( … for … )`): a generator object whose
    body runs whenever somebody pulls from it — `drain e` (`[*e]`, in this or a LATER evaluation) or
    the step runner (`foreach`). `nsop m k e` is `globals().m('k', e)` (the argument `e` only for the
    methods that take one). `setitem t i e` is `t.__setitem__(i, e)` (item assignment as an expression). -/
inductive Expr where
  | name (x : String)
  | const (n : Nat)
  | walrus (x : String) (e : Expr)
  | tuple (es : List Expr)
  | comp (gen : Bool) (elt : Expr) (clauses : List (String × Expr × List Expr))
  | lam (ps : List String) (body : Expr)
  | call (f : Expr) (args : List Expr)
  | append (t : Expr) (e : Expr)
  | gen (elt : Expr) (clauses : List (String × Expr × List Expr))
  | drain (e : Expr)
  | nsop (m : NsMeth) (k : String) (e : Expr)
  | setitem (t : Expr) (i : Nat) (e : Expr)
  deriving Repr, Inhabited

abbrev Clause := String × Expr × List Expr

/-- Statements of a `pypyr.steps.py` block (module level only).
    `def_ f ps gl body ret` is `def f(ps): global gl…; x1 = e1; …; return ret`;
    `imp x v` is an import statement binding `x` to the object `v` (`import m as x`, `from m import x`);
    `cls c body` is `class c: x1 = e1; …`; `save names kws` is `save('n1', …, k1=e1, …)`;
    `setitem t i e` is the statement `t[i] = e` (the value first, then the target). -/
inductive Stmt where
  | assign (x : String) (e : Expr)
  | aug (x : String) (e : Expr)
  | del (x : String)
  | imp (x : String) (v : V)
  | def_ (f : String) (ps : List String) (gl : List String) (body : List (String × Expr)) (ret : Expr)
  | cls (c : String) (body : List (String × Expr))
  | expr (e : Expr)
  | save (names : List String) (kws : List (String × Expr))
  | setitem (t : Expr) (i : Nat) (e : Expr)
  deriving Repr, Inhabited

/-! ### static scope analysis (what CPython's symtable pass computes) -/

mutual
/-- Names bound by an assignment expression in the scope that directly contains the expression:
    descends into comprehensions and generator expressions (PEP 572: the target binds in the
    enclosing scope), not into lambdas. -/
def Expr.assigned : Expr → List String
  | .name _ => []
  | .const _ => []
  | .walrus x e => x :: e.assigned
  | .tuple es => assignedL es
  | .comp _ elt cls => elt.assigned ++ assignedC cls
  | .lam _ _ => []
  | .call f args => f.assigned ++ assignedL args
  | .append t e => t.assigned ++ e.assigned
  | .gen elt cls => elt.assigned ++ assignedC cls
  | .drain e => e.assigned
  | .nsop _ _ e => e.assigned
  | .setitem t _ e => t.assigned ++ e.assigned
def assignedL : List Expr → List String
  | [] => []
  | e :: es => e.assigned ++ assignedL es
def assignedC : List (String × Expr × List Expr) → List String
  | [] => []
  | (_, it, cs) :: rest => it.assigned ++ assignedL cs ++ assignedC rest
end

mutual
/-- Assignment-expression targets that sit inside a comprehension / generator expression of this
    scope (not inside a lambda). At module level these become explicit globals (E4). -/
def Expr.compWalrus : Expr → List String
  | .name _ => []
  | .const _ => []
  | .walrus _ e => e.compWalrus
  | .tuple es => compWalrusL es
  | .comp _ elt cls => elt.assigned ++ assignedC cls
  | .lam _ _ => []
  | .call f args => f.compWalrus ++ compWalrusL args
  | .append t e => t.compWalrus ++ e.compWalrus
  | .gen elt cls => elt.assigned ++ assignedC cls
  | .drain e => e.compWalrus
  | .nsop _ _ e => e.compWalrus
  | .setitem t _ e => t.compWalrus ++ e.compWalrus
def compWalrusL : List Expr → List String
  | [] => []
  | e :: es => e.compWalrus ++ compWalrusL es
end

def bodyAssigned (body : List (String × Expr)) : List String :=
  match body with
  | [] => []
  | (x, e) :: rest => x :: (e.assigned ++ bodyAssigned rest)

/-- Local variables of a function: parameters and everything assigned in its own scope, except
    names it declares `global`. -/
def fnDeclared (ps gl : List String) (body : List (String × Expr)) (ret : Expr) : List String :=
  (ps ++ bodyAssigned body ++ ret.assigned).filter (fun x => !gl.contains x)

def Stmt.explicit : Stmt → List String
  | .assign _ e => e.compWalrus
  | .aug _ e => e.compWalrus
  | .expr e => e.compWalrus
  | .save _ kws => compWalrusL (kws.map (·.2))
  | .setitem t _ e => e.compWalrus ++ t.compWalrus
  | _ => []

def blockExplicit (b : List Stmt) : List String :=
  match b with
  | [] => []
  | s :: rest => s.explicit ++ blockExplicit rest

/-! ### heap and state -/

/-- The namespace arrangements. -/
inductive Arr where
  | evalFixed   -- `n = _EvalNamespace(ctx, imps); eval(src, n, n)`   (get_eval_string NOW, 2f08756)
  | evalChild   -- `eval(src, ns, ns.new_child())`     (get_eval_string 62901c4 .. 81f45d6^, historical)
  | evalOld     -- `eval(src, ns)`                      (get_eval_string before 62901c4)
  | exec        -- `exec(src, d)` with d an exact dict  (pypyr.steps.py)
  deriving DecidableEq, Repr, Inhabited

structure Closure where
  params : List String
  globals : List String
  body : List (String × Expr)
  ret : Expr
  chain : List Nat            -- the frames of the enclosing function / comprehension scopes (cells)
  ns : Nat                    -- `__globals__`: the id of the namespace object of the run that made it
  deriving Repr, Inhabited

/-- One lexical scope's variables at run time. `declared` is static (symtable); `vars` holds what
    is bound right now. `isComp`: the isolated iteration variables of a comprehension. -/
structure Frame where
  declared : List String
  globals : List String
  isComp : Bool
  vars : Env
  deriving Repr, Inhabited

inductive GenStatus where
  | suspended | running | done
  deriving DecidableEq, Repr, Inhabited

/-- A generator object (the value of a generator expression). `stack`: the `for` levels that are
    open, innermost first, each with its source sequence and the index of the next item; `frame`:
    the cell of its iteration variables; `chain`: `frame ::` the frames of the scopes enclosing the
    expression; `ns`: the namespace object its code resolves globals against. -/
structure GenObj where
  elt : Expr
  clauses : List (String × Expr × List Expr)
  stack : List (V × Nat)
  frame : Nat
  chain : List Nat
  ns : Nat
  status : GenStatus
  deriving Repr, Inhabited

inductive Cell where
  | list (xs : List V)
  | tuple (xs : List V)
  | clo (c : Closure)
  | cls (attrs : Env)
  | frame (f : Frame)
  | gen (g : GenObj)
  deriving Repr, Inhabited

/-- One namespace OBJECT — what the code of one run uses as `globals` (and module-level `locals`),
    and what every function / generator object made by that run keeps as `__globals__` for as long
    as it lives.
    `arr`   how the object resolves: `.evalFixed` = an `_EvalNamespace` — `own`, then the maps it was
            built with: the LIVE `Context` and the LIVE `_pystring_globals` dict (the objects, not
            copies); `.exec` = the plain dict of one `pypyr.steps.py` run (`own` only)
    `own`   its own dict
    `stale` the `Context` object it chains to is no longer the one the session works on (the session
            went on with a rehydrated copy): what code running against it then sees is outside
            the modelled domain -/
structure NsRec where
  arr : Arr
  own : Env
  stale : Bool
  deriving DecidableEq, Repr, Inhabited

abbrev NsTab := List (Nat × NsRec)

def nsGet (t : NsTab) (k : Nat) : Option NsRec :=
  match t with
  | [] => Option.none
  | (k', r) :: rest => if k' = k then some r else nsGet rest k

def nsSet (t : NsTab) (k : Nat) (r : NsRec) : NsTab :=
  match t with
  | [] => [(k, r)]
  | (k', r') :: rest => if k' = k then (k, r) :: rest else (k', r') :: nsSet rest k r

def nsErase (t : NsTab) (k : Nat) : NsTab :=
  match t with
  | [] => []
  | (k', r') :: rest => if k' = k then nsErase rest k else (k', r') :: nsErase rest k

/-- Everything a piece of inline Python can reach.
    `ctx`     the pypyr `Context` (a dict)
    `imps`    `context._pystring_globals` (what `pyimport` registered)
    `hidden`  the raw `dict` storage of the per-Context `context._pystring_namespace` (starts as
              `{__builtins__}`; only the pre-2f08756 arrangements ever hand that object to `eval`)
    `nss`     the namespace objects that exist: the one of the running evaluation / py step
              (`.evalFixed`: the throw-away `_EvalNamespace`, own dict starts as `{__builtins__}`;
              `.exec`: the `globals` dict of one `pypyr.steps.py` execution; `.evalChild`: own = the
              first map of `_pystring_namespace.new_child()`), and those of finished runs that a
              function / generator object in the heap still references
    `cur`     the id of the namespace object the code running right now uses as globals
    `next`    the next unused namespace id
    `bi`      the builtins module dict
    `saved`   ghost: every `(key, value)` a `save(...)` call handed to `context.update`, in order -/
structure St where
  ctx : Env
  imps : Env
  hidden : Env
  bi : Env
  heap : List Cell
  saved : Env
  nss : NsTab
  cur : Nat
  next : Nat
  deriving Repr, Inhabited

namespace St

/-- The own dict of the namespace object of the running code. -/
def own (st : St) : Env :=
  match nsGet st.nss st.cur with
  | some r => r.own
  | Option.none => []

/-- Replace the own dict of the namespace object of the running code. -/
def setOwn (st : St) (e : Env) : St :=
  let r : NsRec := match nsGet st.nss st.cur with
    | some r => { r with own := e }
    | Option.none => { arr := .exec, own := e, stale := false }
  { st with nss := nsSet st.nss st.cur r }

end St

def orElse (a b : Option V) : Option V :=
  match a with
  | some v => some v
  | Option.none => b

/-- `locals.__getitem__(x)` (LOAD_NAME, first leg). `.evalFixed`: `_EvalNamespace.__getitem__` —
    own dict, then the ChainMap walk context → imports. -/
def localsGetItem (a : Arr) (st : St) (x : String) : Option V :=
  match a with
  | .evalFixed => orElse (st.own.get? x) (orElse (st.ctx.get? x) (st.imps.get? x))
  | .evalChild => orElse (st.own.get? x) (orElse (st.ctx.get? x) (st.imps.get? x))
  | .evalOld => orElse (st.ctx.get? x) (st.imps.get? x)
  | .exec => st.own.get? x

/-- `globals.__getitem__(x)` (LOAD_GLOBAL on a non-exact dict) / the dict lookup for an exact dict.
    `.evalFixed`: globals IS the locals object, the same `_EvalNamespace.__getitem__`. -/
def globalsGetItem (a : Arr) (st : St) (x : String) : Option V :=
  match a with
  | .evalFixed => orElse (st.own.get? x) (orElse (st.ctx.get? x) (st.imps.get? x))
  | .evalChild => orElse (st.ctx.get? x) (st.imps.get? x)
  | .evalOld => orElse (st.ctx.get? x) (st.imps.get? x)
  | .exec => st.own.get? x

/-- `PyDict_GetItem(globals, x)`: the raw dict slot of the globals object (LOAD_NAME, second leg).
    `.evalFixed`: the own dict of the throw-away namespace. -/
def globalsRaw (a : Arr) (st : St) (x : String) : Option V :=
  match a with
  | .evalFixed => st.own.get? x
  | .evalChild => st.hidden.get? x
  | .evalOld => st.hidden.get? x
  | .exec => st.own.get? x

/-- LOAD_NAME. -/
def loadName (a : Arr) (st : St) (x : String) : Option V :=
  orElse (localsGetItem a st x) (orElse (globalsRaw a st x) (st.bi.get? x))

/-- LOAD_GLOBAL. -/
def loadGlobal (a : Arr) (st : St) (x : String) : Option V :=
  orElse (globalsGetItem a st x) (st.bi.get? x)

/-- STORE_NAME: `locals.__setitem__` — for a ChainMap that is `maps[0][x] = v`; for
    `_EvalNamespace` it is `dict.__setitem__(self, x, v)`: the own dict. -/
def storeName (a : Arr) (st : St) (x : String) (v : V) : St :=
  match a with
  | .evalFixed => st.setOwn (st.own.set x v)
  | .evalChild => st.setOwn (st.own.set x v)
  | .evalOld => { st with ctx := st.ctx.set x v }
  | .exec => st.setOwn (st.own.set x v)

/-- STORE_GLOBAL: `PyDict_SetItem(globals, x, v)` — the raw dict slot (for `.evalFixed` that is the
    very dict `__setitem__` writes). -/
def storeGlobal (a : Arr) (st : St) (x : String) (v : V) : St :=
  match a with
  | .evalFixed => st.setOwn (st.own.set x v)
  | .evalChild => { st with hidden := st.hidden.set x v }
  | .evalOld => { st with hidden := st.hidden.set x v }
  | .exec => st.setOwn (st.own.set x v)

/-- DELETE_NAME / DELETE_GLOBAL at module level (statements only exist under `.exec`; the other
    arms say what the mapping protocol would do). `none` = NameError. -/
def delName (a : Arr) (st : St) (x : String) : Option St :=
  match a with
  | .evalFixed => if (st.own.get? x).isSome then some (st.setOwn (st.own.erase x)) else Option.none
  | .evalChild => if (st.own.get? x).isSome then some (st.setOwn (st.own.erase x)) else Option.none
  | .evalOld => if (st.ctx.get? x).isSome then some { st with ctx := st.ctx.erase x } else Option.none
  | .exec => if (st.own.get? x).isSome then some (st.setOwn (st.own.erase x)) else Option.none

namespace St

def alloc (st : St) (c : Cell) : Nat × St := (st.heap.length, { st with heap := st.heap ++ [c] })

/-- Make namespace object `k` the globals of the code that runs next. -/
def setCur (st : St) (k : Nat) : St := { st with cur := k }

def heapSet (st : St) (r : Nat) (c : Cell) : St := { st with heap := st.heap.set r c }

/-- Bind `x` in frame `r` (STORE_FAST / STORE_DEREF). -/
def frameSet (st : St) (r : Nat) (x : String) (v : V) : St :=
  match st.heap[r]? with
  | some (.frame f) => st.heapSet r (.frame { f with vars := f.vars.set x v })
  | _ => st

/-- STORE_NAME in a class body: the class namespace dict. -/
def clsSet (st : St) (r : Nat) (x : String) (v : V) : St :=
  match st.heap[r]? with
  | some (.cls attrs) => st.heapSet r (.cls (attrs.set x v))
  | _ => st

end St

/-! ### scopes and name resolution -/

inductive Kind where
  | module             -- top-level code of the eval / exec (including list comprehensions inlined into it)
  | func               -- inside a lambda / def / generator expression
  | cls (r : Nat)      -- directly in a class body whose namespace dict is cell r
  deriving DecidableEq, Repr, Inhabited

structure Scope where
  kind : Kind
  chain : List Nat          -- frames, innermost first
  explicit : List String    -- explicit globals of the module-level code (E4)
  deriving Repr, Inhabited

inductive Hit where
  | val (v : V)
  | unbound
  | declGlobal
  | miss
  deriving Repr, DecidableEq

/-- Resolve a read against the lexical frames: the innermost scope that declares `x` decides. -/
def chainLoad (heap : List Cell) (x : String) : List Nat → Hit
  | [] => .miss
  | r :: rest =>
    match heap[r]? with
    | some (.frame f) =>
      if f.declared.contains x then
        match f.vars.get? x with
        | some v => .val v
        | Option.none => .unbound
      else if f.globals.contains x then .declGlobal
      else chainLoad heap x rest
    | _ => chainLoad heap x rest

def optRes (o : Option V) : R V :=
  match o with
  | some v => .ok v
  | Option.none => .err .nameError

def clsGet (heap : List Cell) (r : Nat) (x : String) : Option V :=
  match heap[r]? with
  | some (.cls attrs) => attrs.get? x
  | _ => Option.none

/-- A name read in scope `sc`. -/
def load (a : Arr) (sc : Scope) (st : St) (x : String) : R V :=
  match chainLoad st.heap x sc.chain with
  | .val v => .ok v
  | .unbound => .err .nameError
  | .declGlobal => optRes (loadGlobal a st x)
  | .miss =>
    match sc.kind with
    | .module => if sc.explicit.contains x then optRes (loadGlobal a st x) else optRes (loadName a st x)
    | .func => optRes (loadGlobal a st x)
    | .cls r => optRes (orElse (clsGet st.heap r x) (orElse (globalsRaw a st x) (st.bi.get? x)))

inductive StoreAt where
  | frame (r : Nat)
  | global
  | default
  deriving Repr, DecidableEq

/-- Where an assignment (expression) in this scope binds: comprehension frames are skipped
    (PEP 572), the innermost function scope decides. -/
def chainStore (heap : List Cell) (x : String) : List Nat → StoreAt
  | [] => .default
  | r :: rest =>
    match heap[r]? with
    | some (.frame f) =>
      if f.isComp then chainStore heap x rest
      else if f.globals.contains x then .global
      else .frame r
    | _ => chainStore heap x rest

def store (a : Arr) (sc : Scope) (st : St) (x : String) (v : V) : St :=
  match chainStore st.heap x sc.chain with
  | .frame r => st.frameSet r x v
  | .global => storeGlobal a st x v
  | .default =>
    match sc.kind with
    | .module => if sc.explicit.contains x then storeGlobal a st x v else storeName a st x v
    | .func => storeGlobal a st x v
    | .cls r => st.clsSet r x v

/-! ### the few object operations the language has -/

def truthy (heap : List Cell) : V → Bool
  | .tok _ _ => true
  | .cst n => n != 0
  | .none => false
  | .ref r =>
    match heap[r]? with
    | some (.list xs) => !xs.isEmpty
    | some (.tuple xs) => !xs.isEmpty
    | _ => true

/-- `iter(v)`: `none` = fine, `some e` = the exception. A generator object is iterable in Python; in
    this language it can only be pulled by `drain` and by the step runner (elsewhere: outside the
    modelled domain). -/
def iterable (heap : List Cell) : V → Option Err
  | .tok .bi _ => some .outOfDomain
  | .tok .special _ => some .outOfDomain
  | .tok _ _ => some .typeError
  | .cst _ => some .typeError
  | .none => some .typeError
  | .ref r =>
    match heap[r]? with
    | some (.list _) => Option.none
    | some (.tuple _) => Option.none
    | some (.gen _) => some .outOfDomain
    | _ => some .typeError

/-- Item `i` of the (live) sequence `v` — list iteration is by index on the live object. -/
def elemAt (heap : List Cell) (v : V) (i : Nat) : Option V :=
  match v with
  | .ref r =>
    match heap[r]? with
    | some (.list xs) => xs[i]?
    | some (.tuple xs) => xs[i]?
    | _ => Option.none
  | _ => Option.none

def seqItems (heap : List Cell) (v : V) : Option (List V) :=
  match v with
  | .ref r =>
    match heap[r]? with
    | some (.list xs) => some xs
    | some (.tuple xs) => some xs
    | _ => Option.none
  | _ => Option.none

/-- `t.append(w)` once `t` is evaluated: the attribute lookup. `none` = is a list. -/
def appendable (heap : List Cell) : V → Option Err
  | .tok .bi _ => some .outOfDomain
  | .tok .special _ => some .outOfDomain
  | .ref r =>
    match heap[r]? with
    | some (.list _) => Option.none
    | _ => some .attributeError
  | _ => some .attributeError

def doAppend (st : St) (t w : V) : St :=
  match t with
  | .ref r =>
    match st.heap[r]? with
    | some (.list xs) => st.heapSet r (.list (xs ++ [w]))
    | _ => st
  | _ => st

/-- The attribute lookup of `t.__setitem__`: `none` = is a list (the only object of this language that
    has the method). -/
def itemSettable (heap : List Cell) : V → Option Err
  | .tok .bi _ => some .outOfDomain
  | .tok .special _ => some .outOfDomain
  | .ref r =>
    match heap[r]? with
    | some (.list _) => Option.none
    | some (.gen _) => some .attributeError
    | _ => some .attributeError
  | _ => some .attributeError

/-- `list.__setitem__(i, w)` on the list behind `t` — IN PLACE, the object stays the same. -/
def doSetItem (st : St) (t : V) (i : Nat) (w : V) : R Unit × St :=
  match t with
  | .ref r =>
    match st.heap[r]? with
    | some (.list xs) =>
      if i < xs.length then (.ok (), st.heapSet r (.list (xs.set i w))) else (.err .indexError, st)
    | _ => (.err .typeError, st)
  | .tok .bi _ => (.err .outOfDomain, st)
  | .tok .special _ => (.err .outOfDomain, st)
  | _ => (.err .typeError, st)

/-- `x += w` on values: marker objects answer `__iadd__` with the pair `(self, other)`; tuples
    concatenate into a new tuple; lists extend IN PLACE and stay the same object. -/
def iadd (st : St) (v w : V) : R V × St :=
  match v with
  | .tok .ctx _ => let (r, st1) := st.alloc (.tuple [v, w]); (.ok (.ref r), st1)
  | .tok .imp _ => let (r, st1) := st.alloc (.tuple [v, w]); (.ok (.ref r), st1)
  | .tok .mod _ => (.err .typeError, st)
  | .tok .bi _ => (.err .outOfDomain, st)
  | .tok .special _ => (.err .outOfDomain, st)
  | .cst _ => match w with
    | .cst _ => (.err .outOfDomain, st)
    | .tok .bi _ => (.err .outOfDomain, st)
    | .tok .special _ => (.err .outOfDomain, st)
    | _ => (.err .typeError, st)
  | .none => (.err .typeError, st)
  | .ref r =>
    match st.heap[r]? with
    | some (.list xs) =>
      match w with
      | .tok .bi _ => (.err .outOfDomain, st)
      | .tok .special _ => (.err .outOfDomain, st)
      | _ =>
        match iterable st.heap w with
        | some .outOfDomain => (.err .outOfDomain, st)
        | _ =>
          match seqItems st.heap w with
          | some ys => (.ok v, st.heapSet r (.list (xs ++ ys)))
          | Option.none => (.err .typeError, st)
    | some (.tuple xs) =>
      match w with
      | .ref r2 =>
        match st.heap[r2]? with
        | some (.tuple ys) => let (r3, st1) := st.alloc (.tuple (xs ++ ys)); (.ok (.ref r3), st1)
        | _ => (.err .typeError, st)
      | .tok .bi _ => (.err .outOfDomain, st)
      | .tok .special _ => (.err .outOfDomain, st)
      | _ => (.err .typeError, st)
    | some (.gen _) => (.err .outOfDomain, st)
    | _ => (.err .typeError, st)

inductive Callee where
  | clo (c : Closure)
  | bad (e : Err)

/-- What a call finds. -/
def callee (heap : List Cell) : V → Callee
  | .tok .bi _ => .bad .outOfDomain
  | .tok .special _ => .bad .outOfDomain
  | .ref r =>
    match heap[r]? with
    | some (.clo c) => .clo c
    | some (.cls _) => .bad .outOfDomain     -- instantiating a class: not modelled
    | _ => .bad .typeError
  | _ => .bad .typeError

/-- The namespace object the body of a function / generator object resolves globals against is the
    one of the run that MADE it (`__globals__`), whoever calls / pulls it and whenever. `target a st j`
    says how code whose globals is namespace `j` runs when entered from code running under
    arrangement `a`: `j` the caller's own namespace → the same arrangement; the namespace of a
    FINISHED run (E10) → that object's arrangement — an `_EvalNamespace` keeps chaining to the live
    `Context` and imports dict, an exec dict stands alone. `none`: outside the modelled domain (the
    object chains to a `Context` the session has left behind; a historical arrangement). -/
def target (a : Arr) (st : St) (j : Nat) : Option Arr :=
  if j = st.cur then some a else
  match nsGet st.nss j with
  | some r =>
    if r.stale then Option.none else
    match r.arr with
    | .evalFixed => some .evalFixed
    | .exec => some .exec
    | _ => Option.none
  | Option.none => Option.none

/-! ### methods of the namespace object called by the code itself (`globals().pop('k')` …)

  `.evalFixed`: the object is an `_EvalNamespace`, MRO `_EvalNamespace, _ChainMapPretendDict, ChainMap,
  MutableMapping, …, dict`. Since 8754088 `pop`, `popitem`, `clear`, since 633921f `__ior__` (like
  `__setitem__`/`__delitem__`) act on the own dict — these are ALL the methods of `ChainMap` that write
  `maps[0]`; `__or__`/`__ror__`/`copy`/`new_child`/`parents`/`fromkeys` make new objects; `setdefault` and `update` are `MutableMapping`'s, written in terms of
  `self[k]` / `self[k] = v` — `__getitem__` (own → context → imports), `__setitem__` (own).
  `.exec`: a plain dict. The historical arrangements: not modelled. -/

/-- `(result, new own dict)`; `w` the evaluated argument (for the methods that take one). -/
def nsopOwn (a : Arr) (st : St) (m : NsMeth) (k : String) (w : V) : R V × Env :=
  let own := st.own
  match m with
  | .pop1 =>
    match own.get? k with
    | some v => (.ok v, own.erase k)
    | Option.none => (.err .keyError, own)
  | .pop2 =>
    match own.get? k with
    | some v => (.ok v, own.erase k)
    | Option.none => (.ok w, own)
  | .popitem =>
    match own.reverse with
    | (k', _) :: _ => (.ok .none, own.erase k')      -- the pair is dropped by the rendering
    | [] => (.err .keyError, own)
  | .clear => (.ok .none, [])
  | .setdefault =>
    match (match a with
           | .exec => own.get? k
           | _ => orElse (own.get? k) (orElse (st.ctx.get? k) (st.imps.get? k))) with
    | some v => (.ok v, own)
    | Option.none => (.ok w, own.set k w)
  | .update => (.ok .none, own.set k w)
  | .setitem => (.ok .none, own.set k w)
  | .ior => (.ok .none, own.set k w)               -- returns the object itself; dropped by the rendering
  | .delitem =>
    match own.get? k with
    | some _ => (.ok .none, own.erase k)
    | Option.none => (.err .keyError, own)

def nsopApply (a : Arr) (st : St) (m : NsMeth) (k : String) (w : V) : R V × St :=
  match a with
  | .evalFixed => ((nsopOwn a st m k w).1, st.setOwn (nsopOwn a st m k w).2)
  | .exec => ((nsopOwn a st m k w).1, st.setOwn (nsopOwn a st m k w).2)
  | _ => (.err .outOfDomain, st)

/-! ### evaluation (fuel-indexed; every mutual call spends one unit) -/

mutual

def evalExpr (a : Arr) : Nat → Scope → Expr → St → R V × St
  | 0, _, _, st => (.err .outOfFuel, st)
  | fuel + 1, sc, e, st =>
    match e with
    | .name x => (load a sc st x, st)
    | .const n => (.ok (.cst n), st)
    | .walrus x e1 =>
      match evalExpr a fuel sc e1 st with
      | (.err er, st1) => (.err er, st1)
      | (.ok v, st1) => (.ok v, store a sc st1 x v)
    | .tuple es =>
      match evalList a fuel sc es st with
      | (.err er, st1) => (.err er, st1)
      | (.ok vs, st1) => ((.ok (.ref st1.heap.length)), (st1.alloc (.tuple vs)).2)
    | .lam ps body =>
      (.ok (.ref st.heap.length),
       (st.alloc (.clo { params := ps, globals := [], body := [], ret := body, chain := sc.chain,
                         ns := st.cur })).2)
    | .call f args =>
      match evalExpr a fuel sc f st with
      | (.err er, st1) => (.err er, st1)
      | (.ok vf, st1) =>
        match evalList a fuel sc args st1 with
        | (.err er, st2) => (.err er, st2)
        | (.ok vs, st2) => callFn a fuel sc.explicit vf vs st2
    | .append t e1 =>
      match evalExpr a fuel sc t st with
      | (.err er, st1) => (.err er, st1)
      | (.ok vt, st1) =>
        match appendable st1.heap vt with
        | some er => (.err er, st1)
        | Option.none =>
          match evalExpr a fuel sc e1 st1 with
          | (.err er, st2) => (.err er, st2)
          | (.ok w, st2) => (.ok .none, doAppend st2 vt w)
    | .comp gen elt clauses =>
      match clauses with
      | [] => (.err .outOfDomain, st)
      | (t1, it1, cs1) :: rest =>
        -- the first iterable is evaluated in the enclosing scope
        match evalExpr a fuel sc it1 st with
        | (.err er, st1) => (.err er, st1)
        | (.ok src, st1) =>
          match iterable st1.heap src with
          | some er => (.err er, st1)
          | Option.none =>
            let fr := st1.heap.length
            let st2 := (st1.alloc (.frame { declared := t1 :: rest.map (·.1), globals := [],
                                             isComp := true, vars := [] })).2
            let kind' : Kind := if gen then .func else
              match sc.kind with
              | .cls _ => .func
              | k => k
            let sc' : Scope := { sc with kind := kind', chain := fr :: sc.chain }
            match compLoop a fuel sc' fr elt t1 cs1 rest src 0 [] st2 with
            | (.err er, st3) => (.err er, st3)
            | (.ok acc, st3) => (.ok (.ref st3.heap.length), (st3.alloc (.list acc)).2)
    | .gen elt clauses =>
      match clauses with
      | [] => (.err .outOfDomain, st)
      | (t1, it1, _) :: rest =>
        -- the first iterable is evaluated (and `iter()`ed) NOW, in the enclosing scope; nothing else runs
        match evalExpr a fuel sc it1 st with
        | (.err er, st1) => (.err er, st1)
        | (.ok src, st1) =>
          match iterable st1.heap src with
          | some er => (.err er, st1)
          | Option.none =>
            let fr := st1.heap.length
            let st2 := (st1.alloc (.frame { declared := t1 :: rest.map (·.1), globals := [],
                                             isComp := true, vars := [] })).2
            (.ok (.ref st2.heap.length),
             (st2.alloc (.gen { elt := elt, clauses := clauses, stack := [(src, 0)], frame := fr,
                                chain := fr :: sc.chain, ns := st.cur, status := .suspended })).2)
    | .drain e1 =>
      match evalExpr a fuel sc e1 st with
      | (.err er, st1) => (.err er, st1)
      | (.ok v, st1) =>
        match (match v with
               | .ref r => (match st1.heap[r]? with | some (.gen _) => some r | _ => Option.none)
               | _ => Option.none) with
        | some r =>
          match drainGen a fuel r [] st1 with
          | (.err er, st2) => (.err er, st2)
          | (.ok acc, st2) => (.ok (.ref st2.heap.length), (st2.alloc (.list acc)).2)
        | Option.none =>
          match iterable st1.heap v with
          | some er => (.err er, st1)
          | Option.none =>
            match seqItems st1.heap v with
            | some xs => (.ok (.ref st1.heap.length), (st1.alloc (.list xs)).2)
            | Option.none => (.err .outOfDomain, st1)
    | .setitem t i e1 =>
      match evalExpr a fuel sc t st with
      | (.err er, st1) => (.err er, st1)
      | (.ok vt, st1) =>
        match itemSettable st1.heap vt with
        | some er => (.err er, st1)
        | Option.none =>
          match evalExpr a fuel sc e1 st1 with
          | (.err er, st2) => (.err er, st2)
          | (.ok w, st2) =>
            match doSetItem st2 vt i w with
            | (.err er, st3) => (.err er, st3)
            | (.ok _, st3) => (.ok .none, st3)
    | .nsop m k e1 =>
      if m.hasArg then
        match evalExpr a fuel sc e1 st with
        | (.err er, st1) => (.err er, st1)
        | (.ok w, st1) => nsopApply a st1 m k w
      else nsopApply a st m k .none

def evalList (a : Arr) : Nat → Scope → List Expr → St → R (List V) × St
  | 0, _, _, st => (.err .outOfFuel, st)
  | fuel + 1, sc, es, st =>
    match es with
    | [] => (.ok [], st)
    | e :: rest =>
      match evalExpr a fuel sc e st with
      | (.err er, st1) => (.err er, st1)
      | (.ok v, st1) =>
        match evalList a fuel sc rest st1 with
        | (.err er, st2) => (.err er, st2)
        | (.ok vs, st2) => (.ok (v :: vs), st2)

/-- `if c1 if c2 …` of one clause: left to right, stops at the first falsy one. -/
def evalConds (a : Arr) : Nat → Scope → List Expr → St → R Bool × St
  | 0, _, _, st => (.err .outOfFuel, st)
  | fuel + 1, sc, cs, st =>
    match cs with
    | [] => (.ok true, st)
    | c :: rest =>
      match evalExpr a fuel sc c st with
      | (.err er, st1) => (.err er, st1)
      | (.ok v, st1) => if truthy st1.heap v then evalConds a fuel sc rest st1 else (.ok false, st1)

/-- One `for t in src` clause from item `i` on, with the remaining clauses nested inside. -/
def compLoop (a : Arr) : Nat → Scope → Nat → Expr → String → List Expr → List (String × Expr × List Expr) →
    V → Nat → List V → St → R (List V) × St
  | 0, _, _, _, _, _, _, _, _, _, st => (.err .outOfFuel, st)
  | fuel + 1, sc, fr, elt, t, cs, rest, src, i, acc, st =>
    match elemAt st.heap src i with
    | Option.none => (.ok acc, st)
    | some v =>
      match evalConds a fuel sc cs (st.frameSet fr t v) with
      | (.err er, st2) => (.err er, st2)
      | (.ok false, st2) => compLoop a fuel sc fr elt t cs rest src (i + 1) acc st2
      | (.ok true, st2) =>
        match rest with
        | [] =>
          match evalExpr a fuel sc elt st2 with
          | (.err er, st3) => (.err er, st3)
          | (.ok w, st3) => compLoop a fuel sc fr elt t cs rest src (i + 1) (acc ++ [w]) st3
        | (t2, it2, cs2) :: rest2 =>
          match evalExpr a fuel sc it2 st2 with
          | (.err er, st3) => (.err er, st3)
          | (.ok src2, st3) =>
            match iterable st3.heap src2 with
            | some er => (.err er, st3)
            | Option.none =>
              match compLoop a fuel sc fr elt t2 cs2 rest2 src2 0 acc st3 with
              | (.err er, st4) => (.err er, st4)
              | (.ok acc2, st4) => compLoop a fuel sc fr elt t cs rest src (i + 1) acc2 st4

/-- Call a value with positional arguments. The body runs with the namespace object of the run
    that made the function as its globals (`target`); `cur` is put back when it returns or raises. -/
def callFn (a : Arr) : Nat → List String → V → List V → St → R V × St
  | 0, _, _, _, st => (.err .outOfFuel, st)
  | fuel + 1, explicit, vf, vs, st =>
    match callee st.heap vf with
    | .bad er => (.err er, st)
    | .clo c =>
      match target a st c.ns with
      | Option.none => (.err .outOfDomain, st)
      | some a' =>
        if c.params.length != vs.length then (.err .typeError, st) else
        let fr := st.heap.length
        let st1 := ((st.setCur c.ns).alloc
                      (.frame { declared := fnDeclared c.params c.globals c.body c.ret,
                                globals := c.globals, isComp := false,
                                vars := c.params.zip vs })).2
        let sc : Scope := { kind := .func, chain := fr :: c.chain, explicit := explicit }
        match runBody a' fuel sc c.body st1 with
        | (.err er, st2) => (.err er, st2.setCur st.cur)
        | (.ok _, st2) =>
          match evalExpr a' fuel sc c.ret st2 with
          | (r, st3) => (r, st3.setCur st.cur)

/-- The `x = e` lines of a def body. -/
def runBody (a : Arr) : Nat → Scope → List (String × Expr) → St → R Unit × St
  | 0, _, _, st => (.err .outOfFuel, st)
  | fuel + 1, sc, body, st =>
    match body with
    | [] => (.ok (), st)
    | (x, e) :: rest =>
      match evalExpr a fuel sc e st with
      | (.err er, st1) => (.err er, st1)
      | (.ok v, st1) => runBody a fuel sc rest (store a sc st1 x v)

/-- Run the body of a generator from where it is suspended to its next `yield`: `stack` is the open
    `for` levels, innermost first. `(none, _)`: the generator is exhausted. -/
def genLoop (a : Arr) : Nat → Scope → Nat → Expr → List (String × Expr × List Expr) → List (V × Nat) → St →
    R (Option V × List (V × Nat)) × St
  | 0, _, _, _, _, _, st => (.err .outOfFuel, st)
  | fuel + 1, sc, fr, elt, clauses, stack, st =>
    match stack with
    | [] => (.ok (Option.none, []), st)
    | (src, i) :: below =>
      match clauses[below.length]? with
      | Option.none => (.err .outOfDomain, st)
      | some (t, _, cs) =>
        match elemAt st.heap src i with
        | Option.none => genLoop a fuel sc fr elt clauses below st
        | some v =>
          match evalConds a fuel sc cs (st.frameSet fr t v) with
          | (.err er, st2) => (.err er, st2)
          | (.ok false, st2) => genLoop a fuel sc fr elt clauses ((src, i + 1) :: below) st2
          | (.ok true, st2) =>
            match clauses[below.length + 1]? with
            | Option.none =>
              match evalExpr a fuel sc elt st2 with
              | (.err er, st3) => (.err er, st3)
              | (.ok w, st3) => (.ok (some w, (src, i + 1) :: below), st3)
            | some (_, it2, _) =>
              match evalExpr a fuel sc it2 st2 with
              | (.err er, st3) => (.err er, st3)
              | (.ok src2, st3) =>
                match iterable st3.heap src2 with
                | some er => (.err er, st3)
                | Option.none => genLoop a fuel sc fr elt clauses ((src2, 0) :: (src, i + 1) :: below) st3

/-- `next(g)` on the generator object in cell `r`: `none` = StopIteration. Like a call, the body runs
    against the namespace object of the run that made the generator. -/
def pullGen (a : Arr) : Nat → Nat → St → R (Option V) × St
  | 0, _, st => (.err .outOfFuel, st)
  | fuel + 1, r, st =>
    match st.heap[r]? with
    | some (.gen g) =>
      match g.status with
      | .done => (.ok Option.none, st)
      | .running => (.err .valueError, st)
      | .suspended =>
        match target a st g.ns with
        | Option.none => (.err .outOfDomain, st)
        | some a' =>
          let st0 := (st.setCur g.ns).heapSet r (.gen { g with status := .running })
          let sc : Scope := { kind := .func, chain := g.chain, explicit := [] }
          match genLoop a' fuel sc g.frame g.elt g.clauses g.stack st0 with
          | (.err er, st1) =>
            (.err er, (st1.setCur st.cur).heapSet r (.gen { g with status := .done, stack := [] }))
          | (.ok (Option.none, _), st1) =>
            (.ok Option.none, (st1.setCur st.cur).heapSet r (.gen { g with status := .done, stack := [] }))
          | (.ok (some w, stack'), st1) =>
            (.ok (some w), (st1.setCur st.cur).heapSet r (.gen { g with status := .suspended, stack := stack' }))
    | _ => (.err .outOfDomain, st)

/-- `[*g]`: pull until exhausted. -/
def drainGen (a : Arr) : Nat → Nat → List V → St → R (List V) × St
  | 0, _, _, st => (.err .outOfFuel, st)
  | fuel + 1, r, acc, st =>
    match pullGen a fuel r st with
    | (.err er, st1) => (.err er, st1)
    | (.ok Option.none, st1) => (.ok acc, st1)
    | (.ok (some w), st1) => drainGen a fuel r (acc ++ [w]) st1

end

/-! ### statements (`pypyr.steps.py`) -/

def saveTok : V := .tok .special "save"
def builtinsTok : V := .tok .special "__builtins__"

/-- `d = {}; for arg in args: d[arg] = namespace[arg]` — `none` = KeyError. -/
def saveNames (ns : Env) (names : List String) (d : Env) : Option Env :=
  match names with
  | [] => some d
  | n :: rest =>
    match ns.get? n with
    | some v => saveNames ns rest (d.set n v)
    | Option.none => Option.none

/-- `context.update(d)` from inside `save` (plus the ghost log). `namespace` of `get_save` is the
    exec globals dict, `context` the real context. -/
def doSave (st : St) (d : Env) : St :=
  { st with ctx := st.ctx.update d, saved := st.saved ++ d }

/-- Evaluate keyword-argument values left to right. -/
def evalKws (a : Arr) (fuel : Nat) (sc : Scope) : List (String × Expr) → St → R Env × St
  | [], st => (.ok [], st)
  | (k, e) :: rest, st =>
    match evalExpr a fuel sc e st with
    | (.err er, st1) => (.err er, st1)
    | (.ok v, st1) =>
      match evalKws a fuel sc rest st1 with
      | (.err er, st2) => (.err er, st2)
      | (.ok kvs, st2) => (.ok ((k, v) :: kvs), st2)

/-- The `x = e` lines of a class body, run with the class namespace as locals. -/
def runClassBody (a : Arr) (fuel : Nat) (sc : Scope) : List (String × Expr) → St → R Unit × St
  | [], st => (.ok (), st)
  | (x, e) :: rest, st =>
    match evalExpr a fuel sc e st with
    | (.err er, st1) => (.err er, st1)
    | (.ok v, st1) => runClassBody a fuel sc rest (store a sc st1 x v)

def execStmt (a : Arr) (fuel : Nat) (sc : Scope) (s : Stmt) (st : St) : R Unit × St :=
  match s with
  | .assign x e =>
    match evalExpr a fuel sc e st with
    | (.err er, st1) => (.err er, st1)
    | (.ok v, st1) => (.ok (), store a sc st1 x v)
  | .aug x e =>
    match load a sc st x with
    | .err er => (.err er, st)
    | .ok v =>
      match evalExpr a fuel sc e st with
      | (.err er, st1) => (.err er, st1)
      | (.ok w, st1) =>
        match iadd st1 v w with
        | (.err er, st2) => (.err er, st2)
        | (.ok r, st2) => (.ok (), store a sc st2 x r)
  | .del x =>
    match delName a st x with
    | some st1 => (.ok (), st1)
    | Option.none => (.err .nameError, st)
  | .imp x v => (.ok (), store a sc st x v)
  | .def_ f ps gl body ret =>
    let r := st.heap.length
    let st1 := (st.alloc (.clo { params := ps, globals := gl, body := body, ret := ret, chain := [],
                                  ns := st.cur })).2
    (.ok (), store a sc st1 f (.ref r))
  | .cls c body =>
    let r := st.heap.length
    let st1 := (st.alloc (.cls [])).2
    match runClassBody a fuel { sc with kind := .cls r } body st1 with
    | (.err er, st2) => (.err er, st2)
    | (.ok _, st2) => (.ok (), store a sc st2 c (.ref r))
  | .expr e =>
    match evalExpr a fuel sc e st with
    | (.err er, st1) => (.err er, st1)
    | (.ok _, st1) => (.ok (), st1)
  | .setitem t i e =>
    match evalExpr a fuel sc e st with
    | (.err er, st1) => (.err er, st1)
    | (.ok w, st1) =>
      match evalExpr a fuel sc t st1 with
      | (.err er, st2) => (.err er, st2)
      | (.ok vt, st2) => doSetItem st2 vt i w
  | .save names kws =>
    -- `save` is an ordinary global name: LOAD_NAME first, then the keyword values, then the call
    match load a sc st "save" with
    | .err er => (.err er, st)
    | .ok f =>
      if f ≠ saveTok then (.err .outOfDomain, st) else
      match evalKws a fuel sc kws st with
      | (.err er, st1) => (.err er, st1)
      | (.ok kvs, st1) =>
        match saveNames st1.own names [] with
        | Option.none => (.err .keyError, st1)
        | some d => (.ok (), doSave st1 (d.update kvs))

def execBlock (a : Arr) (fuel : Nat) (sc : Scope) : List Stmt → St → R Unit × St
  | [], st => (.ok (), st)
  | s :: rest, st =>
    match execStmt a fuel sc s st with
    | (.err er, st1) => (.err er, st1)
    | (.ok _, st1) => execBlock a fuel sc rest st1

/-! ### the pypyr entry points -/

/-- `dict.__setitem__(self, '__builtins__', builtins.__dict__)` of `_ChainMapPretendDict.__init__`:
    what the own dict of a new namespace object holds. -/
def ownInit : Env := [("__builtins__", builtinsTok)]

def refsNs (k : Nat) : Cell → Bool
  | .clo c => c.ns == k
  | .gen g => g.ns == k
  | _ => false

namespace St

/-- A run starts: a NEW namespace object (id `st.next`) becomes the globals of the running code. -/
def enter (st : St) (a : Arr) (own : Env) : St :=
  { st with nss := nsSet st.nss st.next { arr := a, own := own, stale := false },
            cur := st.next, next := st.next + 1 }

/-- A run is over: its namespace object `k` is dropped — unless a function or generator object in the
    heap has it as `__globals__`, then it lives on (E10). `cur` the value to put back. -/
def retire (st : St) (k cur : Nat) : St :=
  { st with cur := cur, nss := if st.heap.any (refsNs k) then st.nss else nsErase st.nss k }

end St

/-- `Context.get_eval_string(src)` / `PyString.get_value(context)`:
    `namespace = _EvalNamespace(*self._pystring_namespace.maps); eval(src, namespace, namespace)`
    — a NEW namespace object per evaluation (own dict `{__builtins__}`), which pypyr drops afterwards;
    it lives on exactly as long as a function / generator object the expression made does.
    (`old = true`: the code before 62901c4, `eval(src, self._pystring_namespace)`: no per-evaluation
    object at all — the record only stands in for it.) -/
def runEval (old : Bool) (fuel : Nat) (st : St) (e : Expr) : R V × St :=
  let a : Arr := if old then .evalOld else .evalFixed
  let sc : Scope := { kind := .module, chain := [], explicit := e.compWalrus }
  match evalExpr a fuel sc e (st.enter a (if old then [] else ownInit)) with
  | (r, st1) => (r, st1.retire st.next st.cur)

/-- Historical (commits 62901c4 .. 81f45d6^):
    `eval(src, self._pystring_namespace, self._pystring_namespace.new_child())`. The child and its
    first map are dropped afterwards; the raw dict slot of `_pystring_namespace` lives on with the
    context. Kept for the witness `comp_walrus_leftover_pre_fix` only. -/
def runEvalChild (fuel : Nat) (st : St) (e : Expr) : R V × St :=
  let sc : Scope := { kind := .module, chain := [], explicit := e.compWalrus }
  match evalExpr .evalChild fuel sc e (st.enter .evalChild []) with
  | (r, st1) => (r, st1.retire st.next st.cur)

/-! ### session operations that are not inline Python (the harness interleaves them) -/

/-- `context.update(kvs)` — what steps like `pypyr.steps.set` / `contextsetf` / `default` end in. -/
def runCtxSet (st : St) (kvs : Env) : St := { st with ctx := st.ctx.update kvs }

/-- `del context[k]` for the keys present (`pypyr.steps.contextclear`). -/
def runCtxDel (st : St) (ks : List String) : St := { st with ctx := ks.foldl Env.erase st.ctx }

/-- `pypyr.steps.contextclearall.run_step`: `context.clear(); context.pystring_globals_clear()` —
    the SAME two objects, emptied: namespace objects of earlier evaluations chain to them still. -/
def runClearAll (st : St) : St := { st with ctx := [], imps := [] }

/-- `Context.__getstate__` / `__setstate__` round trip (`pickle.loads(pickle.dumps(c))`,
    `copy.deepcopy(c)`, `copy.copy(c)`), continuing with the rehydrated object: `__dict__` (with
    `_pystring_globals`) travels, the dict content travels, `_pystring_namespace` is rebuilt as
    `_ChainMapPretendDict(self, self._pystring_globals)` — a new raw dict slot `{__builtins__}`.
    On the binding level (keys ↦ the objects' tokens / heap cells) that is the identity except for
    the rebuilt slot — and except that the `_EvalNamespace` objects of EARLIER evaluations still
    chain to the OLD `Context` object: they are marked `stale`. -/
def runRehydrate (st : St) : St :=
  { st with hidden := ownInit,
            nss := st.nss.map (fun p => (p.1, { p.2 with stale := p.2.stale || p.2.arr == .evalFixed })) }

/-- `globals = context.copy(); globals['__builtins__'] = …; globals['save'] = get_save(context, globals)`. -/
def pyStepNs (ctx : Env) : Env := (ctx.set "__builtins__" builtinsTok).set "save" saveTok

/-- `pypyr.steps.py.run_step` (the `py` form): `exec(context['py'], globals)`; pypyr drops the
    namespace dict afterwards (it lives on as the `__globals__` of the functions the block defined),
    the context keeps exactly what `save` wrote. -/
def runPyStep (fuel : Nat) (st : St) (b : List Stmt) : R Unit × St :=
  let sc : Scope := { kind := .module, chain := [], explicit := blockExplicit b }
  match execBlock .exec fuel sc b (st.enter .exec (pyStepNs st.ctx)) with
  | (r, st1) => (r, st1.retire st.next st.cur)

/-- A LATER call `save(*names, **kvs)` of the `save` FUNCTION OBJECT that `get_save(context, namespace)`
    made for the py step whose namespace object is `k` — after that step has ended: the block kept the
    function itself (`save('save')`) or a helper whose body calls it (`def note(t): …; save(count=…)`,
    `save('note')`), and a later `!py note(i)` / a decorator / other code calls it, with any number of
    context updates, key deletions and `contextclearall` in between.  `save` is a closure over the
    step's `context` (the session's Context object) and `namespace` (the exec globals dict, which lives on
    with the closure); EVERY CALL builds its own `d = {}`, fills it from `namespace[name]` for the
    positional names and with the keyword values, and ends in `context.update(d)`.  `kvs`: the keyword
    values as the caller's code evaluated them.  `outOfDomain`: no such namespace object in the model
    (nothing in the model's heap keeps it alive), not a py step's, or one whose Context was left behind. -/
def runSaveCall (st : St) (k : Nat) (names : List String) (kvs : Env) : R Unit × St :=
  match nsGet st.nss k with
  | some r =>
    if r.arr == .exec && !r.stale then
      match saveNames r.own names [] with
      | some d => (.ok (), doSave st (d.update kvs))
      | Option.none => (.err .keyError, st)
    else (.err .outOfDomain, st)
  | Option.none => (.err .outOfDomain, st)

/-- The COUNTER-MODEL of `runSaveCall`: the dict hoisted out of `save` into the enclosing `get_save`
    ("make the dict once per py step"): `acc` is that dict, state of the closure — every call adds its
    arguments to it and writes THE WHOLE of it back.  Returns the new `acc` too. Used only by the
    witness `hoisted_save_dict_counterexample`. -/
def runSaveCallHoisted (st : St) (acc : Env) (k : Nat) (names : List String) (kvs : Env) : R Unit × St × Env :=
  match nsGet st.nss k with
  | some r =>
    if r.arr == .exec && !r.stale then
      match saveNames r.own names acc with
      | some d => (.ok (), doSave st (d.update kvs), d.update kvs)
      | Option.none => (.err .keyError, st, acc)
    else (.err .outOfDomain, st, acc)
  | Option.none => (.err .outOfDomain, st, acc)

/-- One reading of Python's `==` on the model's values — coarser than identity: the same value, or two list
    objects / two tuple objects with pairwise identical items (`[1, 2] == list([1, 2])`).  Python's `==` is
    coarser still (`1 == 1.0 == True`, `0 == False`, an `OrderedDict` equal to a `dict`): values of different
    TYPE that compare equal are different `V`s here, which is why the counter-model below takes the equality
    as a PARAMETER.  Used only by the counter-model `doSaveChanged` and its witness. -/
def pyEqV (heap : List Cell) (a b : V) : Bool :=
  a == b ||
  match a, b with
  | .ref r, .ref s =>
    match heap[r]?, heap[s]? with
    | some (.list xs), some (.list ys) => xs == ys
    | some (.tuple xs), some (.tuple ys) => xs == ys
    | _, _ => false
  | _, _ => false

/-- The COUNTER-MODEL of `doSave`: "write only the keys that actually changed" —
    `context.update({k: v for k, v in d.items() if k not in context or context[k] != v})` with `eq` the
    reading of `==`.  With `eq` = identity it reads like `doSave`; with any coarser `eq` an explicit save of
    an equal but distinct object (another object, another type) is not carried out.  Used only by
    `changed_only_save_counterexample` / `changed_only_save_skips_equal`. -/
def doSaveChanged (eq : V → V → Bool) (st : St) (d : Env) : St :=
  doSave st (d.filter fun kv =>
    match st.ctx.get? kv.1 with
    | some w => !(eq w kv.2)
    | Option.none => true)

/-- `pypyr.steps.pyimport.run_step`: `context.pystring_globals_update(namespace)`. -/
def runPyImport (st : St) (bindings : Env) : St := { st with imps := st.imps.update bindings }

/-- `pypyr.steps.set` with `set: {k: !py <e>}`: `context.pop('set')`, then
    `context[k] = context.get_formatted_value(PyString(e))` — the value of the evaluation is stored
    as it is (a function / generator object included). -/
def runEvalSet (fuel : Nat) (st : St) (k : String) (e : Expr) : R V × St :=
  match runEval false fuel { st with ctx := st.ctx.erase "set" } e with
  | (.err er, st1) => (.err er, st1)
  | (.ok v, st1) => (.ok v, { st1 with ctx := st1.ctx.set k v })

/-- The `for i in foreach:` of `Step.foreach_loop` over an evaluated `foreach: !py <e>`, from item
    `idx` on: the step runner — no inline Python running — takes the next item (a live list / tuple
    by index; a generator object by `next()`: its body runs NOW, against its own namespace object),
    writes it to `context['i']`, runs the step (here: one that only looks). `n`: iteration budget. -/
def foreachLoop (fuel : Nat) : Nat → V → Nat → List V → St → R (List V) × St
  | 0, _, _, _, st => (.err .outOfFuel, st)
  | n + 1, v, idx, acc, st =>
    match (match v with
           | .ref r => (match st.heap[r]? with | some (.gen _) => some r | _ => Option.none)
           | _ => Option.none) with
    | some r =>
      match pullGen .exec fuel r (st.setCur st.next) with
      | (.err er, st1) => (.err er, st1.setCur st.cur)
      | (.ok Option.none, st1) => (.ok acc, st1.setCur st.cur)
      | (.ok (some w), st1) =>
        foreachLoop fuel n v (idx + 1) (acc ++ [w]) (runCtxSet (st1.setCur st.cur) [("i", w)])
    | Option.none =>
      match elemAt st.heap v idx with
      | Option.none => (.ok acc, st)
      | some w => foreachLoop fuel n v (idx + 1) (acc ++ [w]) (runCtxSet st [("i", w)])

/-- `Step.foreach_loop` with `foreach: !py <e>`: the expression is evaluated ONCE
    (`context.get_formatted_value`), then iterated. -/
def runForeach (fuel : Nat) (st : St) (e : Expr) : R (List V) × St :=
  match runEval false fuel st e with
  | (.err er, st1) => (.err er, st1)
  | (.ok v, st1) =>
    match (match v with
           | .ref r => (match st1.heap[r]? with | some (.gen _) => Option.none | _ => iterable st1.heap v)
           | _ => iterable st1.heap v) with
    | some er => (.err er, st1)
    | Option.none => foreachLoop fuel fuel v 0 [] st1

/-! ### well-formedness: what CPython's compiler accepts (the driver rejects the rest) -/

def nodup (xs : List String) : Bool :=
  match xs with
  | [] => true
  | x :: rest => !rest.contains x && nodup rest

mutual
/-- `iters`: iteration variables of the enclosing comprehensions of this scope; `inIter`: inside a
    comprehension iterable (CPython refuses an assignment expression anywhere below an iterable,
    lambdas and nested comprehensions included); `inCls`: directly in a class body. -/
def Expr.wf (iters : List String) (inComp inIter inCls : Bool) : Expr → Bool
  | .name _ => true
  | .const _ => true
  | .walrus x e => !inIter && !iters.contains x && !(inComp && inCls) && e.wf iters inComp inIter inCls
  | .tuple es => wfL iters inComp inIter inCls es
  | .comp _ elt cls =>
    !cls.isEmpty && cls.length ≤ 3 &&
    wfC (cls.map (·.1) ++ iters) inIter inCls cls && elt.wf (cls.map (·.1) ++ iters) true inIter inCls
  | .lam ps body => nodup ps && body.wf [] false inIter false
  | .call f args => f.wf iters inComp inIter inCls && wfL iters inComp inIter inCls args
  | .append t e => t.wf iters inComp inIter inCls && e.wf iters inComp inIter inCls
  | .gen elt cls =>
    !cls.isEmpty && cls.length ≤ 3 &&
    wfC (cls.map (·.1) ++ iters) inIter inCls cls && elt.wf (cls.map (·.1) ++ iters) true inIter inCls
  | .drain e => e.wf iters inComp inIter inCls
  | .nsop m _ e => (m.hasArg || (match e with | .const 0 => true | _ => false)) && e.wf iters inComp inIter inCls
  | .setitem t _ e => t.wf iters inComp inIter inCls && e.wf iters inComp inIter inCls
def wfL (iters : List String) (inComp inIter inCls : Bool) : List Expr → Bool
  | [] => true
  | e :: es => e.wf iters inComp inIter inCls && wfL iters inComp inIter inCls es
def wfC (iters : List String) (inIter inCls : Bool) : List (String × Expr × List Expr) → Bool
  | [] => true
  | (_, it, cs) :: rest => it.wf iters true true inCls && wfL iters true inIter inCls cs && wfC iters inIter inCls rest
end

def wfBody (inCls : Bool) : List (String × Expr) → Bool
  | [] => true
  | (_, e) :: rest => e.wf [] false false inCls && wfBody inCls rest

def Stmt.wf : Stmt → Bool
  | .assign _ e => e.wf [] false false false
  | .aug _ e => e.wf [] false false false
  | .del _ => true
  | .imp _ _ => true
  | .def_ _ ps gl body ret =>
    nodup ps && gl.all (fun g => !ps.contains g) && wfBody false body && ret.wf [] false false false
  | .cls _ body => wfBody true body
  | .expr e => e.wf [] false false false
  | .setitem t _ e => t.wf [] false false false && e.wf [] false false false
  | .save _ kws => nodup (kws.map (·.1)) && wfBody false kws

end Pypyr.PyNs
